#!/usr/bin/env python3
"""
Translator for the drift tables (property C18).

Input  : /verif/.cache/tables.json — bit patterns of the in-memory `DRIFT_TABLES` of the *built*
         code, written by `corr dump-tables` (harness/src/c18.rs). `serde_json` without
         `float_roundtrip` is not correctly rounded, so the JSON text of /repo is *not* what the
         code computes with; it is only used as a cross-check here: every dumped number must be
         within 1 ulp of the correctly rounded value of the file's decimal text, with the same
         shape (slices, knots). Anything else is an ExtractError (stale dump, edited file, …).
Output : lean/AlphaG/Generated/DriftTables*.lean
           DriftTables<k>.lean   data, a chunk of slices each: `driftSlice<i> : List (Nat × Nat × Nat)`
                                 (f64 bit patterns of (time, radius, correction))
           DriftTables.lean      `driftBits : List (List (Nat × Nat × Nat) × Nat)` (all slices with
                                 the bit pattern of their z upper bound), `driftStepExceptions`
                                 (intervals (slice, knot) whose slope times 8 ns reaches 0.5 mm,
                                 computed here in exact rational arithmetic) and `driftStepKnown`
                                 (the committed /verif/known_drift_exceptions.json)
           DriftTablesOk<k>.lean the kernel obligations per slice (`decide +kernel`)
           DriftTablesOk.lean    their conjunction over the whole table
         All generated modules are core Lean only.

Run standalone (`python3 translator/drift.py`) or through extract.py (`GENERATORS`).
`python3 translator/drift.py --write-known` (re)creates known_drift_exceptions.json from the
current data (done once; the file is committed).
"""
import json, os, struct, sys
from fractions import Fraction

HERE = os.path.dirname(os.path.abspath(__file__))
VERIF = os.path.normpath(os.path.join(HERE, ".."))
REPO = os.environ.get("VERIF_REPO", "/repo")
DUMP = os.environ.get("VERIF_TABLES_DUMP", os.path.join(VERIF, ".cache", "tables.json"))
KNOWN = os.environ.get("VERIF_DRIFT_EXCEPTIONS", os.path.join(VERIF, "known_drift_exceptions.json"))
JSON_REL = "physics/data/simulation/drift_table/drift_1T_70Ar_30CO2.json"
OUT = os.environ.get("VERIF_GENERATED_OUT", os.path.join(VERIF, "lean", "AlphaG", "Generated"))
CHUNK = 12  # slices per generated data / obligation module (parallel elaboration)

STEP_DT = Fraction(8, 10**9)      # 8 ns
STEP_MAX = Fraction(5, 10**4)     # 0.5 mm


def _base_error():
    main = sys.modules.get("__main__")
    if hasattr(main, "ExtractError"):
        return main.ExtractError
    try:
        sys.path.insert(0, HERE)
        import extract  # noqa
        return extract.ExtractError
    except Exception:
        return None


_B = _base_error()
if _B is None or _B is ValueError:
    class ExtractError(ValueError):
        pass
else:
    class ExtractError(_B, ValueError):
        pass


def bits_of(x):
    return struct.unpack("<Q", struct.pack("<d", x))[0]


def frac_of_bits(b):
    """Exact rational value of a finite f64 bit pattern."""
    s, e, f = b >> 63, (b >> 52) & 0x7FF, b & ((1 << 52) - 1)
    if e == 0x7FF:
        raise ExtractError(f"non-finite number {b:016x} in the drift table")
    m, ex = (f, -1074) if e == 0 else (f + (1 << 52), e - 1075)
    v = Fraction(m) * (Fraction(2) ** ex)
    return -v if s else v


def ulp_distance(a, b):
    """Distance in units in the last place between two finite f64 bit patterns."""
    def key(x):
        return -(x & ~(1 << 63)) if x >> 63 else x
    return abs(key(a) - key(b))


def load():
    if not os.path.exists(DUMP):
        raise ExtractError(f"{DUMP} missing: run `corr dump-tables --out {DUMP}` first")
    dump = json.load(open(DUMP))["drift_tables"]
    tables = [([tuple(int(x, 16) for x in k) for k in s["knots"]], int(s["z_upper"], 16)) for s in dump]
    # cross-check against the decimal text of the data file (Python's float() is correctly rounded)
    text = json.load(open(os.path.join(REPO, JSON_REL)))
    if len(text) != len(tables):
        raise ExtractError(f"drift table: dump has {len(tables)} slices, {JSON_REL} has {len(text)}")
    off = worst = total = 0
    for i, ((knots, z), (jk, jz)) in enumerate(zip(tables, text)):
        if len(knots) != len(jk):
            raise ExtractError(f"drift table slice {i}: dump has {len(knots)} knots, file has {len(jk)}")
        pairs = [(z, jz, "z_upper")]
        for j, (k, row) in enumerate(zip(knots, jk)):
            if len(row) != 3:
                raise ExtractError(f"drift table slice {i} knot {j}: not a triple")
            pairs += [(k[c], row[c], f"knot {j} column {c}") for c in range(3)]
        for b, dec, what in pairs:
            frac_of_bits(b)  # finiteness
            d = ulp_distance(b, bits_of(float(dec)))
            total += 1
            off += d != 0
            worst = max(worst, d)
            if d > 1:
                raise ExtractError(
                    f"drift table slice {i} {what}: built code holds {b:016x}, file says {dec!r} "
                    f"({bits_of(float(dec)):016x}): {d} ulp apart (stale dump or inconsistent build)")
    return tables, dict(numbers=total, one_ulp_off=off, worst_ulp=worst)


def exceptions(tables):
    """Knot intervals (slice, knot) whose slope times 8 ns is not below 0.5 mm (exact)."""
    out = []
    for i, (knots, _) in enumerate(tables):
        vals = [(frac_of_bits(t), frac_of_bits(r)) for t, r, _ in knots]
        for j in range(len(vals) - 1):
            dt = vals[j + 1][0] - vals[j][0]
            dr = abs(vals[j + 1][1] - vals[j][1])
            if dt <= 0 or not (dr * STEP_DT < STEP_MAX * dt):
                out.append((i, j))
    return out


def load_known():
    if not os.path.exists(KNOWN):
        raise ExtractError(f"{KNOWN} missing (committed list of known 8 ns step exceptions)")
    k = json.load(open(KNOWN))
    return [tuple(e) for e in k["exceptions"]]


HEADER = ("-- GENERATED by translator/drift.py from the in-memory DRIFT_TABLES of the built code\n"
          "-- (.cache/tables.json, cross-checked to 1 ulp against " + JSON_REL + "); do not edit.\n")


def generate():
    tables, stats = load()
    exc = exceptions(tables)
    known = load_known()
    n = len(tables)
    chunks = [list(range(a, min(a + CHUNK, n))) for a in range(0, n, CHUNK)]
    files = []
    # data chunks
    for c, idx in enumerate(chunks):
        t = HEADER + "namespace AlphaG.Generated\n\n"
        for i in idx:
            knots = tables[i][0]
            t += f"/-- slice {i}: {len(knots)} knots (time, radius, lorentz correction) as f64 bit patterns -/\n"
            t += f"def driftSlice{i} : List (Nat × Nat × Nat) := [\n"
            t += ",\n".join(f"  (0x{a:016x}, 0x{b:016x}, 0x{cc:016x})" for a, b, cc in knots) + "]\n\n"
        t += "end AlphaG.Generated\n"
        files.append((f"DriftTables{c}.lean", t))
    # index
    t = HEADER + "".join(f"import AlphaG.Generated.DriftTables{c}\n" for c in range(len(chunks)))
    t += "namespace AlphaG.Generated\n\n"
    t += (f"/-- cross-check against the file text: {stats['numbers']} numbers, {stats['one_ulp_off']} one ulp "
          f"away from the correctly rounded decimal, worst {stats['worst_ulp']} ulp -/\n")
    t += "def driftBits : List (List (Nat × Nat × Nat) × Nat) := [\n"
    t += ",\n".join(f"  (driftSlice{i}, 0x{tables[i][1]:016x})" for i in range(n)) + "]\n\n"
    t += "/-- number of slices -/\ndef driftSliceCount : Nat := " + str(n) + "\n\n"

    def pairs(xs):
        return "[" + ", ".join(f"({a}, {b})" for a, b in xs) + "]"
    t += ("/-- knot intervals (slice, knot) of the current table whose slope times 8 ns is not below 0.5 mm\n"
          "(exact rational arithmetic in the translator; re-checked by the kernel in DriftTablesOk) -/\n")
    t += "def driftStepExceptions : List (Nat × Nat) := " + pairs(exc) + "\n\n"
    t += "/-- the committed list /verif/known_drift_exceptions.json (finding F5) -/\n"
    t += "def driftStepKnown : List (Nat × Nat) := " + pairs(known) + "\n\n"
    t += "end AlphaG.Generated\n"
    files.append(("DriftTables.lean", t))
    # obligations
    for c, idx in enumerate(chunks):
        t = HEADER + "import AlphaG.Generated.DriftTables\nimport AlphaG.Lemmas.DriftCheck\n"
        t += "namespace AlphaG.Generated\nopen AlphaG.Drift\n\n"
        for i in idx:
            t += f"theorem driftSlice{i}_ok : checkSlice driftSlice{i} = true := by decide +kernel\n"
            t += (f"theorem driftSlice{i}_step :\n    checkStep driftSlice{i} 0 (exceptionsOf driftStepExceptions {i}) = true := "
                  "by decide +kernel\n")
        t += "\nend AlphaG.Generated\n"
        files.append((f"DriftTablesOk{c}.lean", t))
    t = HEADER + "import AlphaG.Generated.DriftTables\n"
    t += "".join(f"import AlphaG.Generated.DriftTablesOk{c}\n" for c in range(len(chunks)))
    t += "namespace AlphaG.Generated\nopen AlphaG.Drift\n\n"
    t += "/-- every slice passes the integer well-formedness check -/\n"
    t += "theorem driftBits_slices_ok : ∀ s ∈ driftBits, checkSlice s.1 = true := by\n"
    t += "  intro s hs\n  simp only [driftBits, List.mem_cons, List.not_mem_nil, or_false] at hs\n"
    t += "  rcases hs with " + " | ".join(["rfl"] * n) + "\n"
    t += "".join(f"  · exact driftSlice{i}_ok\n" for i in range(n))
    t += "\n/-- the z upper bounds are finite, positive and strictly ascending -/\n"
    t += "theorem driftBits_z_ok : checkZ (driftBits.map (·.2)) = true := by decide +kernel\n\n"
    t += ("/-- every knot interval outside `driftStepExceptions` has slope times 8 ns below 0.5 mm -/\n"
          "theorem driftBits_step_ok : ∀ i, (h : i < driftBits.length) →\n"
          "    checkStep (driftBits[i]).1 0 (exceptionsOf driftStepExceptions i) = true := by\n"
          "  intro i h\n"
          f"  have h' : i < {n} := h\n"
          "  match i, h' with\n")
    t += "".join(f"  | {i}, _ => exact driftSlice{i}_step\n" for i in range(n))
    t += f"  | k + {n}, hk => exact absurd hk (by omega)\n"
    t += "\n/-- no exception outside the committed list (a new interval over 0.5 mm breaks this) -/\n"
    t += ("theorem driftStepExceptions_known : driftStepExceptions.all (fun e => driftStepKnown.contains e) = true := "
          "by decide +kernel\n\n")
    t += "end AlphaG.Generated\n"
    files.append(("DriftTablesOk.lean", t))
    return files, stats, exc, known


def gen_drift():
    return generate()[0]


GENERATORS = [gen_drift]


def main():
    if "--write-known" in sys.argv:
        tables, stats = load()
        exact = exceptions(tables)
        # plus the intervals whose knot-to-knot radius difference, evaluated in f64 as the harness
        # observes it on the real code, reaches 0.5 mm (borderline rows tabulated exactly 0.5 mm apart
        # whose knots are a few 1e-24 s more than 8 ns apart)
        f64 = lambda b: struct.unpack("<d", struct.pack("<Q", b))[0]
        observed = [(i, j) for i, (knots, _) in enumerate(tables) for j in range(len(knots) - 1)
                    if abs(f64(knots[j + 1][1]) - f64(knots[j][1])) >= 0.0005]
        exc = sorted(set(exact) | set(observed))
        worst = max(
            (abs(frac_of_bits(tables[i][0][j + 1][1]) - frac_of_bits(tables[i][0][j][1])), i, j) for i, j in exc)
        doc = {
            "comment": "Knot intervals [t_j, t_{j+1}] (slice i, knot j, both 0-based) of the shipped drift table "
                       "drift_1T_70Ar_30CO2.json whose radius changes by 0.5 mm or more over 8 ns "
                       "(property C18's step clause is false there; finding F5). Created by "
                       "`python3 translator/drift.py --write-known`; any interval over 0.5 mm that is not "
                       "listed here is a new violation.",
            "criterion": "|r[j+1]-r[j]| * 8 ns >= 0.5 mm * (t[j+1]-t[j]) in exact rational arithmetic on the f64 values "
                         "held by the built code (the kernel-checked criterion), or |r[j+1]-r[j]| >= 0.0005 evaluated in f64 "
                         "(what a lookup pair on the real code shows)",
            "count": len(exc),
            "count_exact_criterion": len(exact),
            "worst": {"slice": worst[1], "knot": worst[2], "delta_r_mm": float(worst[0] * 1000)},
            "exceptions": [list(e) for e in exc],
        }
        with open(KNOWN, "w") as f:
            f.write(json.dumps(doc, indent=1).replace("[\n   ", "[").replace(",\n   ", ", ").replace("\n  ]", "]"))
            f.write("\n")
        print(f"wrote {KNOWN}: {len(exc)} exceptions")
        return 0
    try:
        files, stats, exc, known = generate()
    except (ExtractError, OSError, ValueError) as e:
        print(f"translator/drift: cannot extract: {e}")
        return 1
    os.makedirs(OUT, exist_ok=True)
    changed = []
    for name, text in files:
        p = os.path.join(OUT, name)
        if not os.path.exists(p) or open(p).read() != text:
            open(p, "w").write(text)
            changed.append(name)
    new = sorted(set(exc) - set(known))
    gone = sorted(set(known) - set(exc))
    print(f"translator/drift: ok, {stats['numbers']} numbers ({stats['one_ulp_off']} one ulp off the file text, "
          f"worst {stats['worst_ulp']}), {len(exc)} step exceptions ({len(new)} not in the committed list, "
          f"{len(gone)} listed but no longer over)" + (f"; rewrote {len(changed)} files" if changed else "; no change"))
    return 0


if __name__ == "__main__":
    sys.exit(main())
