"""
Table generators for C08 (channel identity) and the bank-name part of C01.

Everything the Lean model of the maps uses is read from /repo's *source text* here, on every
run of ./check (extract.py loads this module and calls every function of `GENERATORS`):

  Generated/Maps.lean     PREAMPS_*, INV_CHANNELS_*, PADWING_BOARDS_* consts (every const whose
                          name matches the family pattern, so a newly added map shows up), the
                          ordered arms of the `match run_number` blocks of
                          `TpcWirePosition::try_new` (two) and `TpcPwbPosition::try_new`, the
                          `INV_PADS_0` construction (channel-range arms and its constants), the
                          geometry constants and WIRE_SHIFT / WIRES_PER_COLUMN
  Generated/Names.lean    bank-name literals / radices / prefixes of midas.rs, the Chronobox bank
                          arms, CHRONOBOX_NAMES, NUM_INPUT_CHANNELS, EventId arms
  Generated/CalArms.lean  ordered arms of the six calibration run-number dispatches

A `match run_number` arm is emitted as `(pattern, rhs)` with pattern in {`u32::MAX`, `N..`, `_`}
and rhs in {table idx, value n, err Variant}, *in source order* (first matching arm wins in the
model as in Rust), so an arm that shadows another or leaves a gap changes the generated model
and the kernel-checked theorems about it. Anything that cannot be located or has an unexpected
shape raises ExtractError (./check then stops: the tie to the source is broken).
"""
import re
import sys

_main = sys.modules.get("__main__")
if _main is not None and hasattr(_main, "ExtractError") and hasattr(_main, "strip_comments"):
    ex = _main
else:  # imported stand-alone (tests, mutation runs)
    import os
    sys.path.insert(0, os.path.dirname(os.path.abspath(__file__)))
    import extract as ex

ExtractError = ex.ExtractError
U32_MAX = 2 ** 32 - 1


# ----------------------------------------------------------------------------- source helpers
def src_of(rel):
    """Source text without comments and without `#[cfg(test)] mod tests { … }` bodies."""
    s = ex.strip_comments(ex.read(rel))
    return s


def matching_brace(s, open_idx):
    """Index of the `}` matching the `{` at open_idx (no braces occur inside the string/char
    literals of the regions we read; checked by the callers' shape tests)."""
    assert s[open_idx] == "{"
    depth = 0
    i = open_idx
    in_str = False
    while i < len(s):
        c = s[i]
        if in_str:
            if c == "\\":
                i += 1
            elif c == '"':
                in_str = False
        elif c == '"':
            in_str = True
        elif c == "{":
            depth += 1
        elif c == "}":
            depth -= 1
            if depth == 0:
                return i
        i += 1
    raise ExtractError("unbalanced braces")


def block_after(s, header_re, what):
    """Body (without the outer braces) of the first `{ … }` block whose header matches."""
    m = re.search(header_re, s, flags=re.S)
    if not m:
        raise ExtractError(f"{what}: not found")
    o = s.find("{", m.end() - 1)
    if o < 0:
        raise ExtractError(f"{what}: no body")
    c = matching_brace(s, o)
    return s[o + 1:c], m.start(), c + 1


def impl_fn_body(s, impl_re, fn_name, what):
    body, _, _ = block_after(s, impl_re, what + " (impl)")
    fbody, _, _ = block_after(body, r"\bfn\s+" + re.escape(fn_name) + r"\s*(<[^>]*>)?\s*\(.*?\)\s*(->\s*[^{]+)?\{", what)
    return fbody


def free_fn_body(s, fn_name, what):
    fbody, _, _ = block_after(s, r"\bfn\s+" + re.escape(fn_name) + r"\s*\(.*?\)\s*(->\s*[^{]+)?\{", what)
    return fbody


def split_top(s, sep=","):
    """Split at separators that are not nested in () [] {} or string literals."""
    out, depth, cur, in_str = [], 0, [], False
    i = 0
    while i < len(s):
        c = s[i]
        if in_str:
            cur.append(c)
            if c == "\\":
                i += 1
                cur.append(s[i])
            elif c == '"':
                in_str = False
        elif c == '"':
            in_str = True
            cur.append(c)
        elif c in "([{":
            depth += 1
            cur.append(c)
        elif c in ")]}":
            depth -= 1
            cur.append(c)
        elif c == sep and depth == 0:
            out.append("".join(cur))
            cur = []
        else:
            cur.append(c)
        i += 1
    if "".join(cur).strip():
        out.append("".join(cur))
    return [x.strip() for x in out]


def split_arms(body, what):
    """Arms of a match body as (pattern, rhs) in order. A block right-hand side `{ … }` ends its
    arm with or without a trailing comma; any other right-hand side ends at the next top-level
    comma."""
    arms = []
    i, n = 0, len(body)
    while True:
        while i < n and body[i] in " \t\r\n,":
            i += 1
        if i >= n:
            break
        j = body.find("=>", i)
        if j < 0:
            raise ExtractError(f"{what}: arm without `=>`: `{body[i:].strip()[:60]}`")
        pat = body[i:j].strip()
        k = j + 2
        while k < n and body[k] in " \t\r\n":
            k += 1
        if k < n and body[k] == "{":
            c = matching_brace(body, k)
            rhs = body[k:c + 1]
            i = c + 1
        else:
            rest = split_top(body[k:])
            rhs = rest[0] if rest else ""
            # advance past this rhs and its comma
            depth, in_str, m = 0, False, k
            while m < n:
                ch = body[m]
                if in_str:
                    if ch == "\\":
                        m += 1
                    elif ch == '"':
                        in_str = False
                elif ch == '"':
                    in_str = True
                elif ch in "([{":
                    depth += 1
                elif ch in ")]}":
                    depth -= 1
                elif ch == "," and depth == 0:
                    break
                m += 1
            i = m + 1
        if not pat or not rhs.strip():
            raise ExtractError(f"{what}: malformed arm near `{body[j - 20:j + 20]}`")
        arms.append((pat, rhs.strip()))
    return arms


def int_lit(t, what):
    t = t.strip().replace("_", "")
    m = re.fullmatch(r"(0x[0-9a-fA-F]+|\d+)(usize|u8|u16|u32|u64)?", t)
    if not m:
        raise ExtractError(f"{what}: `{t}` is not an integer literal")
    return int(m.group(1), 0)


def usize_consts(s):
    """All `const NAME: usize = <expr>;` of a file, evaluated (expr: literals, earlier consts,
    `*`, `/`, parentheses)."""
    env = {}
    for m in re.finditer(r"\bconst\s+([A-Z_0-9]+)\s*:\s*usize\s*=\s*([^;]+);", s):
        name, expr = m.group(1), m.group(2).strip()
        env[name] = (expr, None)
    return env


def eval_usize(expr, envs, what):
    """Evaluate a usize const expression over the given const environments."""
    toks = re.findall(r"[A-Za-z_][A-Za-z_0-9]*|0x[0-9a-fA-F]+|\d+|[*/+()-]", expr.replace("_", "_"))
    if "".join(toks) != re.sub(r"\s+", "", expr):
        raise ExtractError(f"{what}: cannot tokenise `{expr}`")
    pos = [0]

    def atom():
        t = toks[pos[0]]
        pos[0] += 1
        if t == "(":
            v = add()
            if toks[pos[0]] != ")":
                raise ExtractError(f"{what}: unbalanced `{expr}`")
            pos[0] += 1
            return v
        if re.fullmatch(r"0x[0-9a-fA-F]+|\d+", t):
            return int(t, 0)
        for env in envs:
            if t in env:
                return eval_usize(env[t][0], envs, what)
        raise ExtractError(f"{what}: unknown identifier `{t}` in `{expr}`")

    def mul():
        v = atom()
        while pos[0] < len(toks) and toks[pos[0]] in "*/":
            op = toks[pos[0]]
            pos[0] += 1
            w = atom()
            if op == "/" and w == 0:
                raise ExtractError(f"{what}: division by zero in `{expr}`")
            v = v * w if op == "*" else v // w
        return v

    def add():
        v = mul()
        while pos[0] < len(toks) and toks[pos[0]] in "+-":
            op = toks[pos[0]]
            pos[0] += 1
            w = mul()
            v = v + w if op == "+" else v - w
            if v < 0:
                raise ExtractError(f"{what}: negative usize in `{expr}`")
        return v

    v = add()
    if pos[0] != len(toks):
        raise ExtractError(f"{what}: trailing tokens in `{expr}`")
    return v


def lazy_refs(s):
    """`static ref NAME: TYPE = func(ARG);` entries of all lazy_static! blocks → {NAME: ARG}."""
    out = {}
    for m in re.finditer(r"\bstatic\s+ref\s+([A-Z_0-9]+)\s*:\s*[^=]+=\s*([a-z_0-9]+)\s*\(\s*([A-Z_0-9]+)\s*\)\s*;", s):
        out[m.group(1)] = (m.group(2), m.group(3))
    return out


# ----------------------------------------------------------------------------- match arms
def run_matches(body, what):
    """All `match run_number { … }` blocks of a function body, in order; each as the ordered
    list of (pattern, rhs-text)."""
    res = []
    for m in re.finditer(r"\bmatch\s+run_number\s*\{", body):
        o = m.end() - 1
        c = matching_brace(body, o)
        arms = split_arms(ex.resolve_consts(body[o + 1:c]), what)
        if not arms:
            raise ExtractError(f"{what}: empty match")
        res.append(arms)
    return res


def parse_pattern(p, what):
    if re.fullmatch(r"u32\s*::\s*MAX", p):
        return ("max", None)
    m = re.fullmatch(r"([0-9_]+)(u32)?\s*\.\.", p)
    if m:
        n = int(m.group(1).replace("_", ""))
        if n > U32_MAX:
            raise ExtractError(f"{what}: threshold {n} does not fit u32")
        return ("ge", n)
    if p == "_":
        return ("wild", None)
    raise ExtractError(f"{what}: unsupported run_number pattern `{p}` (the model knows `u32::MAX`, `N..`, `_`; "
                       f"extend RunPat and the lemmas in Lemmas/MapsArms.lean)")


def parse_rhs(r, what):
    """→ ("ref", IDENT) | ("value", n) | ("err", Variant)."""
    r = r.strip()
    m = re.fullmatch(r"(?:return\s+)?Err\s*\(\s*(?:[A-Za-z_0-9]+\s*::\s*)*([A-Za-z_0-9]+)\s*(\{[^}]*\})?\s*\)", r)
    if m:
        return ("err", m.group(1))
    m = re.fullmatch(r"Ok\s*\(\s*([0-9_]+)\s*\)", r)
    if m:
        return ("value", int(m.group(1).replace("_", "")))
    m = re.fullmatch(r"&\s*\*?\s*([A-Z_0-9]+)", r) or re.fullmatch(r"([A-Z_0-9]+)\s*\.\s*deref\s*\(\s*\)", r)
    if m:
        return ("ref", m.group(1))
    raise ExtractError(f"{what}: unsupported arm right-hand side `{r}`")


def lean_pat(p):
    kind, n = p
    return {"max": ".max", "wild": ".wild"}.get(kind) or f".ge {n}"


def lean_str(s):
    return ex.lean_str(s)


def lean_arms(name, doc, arms):
    """arms: list of (pattern, ("table", idx) | ("value", n) | ("err", V))."""
    def rhs(r):
        k, v = r
        if k == "table":
            return f".table {v}"
        if k == "value":
            return f".value {v}"
        return f".err {lean_str(v)}"
    out = f"/-- {doc} -/\n"
    out += f"def {name} : Arms := [\n"
    out += ",\n".join(f"  ({lean_pat(p)}, {rhs(r)})" for p, r in arms) + "]\n\n"
    return out


def resolve_arms(raw, tables, lazy, what, builder=None):
    """Turn ("ref", IDENT) into ("table", index into `tables` (list of const names))."""
    out = []
    for pat, rhs in raw:
        p = parse_pattern(pat, what)
        r = parse_rhs(rhs, what)
        if r[0] == "ref":
            ident = r[1]
            if ident in lazy:
                fn, arg = lazy[ident]
                if builder is not None and fn != builder:
                    raise ExtractError(f"{what}: `{ident}` is built by `{fn}`, expected `{builder}`")
                ident = arg
            if ident not in tables:
                raise ExtractError(f"{what}: arm target `{r[1]}` does not resolve to an extracted table "
                                   f"(known: {', '.join(tables)})")
            r = ("table", tables.index(ident))
        out.append((p, r))
    return out


def count_matches(s):
    return len(re.findall(r"\bmatch\s+run_number\b", s))


def drop_tests(s):
    """Remove an inline `mod tests { … }` if present (the files here use `mod tests;`)."""
    m = re.search(r"\bmod\s+tests\s*\{", s)
    if not m:
        return s
    c = matching_brace(s, m.end() - 1)
    return s[:m.start()] + s[c + 1:]


# ----------------------------------------------------------------------------- Maps.lean
TYPES = '''/-- Pattern of one `match run_number` arm. -/
inductive RunPat where
  /-- `u32::MAX` (the simulation run number) -/
  | max
  /-- `N..` -/
  | ge (n : Nat)
  /-- `_` -/
  | wild
deriving Repr, DecidableEq

/-- Right-hand side of one arm: the `idx`-th table of the family the match selects from
(lazy statics are resolved to the const they are built from), a literal `Ok(n)`, or an error
variant. -/
inductive ArmRhs where
  | table (idx : Nat)
  | value (n : Nat)
  | err (variant : String)
deriving Repr, DecidableEq

/-- Arms of a `match run_number { … }` in source order (first match wins). -/
abbrev Arms := List (RunPat × ArmRhs)

'''


def family_consts(s, pattern, what):
    """Names of all consts whose name matches the family pattern, in source order."""
    names = [m.group(1) for m in re.finditer(r"\bconst\s+(" + pattern + r")\s*:", s)]
    if not names:
        raise ExtractError(f"{what}: no const matching {pattern}")
    if len(set(names)) != len(names):
        raise ExtractError(f"{what}: duplicate const names {names}")
    return names


def decl_dims(s, name, envs):
    """Declared array lengths of `const NAME: [[T; A]; B]` → [B, A] (outer first), evaluated."""
    m = re.search(r"\bconst\s+" + re.escape(name) + r"\s*:\s*([^=]+)=", s)
    if not m:
        raise ExtractError(f"const {name} not found")
    lens = re.findall(r";\s*([A-Za-z_0-9]+)\s*\]", m.group(1))
    if not lens:
        raise ExtractError(f"const {name}: no array length")
    return [eval_usize(l, envs, name) for l in reversed(lens)]


def gen_maps():
    aw = drop_tests(src_of("detector/src/alpha16/aw_map.rs"))
    pm = drop_tests(src_of("detector/src/padwing/map.rs"))
    mt = drop_tests(src_of("physics/src/matching.rs"))
    aw_env, pm_env, mt_env = usize_consts(aw), usize_consts(pm), usize_consts(mt)
    envs = [mt_env, aw_env, pm_env]

    def const_val(env, name):
        if name not in env:
            raise ExtractError(f"const {name}: usize not found")
        return eval_usize(env[name][0], envs, name)

    # ---- geometry constants
    consts = [
        ("tpcAnodeWires", "TPC_ANODE_WIRES", const_val(aw_env, "TPC_ANODE_WIRES")),
        ("pwbPadColumns", "PWB_PAD_COLUMNS", const_val(pm_env, "PWB_PAD_COLUMNS")),
        ("pwbPadRows", "PWB_PAD_ROWS", const_val(pm_env, "PWB_PAD_ROWS")),
        ("tpcPwbColumns", "TPC_PWB_COLUMNS", const_val(pm_env, "TPC_PWB_COLUMNS")),
        ("tpcPwbRows", "TPC_PWB_ROWS", const_val(pm_env, "TPC_PWB_ROWS")),
        ("tpcPadColumns", "TPC_PAD_COLUMNS = " + pm_env.get("TPC_PAD_COLUMNS", ("?",))[0],
         const_val(pm_env, "TPC_PAD_COLUMNS")),
        ("tpcPadRows", "TPC_PAD_ROWS = " + pm_env.get("TPC_PAD_ROWS", ("?",))[0], const_val(pm_env, "TPC_PAD_ROWS")),
        ("tpcPads", "TPC_PADS = " + pm_env.get("TPC_PADS", ("?",))[0], const_val(pm_env, "TPC_PADS")),
        ("wireShift", "matching.rs WIRE_SHIFT", const_val(mt_env, "WIRE_SHIFT")),
        ("wiresPerColumn", "matching.rs WIRES_PER_COLUMN = " + mt_env.get("WIRES_PER_COLUMN", ("?",))[0],
         const_val(mt_env, "WIRES_PER_COLUMN")),
    ]
    # the two index functions of matching.rs and `phi()` use the literal mask 0xff / shift 8:
    # locate them so that a change of shape is noticed
    w2c = free_fn_body(mt, "wire_to_pad_column", "matching.rs wire_to_pad_column")
    def mask_of(body, lhs, what):
        """`<lhs> & MASK` or, equivalently for usize and a power-of-two modulus, `<lhs> % MOD`
        (MOD a literal or a usize const of matching.rs / aw_map.rs): the mask."""
        m = re.search(lhs + r"\s*&\s*(0x[0-9a-fA-F]+|\d+)\s*[;)]", body)
        if m:
            return int(m.group(1), 0)
        m = re.search(lhs + r"\s*%\s*([A-Z_0-9a-fx]+)\s*[;)]", body)
        if m:
            t = m.group(1)
            v = int(t, 0) if re.fullmatch(r"0x[0-9a-fA-F]+|\d+", t) else None
            if v is None:
                for env in (mt_env, aw_env):
                    if t in env:
                        v = const_val(env, t)
                        break
            if v and v & (v - 1) == 0:
                return v - 1
        raise ExtractError(f"{what}: unexpected shape")

    w2c_mask = mask_of(w2c, r"\w+\s*\.\s*wrapping_sub\s*\(\s*WIRE_SHIFT\s*\)", "matching.rs wire_to_pad_column")
    if not re.search(r"\w+\s*/\s*WIRES_PER_COLUMN", w2c):
        raise ExtractError("matching.rs wire_to_pad_column: unexpected shape")
    c2w = free_fn_body(mt, "pad_column_to_wires", "matching.rs pad_column_to_wires")
    c2w_mask = mask_of(c2w, r"\(\s*\(?\s*pad_column\s*\*\s*WIRES_PER_COLUMN\s*\)?\s*\+\s*WIRE_SHIFT\s*\)", "matching.rs pad_column_to_wires")
    if not re.search(r"(\w+)\s*\.\.\s*\1\s*\+\s*WIRES_PER_COLUMN", c2w):
        raise ExtractError("matching.rs pad_column_to_wires: unexpected shape")
    phi = impl_fn_body(aw, r"\bimpl\s+TpcWirePosition\s*\{", "phi", "aw_map.rs TpcWirePosition::phi")
    m = re.search(r"self\s*\.\s*0\s*\.\s*wrapping_sub\s*\(\s*(\d+)\s*\)\s*&\s*(0x[0-9a-fA-F]+|\d+)\s*;", phi)
    if not m or not re.search(r"ANODE_WIRE_PITCH_PHI\s*\*\s*\(\s*shifted_index\s+as\s+f64\s*\+\s*0\.5\s*\)", phi):
        raise ExtractError("aw_map.rs TpcWirePosition::phi: unexpected shape")
    consts += [
        ("wireToColumnMask", "mask in wire_to_pad_column", w2c_mask),
        ("columnToWiresMask", "mask in pad_column_to_wires", c2w_mask),
        ("phiWireShift", "shift in TpcWirePosition::phi", int(m.group(1))),
        ("phiWireMask", "mask in TpcWirePosition::phi", int(m.group(2), 0)),
    ]
    colphi = impl_fn_body(pm, r"\bimpl\s+TpcPadColumn\s*\{", "phi", "map.rs TpcPadColumn::phi")
    if not re.search(r"\(\s*column\s+as\s+f64\s*\+\s*0\.5\s*\)\s*\*\s*PAD_PITCH_PHI", colphi):
        raise ExtractError("map.rs TpcPadColumn::phi: unexpected shape")
    if not re.search(r"ANODE_WIRE_PITCH_PHI\s*:\s*f64\s*=\s*2\.0\s*\*\s*PI\s*/\s*\(\s*TPC_ANODE_WIRES\s+as\s+f64\s*\)", aw) \
            or not re.search(r"PAD_PITCH_PHI\s*:\s*f64\s*=\s*2\.0\s*\*\s*PI\s*/\s*\(\s*TPC_PAD_COLUMNS\s+as\s+f64\s*\)", pm):
        raise ExtractError("pitch constants: unexpected shape")

    # ---- preamp tables
    preamp_names = family_consts(aw, r"PREAMPS_[A-Z0-9_]+", "aw_map.rs")
    preamp_tables = []
    for name in preamp_names:
        body = ex.const_body(aw, name)
        rows = re.findall(r'\(\s*"([^"]*)"\s*,\s*\(\s*(\d+)\s*,\s*(\d+)\s*\)\s*\)', body)
        (n,) = decl_dims(aw, name, envs)
        if len(rows) != n or n == 0 or len(split_top(body.strip()[1:-1])) != n:
            raise ExtractError(f"{name}: declared {n} rows, parsed {len(rows)}")
        preamp_tables.append((name, [(b, int(p), int(q)) for b, p, q in rows]))
    # ---- channel tables
    chan_names = family_consts(aw, r"INV_CHANNELS_[A-Z0-9_]+", "aw_map.rs")
    chan_tables = []
    for name in chan_names:
        body = ex.const_body(aw, name).strip()
        if not (body.startswith("[") and body.endswith("]")):
            raise ExtractError(f"{name}: not an array literal")
        vals = [int_lit(x, name) for x in split_top(body[1:-1])]
        (n,) = decl_dims(aw, name, envs)
        if len(vals) != n or n == 0:
            raise ExtractError(f"{name}: declared {n} entries, parsed {len(vals)}")
        chan_tables.append((name, vals))
    # ---- PWB tables
    pwb_names = family_consts(pm, r"PADWING_BOARDS_[A-Z0-9_]+", "padwing/map.rs")
    pwb_tables = []
    for name in pwb_names:
        body = ex.const_body(pm, name).strip()
        if not (body.startswith("[") and body.endswith("]")):
            raise ExtractError(f"{name}: not an array literal")
        cols = split_top(body[1:-1])
        ncols, nrows = decl_dims(pm, name, envs)
        table = []
        for col in cols:
            if not (col.startswith("[") and col.endswith("]")):
                raise ExtractError(f"{name}: column is not an array literal")
            cells = split_top(col[1:-1])
            names = []
            for cell in cells:
                mm = re.fullmatch(r'"([^"\\]*)"', cell)
                if not mm:
                    raise ExtractError(f"{name}: cell `{cell}` is not a string literal")
                names.append(mm.group(1))
            if len(names) != nrows:
                raise ExtractError(f"{name}: declared {nrows} rows, a column has {len(names)}")
            table.append(names)
        if len(table) != ncols or ncols == 0:
            raise ExtractError(f"{name}: declared {ncols} columns, parsed {len(table)}")
        pwb_tables.append((name, table))

    # ---- match arms
    aw_lazy, pm_lazy = lazy_refs(aw), lazy_refs(pm)
    wire_new = impl_fn_body(aw, r"\bimpl\s+TpcWirePosition\s*\{", "try_new", "aw_map.rs TpcWirePosition::try_new")
    ms = run_matches(wire_new, "TpcWirePosition::try_new")
    if len(ms) != 2 or count_matches(aw) != 2:
        raise ExtractError(f"aw_map.rs: expected exactly the two `match run_number` of TpcWirePosition::try_new, "
                           f"found {count_matches(aw)} in the file / {len(ms)} in try_new")
    if not re.search(r"let\s+preamp_map\s*=\s*match\s+run_number", wire_new) or \
            not re.search(r"let\s+channel_map\s*=\s*match\s+run_number", wire_new) or \
            wire_new.find("preamp_map") > wire_new.find("channel_map"):
        raise ExtractError("TpcWirePosition::try_new: expected `let preamp_map = match…` then `let channel_map = match…`")
    preamp_arms = resolve_arms(ms[0], preamp_names, aw_lazy, "TpcWirePosition::try_new preamp_map", "preamps_map")
    chan_arms = resolve_arms(ms[1], chan_names, aw_lazy, "TpcWirePosition::try_new channel_map")
    pwb_new = impl_fn_body(pm, r"\bimpl\s+TpcPwbPosition\s*\{", "try_new", "map.rs TpcPwbPosition::try_new")
    ms = run_matches(pwb_new, "TpcPwbPosition::try_new")
    if len(ms) != 1 or count_matches(pm) != 1:
        raise ExtractError(f"padwing/map.rs: expected exactly the one `match run_number` of TpcPwbPosition::try_new, "
                           f"found {count_matches(pm)} in the file / {len(ms)} in try_new")
    pwb_arms = resolve_arms(ms[0], pwb_names, pm_lazy, "TpcPwbPosition::try_new", "inverse_pwb_map")
    for arms, what in [(preamp_arms, "preamp"), (chan_arms, "channel"), (pwb_arms, "pwb")]:
        if any(r[0] == "value" for _, r in arms):
            raise ExtractError(f"{what} arms: literal value where a table is expected")
    # PwbPadPosition::try_new must still ignore the run number and use INV_PADS_0
    pad_new = impl_fn_body(pm, r"\bimpl\s+PwbPadPosition\s*\{", "try_new", "map.rs PwbPadPosition::try_new")
    if not re.search(r"let\s+position_map\s*=\s*&\s*INV_PADS_0\s*;", pad_new) or \
            not re.search(r"position_map\s*\.\s*get\s*\(\s*&\s*\(\s*after_id\s*,\s*pad_channel_id\s*\)\s*\)\s*\.\s*unwrap\s*\(\s*\)", pad_new):
        raise ExtractError("PwbPadPosition::try_new: unexpected shape (the model assumes INV_PADS_0 for every run)")

    # ---- INV_PADS_0 construction
    inv, _, _ = block_after(pm, r"\bstatic\s+ref\s+INV_PADS_0\s*:[^=]*=\s*\{", "INV_PADS_0")
    m = re.search(r"for\s+after\s+in\s+(\d+)\s*\.\.=\s*(\d+)\s*(?:u8)?\s*\{", inv)
    if not m or int(m.group(1)) != 0:
        raise ExtractError("INV_PADS_0: `for after in 0..=N u8` not found")
    after_max = int(m.group(2))
    m = re.search(r"let\s+offset\s*=\s*\(\s*after\s*%\s*(\d+)\s*\)\s*\*\s*(\d+)\s*;", inv)
    if not m:
        raise ExtractError("INV_PADS_0: `let offset = (after % A) * B;` not found")
    off_mod, off_mul = int(m.group(1)), int(m.group(2))
    m = re.search(r"for\s+channel\s+in\s+(\d+)\s*\.\.=\s*(\d+)\s*(?:u8)?\s*\{", inv)
    if not m:
        raise ExtractError("INV_PADS_0: `for channel in A..=B u8` not found")
    ch_lo, ch_hi = int(m.group(1)), int(m.group(2))
    mbody, _, _ = block_after(inv, r"\bmatch\s+channel\s*\{", "INV_PADS_0 match channel")
    pad_arms = []
    wild_seen = False
    for pat, rhs in split_arms(mbody, "match arms"):
        arm = f"{pat} => {rhs}"
        if pat == "_":
            if not re.fullmatch(r"unreachable!\s*\(\s*\)", rhs):
                raise ExtractError(f"INV_PADS_0: unexpected `_` arm `{rhs}`")
            wild_seen = True
            continue
        if wild_seen:
            raise ExtractError("INV_PADS_0: arm after `_`")
        mp = re.fullmatch(r"(\d+)\s*\.\.=\s*(\d+)", pat)
        mr = re.fullmatch(r"\{\s*col\s*=\s*(\d+)\s*;\s*row\s*=\s*([^;]+);\s*\}", rhs)
        if not mp or not mr:
            raise ExtractError(f"INV_PADS_0: unsupported arm `{arm}`")
        row = re.sub(r"\s+", "", mr.group(2))
        m1 = re.fullmatch(r"channel-(\d+)\+offset", row)
        m2 = re.fullmatch(r"(\d+)-channel\+offset", row)
        if m1:
            form = ("false", int(m1.group(1)))  # (channel - k) + offset
        elif m2:
            form = ("true", int(m2.group(1)))   # (k - channel) + offset
        else:
            raise ExtractError(f"INV_PADS_0: unsupported row expression `{mr.group(2)}`")
        pad_arms.append((int(mp.group(1)), int(mp.group(2)), int(mr.group(1)), form[0], form[1]))
    if not pad_arms or not wild_seen:
        raise ExtractError("INV_PADS_0: channel arms / `_ => unreachable!()` not found")
    m = re.search(r"if\s+after\s*>\s*(\d+)\s*\{\s*col\s*=\s*(\d+)\s*-\s*col\s*;\s*row\s*=\s*(\d+)\s*-\s*row\s*;\s*\}", inv)
    if not m:
        raise ExtractError("INV_PADS_0: `if after > A { col = B - col; row = C - row; }` not found")
    flip_after, flip_col, flip_row = int(m.group(1)), int(m.group(2)), int(m.group(3))
    if not re.search(r"PwbPadColumn\s*::\s*try_from\s*\(\s*usize\s*::\s*from\s*\(\s*col\s*\)\s*\)\s*\.\s*unwrap\s*\(\s*\)", inv) or \
            not re.search(r"PwbPadRow\s*::\s*try_from\s*\(\s*usize\s*::\s*from\s*\(\s*row\s*\)\s*\)\s*\.\s*unwrap\s*\(\s*\)", inv) or \
            not re.search(r"AfterId\s*::\s*try_from\s*\(\s*after\s*\)\s*\.\s*unwrap", inv) or \
            not re.search(r"PadChannelId\s*::\s*try_from\s*\(\s*u16\s*::\s*from\s*\(\s*channel\s*\)\s*\)\s*\.\s*unwrap", inv):
        raise ExtractError("INV_PADS_0: insert(..) has an unexpected shape")

    # ---- emit
    out = ex.HEADER.format(src="detector/src/alpha16/aw_map.rs, detector/src/padwing/map.rs, physics/src/matching.rs")
    out += "namespace AlphaG.Generated\n\n" + TYPES
    for lean, doc, v in consts:
        out += f"/-- `{doc}` -/\ndef {lean} : Nat := {v}\n"
    out += "\n/-- `PREAMPS_*` consts of aw_map.rs in source order: (const name, rows (board name, preamp_1, preamp_2)). -/\n"
    out += "def preampTables : List (String × List (String × Nat × Nat)) := [\n"
    out += ",\n".join(
        f"  ({lean_str(n)}, [" + ", ".join(f"({lean_str(b)}, {p}, {q})" for b, p, q in rows) + "])"
        for n, rows in preamp_tables) + "]\n\n"
    out += "/-- `INV_CHANNELS_*` consts of aw_map.rs in source order: (const name, entries). -/\n"
    out += "def channelTables : List (String × List Nat) := [\n"
    out += ",\n".join(f"  ({lean_str(n)}, [" + ", ".join(map(str, vals)) + "])" for n, vals in chan_tables) + "]\n\n"
    out += "/-- `PADWING_BOARDS_*` consts of padwing/map.rs in source order: (const name, table[column][row] = board name). -/\n"
    out += "def pwbTables : List (String × List (List String)) := [\n"
    out += ",\n".join(
        f"  ({lean_str(n)}, [\n" + ",\n".join("    [" + ", ".join(lean_str(x) for x in col) + "]" for col in t) + "])"
        for n, t in pwb_tables) + "]\n\n"
    out += lean_arms("wirePreampArms", "`let preamp_map = match run_number {…}` of `TpcWirePosition::try_new` "
                     "(`.table i` = `preampTables[i]`).", preamp_arms)
    out += lean_arms("wireChannelArms", "`let channel_map = match run_number {…}` of `TpcWirePosition::try_new` "
                     "(`.table i` = `channelTables[i]`).", chan_arms)
    out += lean_arms("pwbArms", "`match run_number {…}` of `TpcPwbPosition::try_new` (`.table i` = `pwbTables[i]`).",
                     pwb_arms)
    out += "/-! The `INV_PADS_0` construction of padwing/map.rs. -/\n"
    for lean, doc, v in [("padAfterMax", "for after in 0..=N", after_max), ("padOffsetMod", "offset = (after % A) * B: A", off_mod),
                         ("padOffsetMul", "offset = (after % A) * B: B", off_mul), ("padChannelLo", "for channel in A..=B: A", ch_lo),
                         ("padChannelHi", "for channel in A..=B: B", ch_hi), ("padFlipAfter", "if after > A", flip_after),
                         ("padFlipCol", "col = B - col", flip_col), ("padFlipRow", "row = C - row", flip_row)]:
        out += f"/-- `{doc}` -/\ndef {lean} : Nat := {v}\n"
    out += "/-- Arms of `match channel`: (lo, hi, col, k_minus_channel, k) for `lo..=hi => { col; row = channel - k + offset }`\n"
    out += "(`k_minus_channel = false`) or `row = k - channel + offset` (`true`); the final `_ => unreachable!()` is implied. -/\n"
    out += "def padArms : List (Nat × Nat × Nat × Bool × Nat) := [\n"
    out += ",\n".join(f"  ({a}, {b}, {c}, {d}, {e})" for a, b, c, d, e in pad_arms) + "]\n\n"
    out += "end AlphaG.Generated\n"
    return "Maps.lean", out


# ----------------------------------------------------------------------------- Names.lean
def try_from_str_body(s, ty, what):
    body, _, _ = block_after(s, r"\bimpl\s+TryFrom\s*<\s*&\s*str\s*>\s*for\s+" + re.escape(ty) + r"\s*\{", what)
    fbody, _, _ = block_after(body, r"\bfn\s+try_from\s*\(.*?\)\s*->\s*[^{]+\{", what + " try_from")
    return fbody


def gen_names():
    md = drop_tests(src_of("detector/src/midas.rs"))
    cb = drop_tests(src_of("detector/src/chronobox.rs"))
    items = []
    # Adc16 / Adc32: prefix char, length, radix
    for ty, lean in [("Adc16BankName", "adc16"), ("Adc32BankName", "adc32")]:
        b = try_from_str_body(md, ty, f"midas.rs {ty}")
        m = re.search(r"!\s*name\s*\.\s*starts_with\s*\(\s*'(.)'\s*\)\s*\|\|\s*name\s*\.\s*len\s*\(\s*\)\s*!=\s*(\d+)\s*"
                      r"\|\|\s*!\s*name\s*\.\s*chars\s*\(\s*\)\s*\.\s*all\s*\(\s*\|c\|\s*c\s*\.\s*is_ascii_alphanumeric\s*\(\s*\)\s*\)\s*"
                      r"\|\|\s*name\s*\.\s*chars\s*\(\s*\)\s*\.\s*any\s*\(\s*\|c\|\s*c\s*\.\s*is_ascii_lowercase\s*\(\s*\)\s*\)", b)
        if not m:
            raise ExtractError(f"midas.rs {ty}: screening condition has an unexpected shape")
        pre, ln = m.group(1), int(m.group(2))
        m2 = re.search(r"BoardId\s*::\s*try_from\s*\(\s*&\s*name\s*\[\s*(\d+)\s*\.\.\s*\]\s*\[\s*\.\.\s*(\d+)\s*\]\s*\)\s*\?", b)
        m3 = re.search(r"Adc(16|32)ChannelId\s*::\s*try_from\s*\(\s*u8\s*::\s*from_str_radix\s*\(\s*&\s*name\s*\[\s*(\d+)\s*\.\.\s*\]\s*,\s*(\d+)\s*\)\s*\?\s*\)\s*\.\s*unwrap\s*\(\s*\)", b)
        if not m2 or not m3 or b.find("BoardId") > b.find("from_str_radix"):
            raise ExtractError(f"midas.rs {ty}: board / channel parsing has an unexpected shape")
        if m3.group(1) != ty[3:5]:
            raise ExtractError(f"midas.rs {ty}: channel id type Adc{m3.group(1)}ChannelId")
        items += [(f"{lean}Prefix", "Char", f"'{pre}'", f"{ty}: starts_with"),
                  (f"{lean}Len", "Nat", ln, f"{ty}: name.len() != N"),
                  (f"{lean}BoardFrom", "Nat", int(m2.group(1)), f"{ty}: &name[A..][..B]: A"),
                  (f"{lean}BoardLen", "Nat", int(m2.group(2)), f"{ty}: &name[A..][..B]: B"),
                  (f"{lean}ChannelFrom", "Nat", int(m3.group(2)), f"{ty}: &name[A..]"),
                  (f"{lean}Radix", "Nat", int(m3.group(3)), f"{ty}: from_str_radix(.., R)")]
    # channel id bounds (alpha16.rs)
    a16 = drop_tests(src_of("detector/src/alpha16.rs"))
    for ty, lean in [("Adc16ChannelId", "adc16ChannelMax"), ("Adc32ChannelId", "adc32ChannelMax")]:
        body, _, _ = block_after(a16, r"\bimpl\s+TryFrom\s*<\s*u8\s*>\s*for\s+" + ty + r"\s*\{", f"alpha16.rs {ty}")
        m = re.search(r"if\s+num\s*>\s*(\d+)\s*\{\s*Err", body)
        if not m:
            raise ExtractError(f"alpha16.rs {ty}: `if num > N {{ Err` not found")
        items.append((lean, "Nat", int(m.group(1)), f"{ty}: num > N is an error"))
    # Padwing
    b = try_from_str_body(md, "PadwingBankName", "midas.rs PadwingBankName")
    m = re.search(r'!\s*name\s*\.\s*starts_with\s*\(\s*"([^"]*)"\s*\)\s*\|\|\s*name\s*\.\s*len\s*\(\s*\)\s*!=\s*(\d+)\s*'
                  r"\|\|\s*!\s*name\s*\[\s*(\d+)\s*\.\.\s*\]\s*\.\s*chars\s*\(\s*\)\s*\.\s*all\s*\(\s*\|c\|\s*c\s*\.\s*is_ascii_digit\s*\(\s*\)\s*\)", b)
    m2 = re.search(r"BoardId\s*::\s*try_from\s*\(\s*&\s*name\s*\[\s*(\d+)\s*\.\.\s*\]\s*\)\s*\?", b)
    if not m or not m2:
        raise ExtractError("midas.rs PadwingBankName: unexpected shape")
    items += [("padwingPrefix", "String", lean_str(m.group(1)), "PadwingBankName: starts_with"),
              ("padwingLen", "Nat", int(m.group(2)), "PadwingBankName: name.len() != N"),
              ("padwingDigitsFrom", "Nat", int(m.group(3)), "PadwingBankName: name[A..].chars().all(is_ascii_digit)"),
              ("padwingBoardFrom", "Nat", int(m2.group(1)), "PadwingBankName: &name[A..]")]
    # literal names
    for ty, lean in [("TriggerBankName", "triggerName"), ("Trb3BankName", "trb3Name"), ("Seq2BankName", "seq2Name"),
                     ("McVertexBankName", "mcVertexName")]:
        b = try_from_str_body(md, ty, f"midas.rs {ty}")
        m = re.fullmatch(r'\s*if\s+name\s*!=\s*"([^"\\]*)"\s*\{\s*return\s+Err\s*\(.*?\)\s*;\s*\}\s*Ok\s*\(\s*' + ty + r"\s*\)\s*", b, flags=re.S)
        if not m:
            raise ExtractError(f"midas.rs {ty}: unexpected shape")
        items.append((lean, "String", lean_str(m.group(1)), f'{ty}: name != "…"'))
    # chronobox bank names
    b = try_from_str_body(md, "ChronoboxBankName", "midas.rs ChronoboxBankName")
    mbody, _, _ = block_after(b, r"\bmatch\s+name\s*\{", "ChronoboxBankName match name")
    cb_arms = []
    wild = False
    for pat, rhs in split_arms(mbody, "match arms"):
        arm = f"{pat} => {rhs}"
        if pat == "_":
            if not re.match(r"(?:\{\s*)?(?:return\s+)?Err\s*\(", rhs):
                raise ExtractError("ChronoboxBankName: `_` arm is not an error")
            wild = True
            continue
        if wild:
            raise ExtractError("ChronoboxBankName: arm after `_`")
        mp = re.fullmatch(r'"([^"\\]*)"', pat)
        mr = re.fullmatch(r'Ok\s*\(\s*Self\s*\{\s*board_id\s*:\s*crate\s*::\s*chronobox\s*::\s*BoardId\s*::\s*try_from\s*\(\s*"([^"\\]*)"\s*\)\s*\.\s*unwrap\s*\(\s*\)\s*,?\s*\}\s*\)', rhs)
        if mp and not mr:
            # second accepted shape: the match only selects the board name (`"CBF1" => "cb01"`, early
            # return on `_`), and the BoardId is built once afterwards from the selected name
            mr = re.fullmatch(r'"([^"\\]*)"', rhs)
            if mr and not (re.search(r"\blet\s+(\w+)\s*=\s*match\s+name\s*\{", b)
                           and re.search(r"BoardId\s*::\s*try_from\s*\(\s*\w+\s*\)\s*\.\s*unwrap\s*\(\s*\)", b)
                           and re.search(r"Ok\s*\(\s*Self\s*\{\s*board_id\s*,?\s*\}\s*\)", b)):
                mr = None
        if not mp or not mr:
            raise ExtractError(f"ChronoboxBankName: unsupported arm `{arm}`")
        cb_arms.append((mp.group(1), mr.group(1)))
    if not cb_arms or not wild:
        raise ExtractError("ChronoboxBankName: arms not found")
    body = ex.const_body(cb, "CHRONOBOX_NAMES").strip()
    names = re.findall(r'"([^"\\]*)"', body)
    n = ex.declared_len(cb, "CHRONOBOX_NAMES")
    if len(names) != n or n == 0 or len(split_top(body[1:-1])) != n:
        raise ExtractError(f"CHRONOBOX_NAMES: declared {n}, parsed {len(names)}")
    cenv = usize_consts(cb)
    if "NUM_INPUT_CHANNELS" not in cenv:
        raise ExtractError("chronobox.rs NUM_INPUT_CHANNELS not found")
    nin = eval_usize(cenv["NUM_INPUT_CHANNELS"][0], [cenv], "NUM_INPUT_CHANNELS")
    # EventId
    body, _, _ = block_after(md, r"\bimpl\s+TryFrom\s*<\s*u16\s*>\s*for\s+EventId\s*\{", "midas.rs EventId")
    mbody, _, _ = block_after(body, r"\bmatch\s+num\s*\{", "EventId match num")
    ev = []
    wild = False
    for pat, rhs in split_arms(mbody, "match arms"):
        arm = f"{pat} => {rhs}"
        if pat == "_":
            if not re.match(r"Err\s*\(", rhs):
                raise ExtractError("EventId: `_` arm is not an error")
            wild = True
            continue
        if wild:
            raise ExtractError("EventId: arm after `_`")
        mr = re.fullmatch(r"Ok\s*\(\s*EventId\s*::\s*([A-Za-z0-9_]+)\s*\)", rhs)
        if not mr:
            raise ExtractError(f"EventId: unsupported arm `{arm}`")
        ev.append((int_lit(pat, "EventId"), mr.group(1)))
    if not ev or not wild:
        raise ExtractError("EventId: arms not found")
    # first-character dispatch of MainEventBankName / Alpha16BankName (ordered)
    def first_char_arms(ty, what):
        b = try_from_str_body(md, ty, what)
        mbody, _, _ = block_after(b, r"\bmatch\s+name\s*\.\s*chars\s*\(\s*\)\s*\.\s*next\s*\(\s*\)\s*\{", what + " match")
        arms = []
        wild = False
        for pat, rhs in split_arms(mbody, what):
            arm = f"{pat} => {rhs}"
            if pat == "_":
                if not re.match(r"Err\s*\(", rhs):
                    raise ExtractError(f"{what}: `_` arm is not an error")
                wild = True
                continue
            if wild:
                raise ExtractError(f"{what}: arm after `_`")
            mp = re.fullmatch(r"Some\s*\(\s*((?:'.'\s*\|\s*)*'.')\s*\)", pat)
            mr = re.fullmatch(r"Ok\s*\(\s*Self\s*::\s*([A-Za-z0-9_]+)\s*\(\s*([A-Za-z0-9_]+)\s*::\s*try_from\s*\(\s*name\s*\)\s*\?\s*\)\s*\)", rhs)
            if not mp or not mr:
                raise ExtractError(f"{what}: unsupported arm `{arm}`")
            chars = re.findall(r"'(.)'", mp.group(1))
            arms.append((chars, mr.group(2)))
        if not arms or not wild:
            raise ExtractError(f"{what}: arms not found")
        return arms
    main_arms = first_char_arms("MainEventBankName", "midas.rs MainEventBankName")
    a16_arms = first_char_arms("Alpha16BankName", "midas.rs Alpha16BankName")
    known = {"TriggerBankName", "Alpha16BankName", "PadwingBankName", "Trb3BankName", "McVertexBankName",
             "Adc16BankName", "Adc32BankName"}
    for arms in (main_arms, a16_arms):
        for _, t in arms:
            if t not in known:
                raise ExtractError(f"midas.rs: dispatch to unknown parser {t}")

    out = ex.HEADER.format(src="detector/src/midas.rs, detector/src/chronobox.rs, detector/src/alpha16.rs")
    out += "namespace AlphaG.Generated\n\n"
    for lean, ty, v, doc in items:
        out += f"/-- `{doc}` -/\ndef {lean} : {ty} := {v}\n"
    out += "\n/-- Arms of `ChronoboxBankName::try_from`: (bank name, board name passed to `BoardId::try_from(..).unwrap()`). -/\n"
    out += "def chronoboxBanks : List (String × String) := [" + ", ".join(f"({lean_str(a)}, {lean_str(b)})" for a, b in cb_arms) + "]\n"
    out += "/-- `CHRONOBOX_NAMES` -/\n"
    out += "def chronoboxNames : List String := [" + ", ".join(lean_str(x) for x in names) + "]\n"
    out += f"/-- `NUM_INPUT_CHANNELS` -/\ndef numInputChannels : Nat := {nin}\n"
    out += "/-- Arms of `EventId::try_from(u16)`. -/\n"
    out += "def eventIds : List (Nat × String) := [" + ", ".join(f"({n}, {lean_str(v)})" for n, v in ev) + "]\n"
    out += "/-- First-character dispatch of `MainEventBankName::try_from` in source order: (chars, sub-parser). -/\n"
    out += "def mainDispatch : List (List Char × String) := [" + ", ".join(
        "([" + ", ".join(f"'{c}'" for c in cs) + f"], {lean_str(t)})" for cs, t in main_arms) + "]\n"
    out += "/-- First-character dispatch of `Alpha16BankName::try_from` in source order. -/\n"
    out += "def alpha16Dispatch : List (List Char × String) := [" + ", ".join(
        "([" + ", ".join(f"'{c}'" for c in cs) + f"], {lean_str(t)})" for cs, t in a16_arms) + "]\n"
    out += "\nend AlphaG.Generated\n"
    return "Names.lean", out


# ----------------------------------------------------------------------------- CalArms.lean
CAL = [
    ("wireBaseline", "physics/src/calibration/wires/baseline.rs", "try_wire_baseline"),
    ("wireGain", "physics/src/calibration/wires/gain.rs", "try_wire_gain"),
    ("wireDelay", "physics/src/calibration/wires/delay.rs", "try_wire_delay"),
    ("padBaseline", "physics/src/calibration/pads/baseline.rs", "try_pad_baseline"),
    ("padGain", "physics/src/calibration/pads/gain.rs", "try_pad_gain"),
    ("padDelay", "physics/src/calibration/pads/delay.rs", "try_pad_delay"),
]


def gen_cal_arms():
    out = ex.HEADER.format(src="physics/src/calibration/{wires,pads}/{baseline,gain,delay}.rs")
    out += "import AlphaG.Generated.Maps\nnamespace AlphaG.Generated\n\n"
    for lean, rel, fn in CAL:
        s = drop_tests(src_of(rel))
        body = free_fn_body(s, fn, f"{rel} {fn}")
        ms = run_matches(body, fn)
        if len(ms) != 1 or count_matches(s) != 1:
            raise ExtractError(f"{rel}: expected exactly one `match run_number` (in {fn}), found {count_matches(s)}")
        lazy = lazy_refs(s)
        maps = list(lazy.keys())
        # data file of each static (includes! { NAME = "file", … })
        files = dict(re.findall(r'\b([A-Z_0-9]+)\s*=\s*"([^"]*)"\s*,', s))
        arms = resolve_arms(ms[0], maps, {}, f"{rel} {fn}")
        used = [r[1] for _, r in arms if r[0] == "table"]
        if lean.endswith("Delay"):
            if used:
                raise ExtractError(f"{rel}: delay dispatch refers to a map")
        else:
            if any(r[0] == "value" for _, r in arms):
                raise ExtractError(f"{rel}: literal value in a map dispatch")
        out += f"/-- lazy statics of {rel} in source order: (name, data file). -/\n"
        out += f"def {lean}Maps : List (String × String) := [" + ", ".join(
            f"({lean_str(n)}, {lean_str(files.get(lazy[n][1], '?'))})" for n in maps) + "]\n"
        out += lean_arms(f"{lean}Arms", f"`match run_number {{…}}` of `{fn}` ({rel}); `.table i` = `{lean}Maps[i]`.", arms)
    out += "/-- All six dispatches by the name used on the line protocol. -/\n"
    out += "def calArms : List (String × Arms × List (String × String)) := [\n"
    names = {"wireBaseline": "wire_baseline", "wireGain": "wire_gain", "wireDelay": "wire_delay",
             "padBaseline": "pad_baseline", "padGain": "pad_gain", "padDelay": "pad_delay"}
    out += ",\n".join(f"  ({lean_str(names[l])}, {l}Arms, {l}Maps)" for l, _, _ in CAL) + "]\n\n"
    out += "end AlphaG.Generated\n"
    return "CalArms.lean", out


GENERATORS = [gen_maps, gen_names, gen_cal_arms]
