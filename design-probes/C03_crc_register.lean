-- DESIGN PROBE (not framework code): C03's CRC-32C register lemmas over BitVec 32, core Lean only.
-- Proved: step_xor/run_xor (linearity), step_zero_inj/run_zero_inj, step_inj/run_inj, burst32. No sorry.
def POLY : BitVec 32 := 0x82F63B78#32

def step (s : BitVec 32) (b : Bool) : BitVec 32 :=
  (s >>> 1) ^^^ (if (s.getLsbD 0 != b) then POLY else 0#32)

def run (s : BitVec 32) : List Bool → BitVec 32
  | [] => s
  | b :: bs => run (step s b) bs

theorem xor_cancel {w : Nat} (a b p : BitVec w) : a ^^^ p ^^^ (b ^^^ p) = a ^^^ b := by
  ext i hi
  simp only [BitVec.getElem_xor]
  cases a[i] <;> cases b[i] <;> cases p[i] <;> rfl

theorem step_xor (s₁ s₂ : BitVec 32) (b₁ b₂ : Bool) :
    step (s₁ ^^^ s₂) (b₁ != b₂) = step s₁ b₁ ^^^ step s₂ b₂ := by
  unfold step
  rw [BitVec.ushiftRight_xor_distrib]
  simp only [BitVec.getLsbD_xor]
  cases s₁.getLsbD 0 <;> cases s₂.getLsbD 0 <;> cases b₁ <;> cases b₂ <;> simp <;>
    first | exact (xor_cancel _ _ _).symm | ac_rfl

theorem run_xor : ∀ (m₁ m₂ : List Bool) (s₁ s₂ : BitVec 32), m₁.length = m₂.length →
    run (s₁ ^^^ s₂) (List.zipWith (· != ·) m₁ m₂) = run s₁ m₁ ^^^ run s₂ m₂
  | [], [], _, _, _ => by simp [run]
  | b₁ :: m₁, b₂ :: m₂, s₁, s₂, h => by
    simp only [List.zipWith_cons_cons, run, step_xor]
    exact run_xor m₁ m₂ _ _ (by simpa using h)
  | [], _ :: _, _, _, h => by simp at h
  | _ :: _, [], _, _, h => by simp at h

theorem step_zero_inj (s : BitVec 32) (h : step s false = 0#32) : s = 0#32 := by
  unfold step at h
  cases hb : s.getLsbD 0
  · rw [hb] at h
    simp only [bne_self_eq_false, Bool.false_eq_true, if_false, BitVec.xor_zero] at h
    ext i hi
    by_cases hi0 : i = 0
    · subst hi0; simpa using hb
    · have := congrArg (fun v => v.getLsbD (i - 1)) h
      simp only [BitVec.getLsbD_ushiftRight, BitVec.getLsbD_zero] at this
      have h2 : 1 + (i - 1) = i := by omega
      rw [h2] at this
      rw [← BitVec.getLsbD_eq_getElem]; simpa using this
  · rw [hb] at h
    have := congrArg (fun v => v.getLsbD 31) h
    simp [POLY] at this

theorem run_zero_inj : ∀ (n : Nat) (s : BitVec 32), run s (List.replicate n false) = 0#32 → s = 0#32
  | 0, s, h => by simpa [run] using h
  | n + 1, s, h => by
    simp only [List.replicate_succ, run] at h
    exact step_zero_inj s (run_zero_inj n _ h)

def parity (s : BitVec 32) : Bool := (List.range 32).foldl (fun acc i => acc != s.getLsbD i) false
#print axioms run_xor
#print axioms run_zero_inj

theorem step_inj (s s' : BitVec 32) (b : Bool) (h : step s b = step s' b) : s = s' := by
  have h1 := step_xor s s' b b
  rw [h, BitVec.xor_self] at h1
  simp only [bne_self_eq_false] at h1
  have := step_zero_inj _ h1
  have h2 : s ^^^ s' ^^^ s' = 0#32 ^^^ s' := by rw [this]
  rw [BitVec.xor_assoc, BitVec.xor_self, BitVec.xor_zero, BitVec.zero_xor] at h2
  exact h2

theorem run_inj : ∀ (m : List Bool) (s s' : BitVec 32), run s m = run s' m → s = s'
  | [], _, _, h => h
  | b :: m, s, s', h => step_inj s s' b (run_inj m _ _ h)

def ofBitsLE : List Bool → BitVec 32
  | [] => 0#32
  | b :: bs => (ofBitsLE bs <<< 1) ||| (if b then 1#32 else 0#32)

theorem ofBitsLE_high : ∀ (bs : List Bool) (i : Nat), bs.length ≤ i → (ofBitsLE bs).getLsbD i = false
  | [], i, _ => by simp [ofBitsLE]
  | b :: bs, i, h => by
    simp only [List.length_cons] at h
    simp only [ofBitsLE, BitVec.getLsbD_or, BitVec.getLsbD_shiftLeft]
    have : i ≠ 0 := by omega
    rw [ofBitsLE_high bs (i - 1) (by omega)]
    cases b <;> simp [this]

theorem step_ofBitsLE (b : Bool) (bs : List Bool) (h : bs.length ≤ 31) :
    step (ofBitsLE (b :: bs)) b = ofBitsLE bs := by
  have hlsb : (ofBitsLE (b :: bs)).getLsbD 0 = b := by
    simp [ofBitsLE, BitVec.getLsbD_or, BitVec.getLsbD_shiftLeft]; cases b <;> simp
  unfold step
  rw [hlsb]
  simp only [bne_self_eq_false, Bool.false_eq_true, if_false, BitVec.xor_zero]
  ext i hi
  simp only [ofBitsLE, ← BitVec.getLsbD_eq_getElem, BitVec.getLsbD_ushiftRight, BitVec.getLsbD_or, BitVec.getLsbD_shiftLeft]
  by_cases h31 : i = 31
  · subst h31
    have := ofBitsLE_high bs 31 h
    rw [BitVec.getLsbD_eq_getElem (by omega)] at this
    simp [this]
  · have : 1 + i < 32 := by omega
    cases b <;> simp [this] <;> omega

theorem run_ofBitsLE : ∀ (bs : List Bool), bs.length ≤ 32 → run (ofBitsLE bs) bs = 0#32
  | [], _ => by simp [run, ofBitsLE]
  | b :: bs, h => by
    simp only [List.length_cons] at h
    rw [run, step_ofBitsLE b bs (by omega)]
    exact run_ofBitsLE bs (by omega)

/-- a block of at most 32 bits that drives the register from 0 back to 0 is all zero -/
theorem burst32 (bs : List Bool) (h : bs.length ≤ 32) (h0 : run 0#32 bs = 0#32) : ofBitsLE bs = 0#32 :=
  (run_inj bs _ _ (h0.trans (run_ofBitsLE bs h).symm)).symm
#print axioms burst32
