-- DESIGN PROBE (not framework code): C17's fast = naive sweep for an arbitrary carrier with no laws.
-- Checked with `lean C17_fast_eq_naive.lean`; no sorry; axioms: propext, Classical.choice, Quot.sound.
structure Ops (α : Type) where
  nonneg : α → Bool
  div : α → α → α
  min : α → α → α
  sub : α → α → α
  mul : α → α → α
  zero : α

variable {α : Type} (o : Ops α)

def window (res : List α) (i off la : Nat) : List α := (res.drop (i + off)).take la

def applyAt (res resp : List α) (i : Nat) (val : α) : List α :=
  res.mapIdx fun j s => if i ≤ j then (match resp[j - i]? with | some r => o.sub s (o.mul val r) | none => s) else s

def stepVal (w rw : List α) : α :=
  match List.zipWith o.div w rw with
  | [] => o.zero
  | x :: xs => xs.foldl o.min x

/-- index of the last non-negative element -/
def lastNonneg (w : List α) : Option Nat :=
  match w.reverse.findIdx? o.nonneg with
  | some k => some (w.length - 1 - k)
  | none => none

structure St (α : Type) where
  i : Nat
  res : List α
  inp : List α

def naiveStep (resp : List α) (off la : Nat) (s : St α) : St α :=
  let w := window s.res s.i off la
  if w.any o.nonneg then { s with i := s.i + 1 }
  else
    let val := stepVal o w ((resp.drop off).take la)
    { i := s.i + 1, res := applyAt o s.res resp s.i val, inp := s.inp.set s.i val }

def fastStep (resp : List α) (off la : Nat) (s : St α) : St α :=
  let w := window s.res s.i off la
  match lastNonneg o w with
  | some k => { s with i := s.i + k + 1 }
  | none =>
    let val := stepVal o w ((resp.drop off).take la)
    { i := s.i + 1, res := applyAt o s.res resp s.i val, inp := s.inp.set s.i val }

def run (step : St α → St α) (off la : Nat) : Nat → St α → St α
  | 0, s => s
  | fuel + 1, s => if s.i + off + la ≤ s.res.length then run step off la fuel (step s) else s

theorem lastNonneg_none_iff (w : List α) : lastNonneg o w = none ↔ w.any o.nonneg = false := by
  unfold lastNonneg
  cases h : w.reverse.findIdx? o.nonneg with
  | none => simp [List.findIdx?_eq_none_iff] at h ⊢; exact h
  | some k =>
    simp
    have := List.findIdx?_eq_some_iff_getElem.mp h
    obtain ⟨hk, hp, _⟩ := this
    refine ⟨w.reverse[k], ?_, hp⟩
    exact List.mem_reverse.mp (List.getElem_mem hk)

theorem applyAt_length (res resp : List α) (i : Nat) (v : α) : (applyAt o res resp i v).length = res.length := by
  simp [applyAt]

def naive (resp : List α) (off la : Nat) (i : Nat) (res inp : List α) : List α × List α :=
  if h : i + off + la ≤ res.length then
    let w := window res i off la
    if w.any o.nonneg then naive resp off la (i + 1) res inp
    else
      let val := stepVal o w ((resp.drop off).take la)
      naive resp off la (i + 1) (applyAt o res resp i val) (inp.set i val)
  else (res, inp)
termination_by res.length + 1 - i
decreasing_by all_goals (first | omega | (simp only [applyAt_length]; omega))

def fast (resp : List α) (off la : Nat) (i : Nat) (res inp : List α) : List α × List α :=
  if h : i + off + la ≤ res.length then
    let w := window res i off la
    match lastNonneg o w with
    | some k => fast resp off la (i + k + 1) res inp
    | none =>
      let val := stepVal o w ((resp.drop off).take la)
      fast resp off la (i + 1) (applyAt o res resp i val) (inp.set i val)
  else (res, inp)
termination_by res.length + 1 - i
decreasing_by all_goals (first | omega | (simp only [applyAt_length]; omega))

theorem lastNonneg_some (w : List α) (k : Nat) (h : lastNonneg o w = some k) :
    ∃ hk : k < w.length, o.nonneg w[k] = true := by
  unfold lastNonneg at h
  cases h' : w.reverse.findIdx? o.nonneg with
  | none => simp [h'] at h
  | some j =>
    simp [h'] at h
    obtain ⟨hj, hp, _⟩ := List.findIdx?_eq_some_iff_getElem.mp h'
    simp at hj
    subst h
    refine ⟨by omega, ?_⟩
    rw [List.getElem_reverse] at hp
    exact hp

/-- while a non-negative sample sits at absolute position `p` inside the window, naive does nothing -/
theorem naive_skip (resp : List α) (off la : Nat) (res inp : List α) (p : Nat) (hp : p < res.length)
    (hn : o.nonneg res[p] = true) :
    ∀ d i, i + off ≤ p → p < i + off + la → p + 1 = i + off + d →
      naive o resp off la i res inp = naive o resp off la (i + d) res inp := by
  intro d
  induction d with
  | zero => intros; rfl
  | succ d ih =>
    intro i h1 h2 h3
    rw [naive.eq_1 o resp off la i]
    split
    · rename_i hb
      have hany : (window res i off la).any o.nonneg = true := by
        simp only [window, List.any_eq_true]
        refine ⟨res[p], ?_, hn⟩
        rw [List.mem_iff_getElem]
        refine ⟨p - (i + off), by simp; omega, ?_⟩
        simp [List.getElem_take, List.getElem_drop]
        congr 1; omega
      simp only [hany, if_true]
      by_cases hd : d = 0
      · subst hd; rfl
      · rw [ih (i + 1) (by omega) (by omega) (by omega)]
        congr 1; omega
    · rename_i hb
      rw [naive.eq_1 o resp off la (i + (d + 1))]
      simp only [dif_neg (show ¬ (i + (d + 1) + off + la ≤ res.length) by omega)]

theorem fast_eq_naive (resp : List α) (off la : Nat) (i : Nat) (res inp : List α) :
    fast o resp off la i res inp = naive o resp off la i res inp := by
  fun_induction fast o resp off la i res inp with
  | case1 i res inp hb w k hk ih =>
    rw [ih]
    obtain ⟨hkl, hnn⟩ := lastNonneg_some o w k hk
    have hwl : w.length = la := by simp [w, window]; omega
    have hp : i + off + k < res.length := by omega
    have : o.nonneg res[i + off + k] = true := by
      have : w[k] = res[i + off + k] := by simp [w, window, List.getElem_take, List.getElem_drop]
      rw [← this]; exact hnn
    have := naive_skip o resp off la res inp (i + off + k) hp this (k + 1) i (by omega) (by omega) (by omega)
    rw [this, Nat.add_assoc]
  | case2 i res inp hb w hnone val ih =>
    rw [ih]
    conv => rhs; rw [naive.eq_1]
    have hany : w.any o.nonneg = false := (lastNonneg_none_iff o w).mp hnone
    simp only [dif_pos hb]
    simp only [w] at hany
    simp [hany, val, w]
  | case3 i res inp hb =>
    rw [naive.eq_1]; simp [hb]
#print axioms fast_eq_naive
