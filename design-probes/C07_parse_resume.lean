-- DESIGN PROBE (not framework code): feasibility of C07's resume theorem.
-- Checked with `lean C07_parse_resume.lean`; no sorry; axioms: propext, Quot.sound.
inductive Entry where
  | ts (ch : UInt8) (edge : Bool) (t : Nat)
  | marker (top : Bool) (c : Nat)
deriving Repr, DecidableEq

def classify (b0 b1 b2 b3 : UInt8) : Option Entry :=
  let t := b0.toNat + 256 * b1.toNat + 65536 * b2.toNat
  if b3 &&& 0x80 = 0x80 ∧ (b3 &&& 0x7F) < 59 then
    some (.ts (b3 &&& 0x7F) (t &&& 1 == 1) (t &&& 0xFFFFFE))
  else if b3 = 0xFF then
    some (.marker (t &&& 0x800000 == 0x800000) (t &&& 0x7FFFFF))
  else none

def entries : List UInt8 → List Entry × List UInt8
  | b0 :: b1 :: b2 :: b3 :: rest =>
    match classify b0 b1 b2 b3 with
    | some e => (e :: (entries rest).1, (entries rest).2)
    | none => ([], b0 :: b1 :: b2 :: b3 :: rest)
  | l => ([], l)

theorem entries_rem_le (l : List UInt8) : (entries l).2.length ≤ l.length := by
  fun_induction entries l <;> simp_all <;> omega

def block? (l : List UInt8) : Option (List UInt8) :=
  match l with
  | 0x3C :: 0x00 :: 0x00 :: 0xFE :: rest => if 240 ≤ rest.length then some (rest.drop 240) else none
  | _ => none

theorem block?_lt {l r : List UInt8} (h : block? l = some r) : r.length < l.length := by
  unfold block? at h
  split at h
  · split at h
    · injection h with h; subst h; simp; omega
    · contradiction
  · contradiction

def parse (l : List UInt8) : List Entry × List UInt8 :=
  match h : block? (entries l).2 with
  | some r' => ((entries l).1 ++ (parse r').1, (parse r').2)
  | none => entries l
termination_by l.length
decreasing_by
  have := entries_rem_le l
  have := block?_lt h
  omega


theorem classify_tag : classify 0x3C 0x00 0x00 0xFE = none := by decide

theorem entries_append (a b : List UInt8) :
    entries (a ++ b) = ((entries a).1 ++ (entries ((entries a).2 ++ b)).1, (entries ((entries a).2 ++ b)).2) := by
  fun_induction entries a with
  | case1 b0 b1 b2 b3 rest e h ih => simp [entries, h, ih]
  | case2 b0 b1 b2 b3 rest h => simp [entries, h]
  | case3 l h => simp

theorem entries_of_block {l r : List UInt8} (h : block? l = some r) (b : List UInt8) :
    entries (l ++ b) = ([], l ++ b) ∧ block? (l ++ b) = some (r ++ b) := by
  unfold block? at h
  split at h
  · rename_i rest
    split at h
    · injection h with h; subst h
      constructor
      · simp [entries, classify_tag]
      · simp [block?]; constructor
        · omega
        · rw [List.drop_append_of_le_length (by omega)]
    · contradiction
  · contradiction


theorem parse_of_block {l r' : List UInt8} (h : block? (entries l).2 = some r') :
    parse l = ((entries l).1 ++ (parse r').1, (parse r').2) := by
  rw [parse.eq_1 l]; split
  · rename_i r'' h'; rw [h] at h'; injection h' with h'; subst h'; rfl
  · rename_i h'; rw [h] at h'; contradiction

theorem parse_of_noblock {l : List UInt8} (h : block? (entries l).2 = none) :
    parse l = entries l := by
  rw [parse.eq_1 l]; split
  · rename_i r'' h'; rw [h] at h'; contradiction
  · rfl

theorem parse_resume (a b : List UInt8) :
    parse (a ++ b) = ((parse a).1 ++ (parse ((parse a).2 ++ b)).1, (parse ((parse a).2 ++ b)).2) := by
  fun_induction parse a with
  | case1 l r' h ih =>
    have ⟨h1, h2⟩ := entries_of_block h b
    have e := entries_append l b
    rw [h1] at e
    have hb : block? (entries (l ++ b)).2 = some (r' ++ b) := by rw [e]; exact h2
    rw [parse_of_block hb, e, ih]
    simp [List.append_assoc]
  | case2 l h =>
    have e := entries_append l b
    -- parse (l ++ b) and parse ((entries l).2 ++ b) share their continuation
    cases hb : block? (entries ((entries l).2 ++ b)).2 with
    | none =>
      have hb' : block? (entries (l ++ b)).2 = none := by rw [e]; exact hb
      rw [parse_of_noblock hb', parse_of_noblock hb, e]
    | some r'' =>
      have hb' : block? (entries (l ++ b)).2 = some r'' := by rw [e]; exact hb
      rw [parse_of_block hb', parse_of_block hb, e]
      simp [List.append_assoc]

#print axioms parse_resume
