#!/usr/bin/env python3
"""Re-run checks against a stored seed (after a harness was strengthened) and update its meta.json:
the original result is kept under `first_evaluation`.  Usage: tools_seed_recheck.py <ID> <check ids...>"""
import json, subprocess, sys
sid = sys.argv[1]; checks = sys.argv[2:]
mp = f"/verif/seeded/{sid}/meta.json"
m = json.load(open(mp))
if "first_evaluation" not in m:
    m["first_evaluation"] = m.get("checks_run", {})
cr = dict(m.get("checks_run", {}))
for c in checks:
    p = subprocess.run(f"/verif/tools_seed_eval.sh /verif/seeded/{sid}/patch.diff {c}", shell=True, stdout=subprocess.PIPE, stderr=subprocess.STDOUT, text=True)
    lines = [l for l in p.stdout.splitlines() if "VIOLATION" in l or "problem [" in l]
    v = [l for l in lines if "VIOLATION" in l]
    cr[c] = {"violation": bool(v), "no_failing_input_found": any("no-failing-input-found" in l for l in v),
             "first_problems": [l[:300] for l in lines if "problem [" in l][:3], "rechecked_after_strengthening": True}
    print(sid, c, "VIOLATION" if v else "not detected")
m["checks_run"] = cr
m["detected_by"] = [c for c, r in cr.items() if r["violation"]]
json.dump(m, open(mp, "w"), indent=1)
