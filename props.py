"""Per-property configuration of ./check (which Lean modules, which harness modules/profiles)."""

TRUSTED_BASE = [
    "Lean 4.33 kernel; axioms allowed: propext, Classical.choice, Quot.sound (no native_decide, no bv_decide, no sorry, no own axioms)",
    "hand-written Lean model of the Rust code, tied to /repo's working tree by the correspondence harness (differential, sampled; generators listed under coverage.correspondence)",
    "translator/extract.py for generated tables (cross-checked by exhaustive queries of the real lookup functions)",
    "rustc/cargo building /repo with --cfg alpha_g_verif; the Lean compiler for the model driver",
]

PROPS = {
    "C06": dict(
        lean_modules=["AlphaG.Props.C06"],
        required_theorems=["AlphaG.Trg.trg_accept_iff", "AlphaG.Trg.trg_fields", "AlphaG.Trg.trg_ordering",
                           "AlphaG.Trg.trg_roundtrip", "AlphaG.Trg.trg_total", "AlphaG.Trg.trg_len"],
        harness=[("c06", ["dev"])],
        rule="generators: valid builder, per-word boundary substitution, all 640 single-bit flips, all 81 "
             "orderings/ties of the four counters, header/footer/output agreement matrix, lengths 0..=160, random; "
             "a case is distinct by its request line; all are non-trivial (each exercises the real decoder and the model)",
        assumptions=["the model's decode/encode are compared with TrgPacket::try_from and an independent "
                     "re-encoder of the accessors on every generated case; error variants are compared too"],
    ),
}
