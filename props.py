"""Per-property configuration of ./check (which Lean modules, which harness modules/profiles)."""

TRUSTED_BASE = [
    "Lean 4.33 kernel; axioms allowed: propext, Classical.choice, Quot.sound (no native_decide, no bv_decide, no sorry, no own axioms)",
    "hand-written Lean model of the Rust code, tied to /repo's working tree by the correspondence harness (differential, sampled; generators listed under coverage.correspondence)",
    "translator/extract.py for generated tables (cross-checked by exhaustive queries of the real lookup functions)",
    "rustc/cargo building /repo with --cfg alpha_g_verif; the Lean compiler for the model driver",
]

PROPS = {
    "C06": dict(
        lean_modules=["AlphaG.Props.C06"],
        required_theorems=["AlphaG.Trg.trg_accept_iff", "AlphaG.Trg.trg_fields", "AlphaG.Trg.trg_ordering",
                           "AlphaG.Trg.trg_roundtrip", "AlphaG.Trg.trg_total", "AlphaG.Trg.trg_len"],
        harness=[("c06", ["dev"])],
        level_text="Lean theorems over all byte strings: accept iff documented layout (trg_accept_iff), every accessor "
                   "equals its little-endian field (trg_fields), counter ordering, exact 80-byte round trip, totality; the "
                   "model is tied to the Rust decoder by a differential run on every check.",
        level_note="Trusted: Lean kernel + {propext, Classical.choice, Quot.sound}; the hand-written model of "
                   "TrgV3Packet::try_from is validated against the real decoder by sampling (boundary words, all 640 bit "
                   "flips, counter orderings, lengths), not proved equal to it.",
        technique="Lean 4 theorems over a hand-written model + differential correspondence check",
        design_ref="DESIGN.md section 6, C06",
        rule="generators: valid builder, per-word boundary substitution, all 640 single-bit flips, all 81 "
             "orderings/ties of the four counters, header/footer/output agreement matrix, lengths 0..=160, random; "
             "a case is distinct by its request line; all are non-trivial (each exercises the real decoder and the model)",
        assumptions=["the model's decode/encode are compared with TrgPacket::try_from and an independent "
                     "re-encoder of the accessors on every generated case; error variants are compared too"],
    ),
    "C19": dict(
        lean_modules=["AlphaG.Props.C19"],
        required_theorems=["AlphaG.Csv.rows_one_per_main", "AlphaG.Csv.undecodable_row_empty",
                           "AlphaG.Csv.other_events_no_row", "AlphaG.Csv.time_diff",
                           "AlphaG.Csv.arg_order_irrelevant", "AlphaG.Csv.refused_mixed_runs",
                           "AlphaG.Csv.refused_duplicate_t0", "AlphaG.Csv.refused_unknown_extension"],
        harness=[("c19", ["dev"])],
        level_text="Lean theorems on the row logic for runs of any size: one row per main event in order with its serial "
                   "(rows_one_per_main), empty time exactly for undecodable events, counts of decodable events differ by the "
                   "sum of 32-bit-wrapped timestamp differences (time_diff), argument order irrelevant, refusals. The real "
                   "binaries are run on generated MIDAS files on every check and their CSVs compared with the model and "
                   "with an independent oracle (incl. byte-identical output across thread counts).",
        level_note="Partial: the theorems are about the model of sort_run_files and of the scan; that the binaries "
                   "implement it (file reading, midasio, rayon ordering, csv formatting) is established by end-to-end "
                   "differential runs, not proved. Schedules are sampled (RAYON_NUM_THREADS in {1,2,5,16}).",
        technique="Lean 4 theorems over a hand-written model + end-to-end differential check of the real binaries",
        design_ref="DESIGN.md section 6, C19",
        needs_binaries=True,
        disagreement_is_failing_input=False,
        rule="each case is one generated run (1..4 MIDAS files, .mid/.mid.lz4, 0..60 events each, main/chronobox/"
             "sequencer/other ids interleaved, TRG timestamps crossing 2^32, undecodable events of 7 kinds) pushed "
             "through the real alpha-g-vertices (thread counts 1,2,5,16, permuted arguments) and alpha-g-trg-scalers, "
             "plus refusal runs (mixed run numbers, duplicate initial timestamp, unknown extension); distinct by request line",
        assumptions=["midasio, lz4, csv, clap and rayon are trusted (exercised, not modelled)",
                     "the MIDAS writer of the harness follows midasio 0.5.3's reader",
                     "vertex columns are compared with MainEvent::vertex() called in-process on the same banks"],
        trusted_extra=["the real binaries are run as processes; their CSVs are parsed by the harness"],
    ),
    "C20": dict(
        lean_modules=["AlphaG.Props.C20"],
        required_theorems=["AlphaG.Csv.cbtime_correct", "AlphaG.Csv.cbtime_wrong_side_late",
                           "AlphaG.Csv.cbtime_wrong_side_early", "AlphaG.Csv.cbtime_none_iff",
                           "AlphaG.Csv.never_wrong", "AlphaG.Csv.rows_complete",
                           "AlphaG.Csv.fails_closed_remainder", "AlphaG.Csv.fails_closed_no_epoch0",
                           "AlphaG.Csv.fails_closed_first_marker", "AlphaG.Csv.boardRows_total"],
        harness=[("c20", ["dev"])],
        level_text="Lean theorems against an independent hardware model, for any tick and any marker counter: an edge in its "
                   "own marker interval gets its true time (cbtime_correct), displaced edges get none, never a wrong time "
                   "whatever two hardware markers enclose it (never_wrong), exact characterisation of empty times, one row per "
                   "timestamp after the counter-0 marker (rows_complete), fails closed, no panic. The real binary is run on "
                   "hardware-model streams with every cut pattern and single fault on every check.",
        level_note="Partial: the theorems are about the model of chronobox_time and of the row loop; the binary is tied by "
                   "end-to-end differential runs (sampled), not proved. FIFO parsing itself is C07. Repaired defect F3 "
                   "(last timestamp dropped) is reported again if it returns.",
        technique="Lean 4 theorems over a hand-written model + end-to-end differential check of the real binary",
        design_ref="DESIGN.md section 6, C20",
        needs_binaries=True,
        disagreement_is_failing_input=False,
        rule="each case is one board of one generated run: hardware-model FIFO streams (0..8 wraps, 1..4 boards, "
             "edges within 3 ticks of markers and displaced across them, scaler blocks whose payload imitates words) cut "
             "at arbitrary byte positions into CBFn banks / events / files, plus single faults (dropped marker, duplicated "
             "marker, truncated tail, corrupted word, missing counter-0 marker, first marker top bit, incomplete scalers "
             "block), run through the real alpha-g-chronobox-timestamps; distinct by request line",
        assumptions=["hardware model as stated in the property text and in Props/C20.lean's header",
                     "midasio, lz4, csv, clap are trusted (exercised, not modelled)"],
        trusted_extra=["the real binary is run as a process; its CSV is parsed by the harness"],
    ),
    "C07": dict(
        lean_modules=["AlphaG.Props.C07"],
        required_theorems=["AlphaG.Chronobox." + t for t in [
            "parse_sound_complete", "classify_spec", "parse_fields", "block_not_word",
            "isParse_unique", "parse_rest_suffix", "parse_resume", "feedAll_eq_whole",
            "parse_progress", "parse_total", "channelId_total", "channelId_ok_iff",
            "boardId_total", "boardId_ok_iff"]],
        harness=[("c07", ["dev", "release"])],
        level_text="Lean theorems for all byte streams and all ways of cutting them: the parser consumes exactly the longest "
                   "prefix of the documented grammar (parse_sound_complete, with an unambiguity proof), classifies all 2^32 "
                   "words as specified by case analysis on the top byte (classify_spec), returns the documented fields, leaves "
                   "a literal suffix as remainder, and feeding any list of pieces through the resume protocol equals parsing "
                   "the concatenation (feedAll_eq_whole); progress and totality included.",
        level_note="Trusted: winnow 0.6.1 combinator semantics, transcribed by hand as a second 'Raw' model layer that is "
                   "proved equal to the direct recursive model (parse_total) and tied to the real chronobox_fifo by the "
                   "differential run (all 2- and 3-cuts of short streams, random k-cuts of long ones, top-byte sweep).",
        technique="Lean 4 theorems over a two-layer hand-written model (winnow combinator transcription = direct recursion) "
                  "+ independent grammar + differential correspondence check",
        design_ref="DESIGN.md section 6, C07",
        rule="generators: top byte 0..=255 x boundary/random low bytes, single-bit flips of words and tag, hardware-like "
             "streams with tricky block payloads, word soups with tuned invalid share, every truncation inside a block, block "
             "followers, all 2-cuts of streams <= 600 B, all 3-cuts of short streams, random k-cuts (incl. empty pieces) of "
             "streams up to ~170 kB, byte-by-byte feed, every u8 channel, board names; distinct by request line",
        assumptions=["winnow 0.6.1 combinator semantics are transcribed by hand (Raw layer) and tied by the differential run",
                     "CHRONOBOX_NAMES is hand-copied into the model (4 strings; checked by the board-id generator)"],
    ),
    "C18": dict(
        lean_modules=["AlphaG.Props.C18", "AlphaG.Generated.DriftTablesOk"],
        required_theorems=["AlphaG.Drift." + t for t in [
            "lookup_ok_iff", "lookup_err_z", "lookup_err_t", "lookup_total", "bracket_ok", "radius_in_range",
            "radius_antitone", "lookup_even", "lookup_even_generic", "knot_exact", "lorentz_range", "phi_eq",
            "phi_eq_generic", "lipschitz", "step_bound_of_table", "step_bound_of_intervals",
            "generated_tables_ok", "step_bound_partial", "step_exceptions_known"]],
        harness=[("c18", ["dev", "release"])],
        level_text="Lean theorems for every table satisfying TablesOk over any linear ordered field (ok iff in range with the "
                   "right error kind, no panic, radius within the tabulated extremes, antitone in t, even in z — also "
                   "carrier-generic, i.e. bit-for-bit in f64 — exact at knots, Lorentz range, phi = phi - corr, Lipschitz/step "
                   "bounds), and TablesOk of the 92 shipped slices proved by kernel decision on the exact dyadic values of the "
                   "f64 bit patterns dumped from the built code on every run. Bit-exact differential check against "
                   "SpacePoint::try_from at every knot and bound +-1 ulp.",
        level_note="Partial: theorems are in exact arithmetic; f64 rounding of the interpolation (one multiplication, one "
                   "division, two additions) is covered by the bit-exact differential run and the oracle, not by a theorem. "
                   "The 8 ns / 0.5 mm clause is false for the shipped data in 135 listed knot intervals (known finding F5); "
                   "step_bound_partial proves it outside the generated exception list and step_exceptions_known pins that "
                   "list to the committed one.",
        technique="carrier-generic Lean model; ordered-field theorems; kernel decision (decide +kernel) on generated f64 "
                  "dyadic tables; bit-exact differential correspondence check",
        design_ref="DESIGN.md section 6, C18",
        rule="generators: every slice bound +-1 ulp (both signs), every knot time +-1 ulp (stratified in quick, all 92 tables "
             "x 4 z in thorough), random and ascending runs, NaN/inf/zero/subnormal inputs, space points with random phi, "
             "8 ns steps over all 48 284 knot intervals; distinct by request line",
        assumptions=["Float.ofBits (driver) and the exact dyadic value (theorems) read the same generated bit patterns",
                     "uom quantities are the identity on SI base values"],
        findings_notes=["step_over_known"],
    ),
}
