"""Per-property configuration of ./check (which Lean modules, which harness modules/profiles)."""

TRUSTED_BASE = [
    "Lean 4.33 kernel; axioms allowed: propext, Classical.choice, Quot.sound (no native_decide, no bv_decide, no sorry, no own axioms)",
    "hand-written Lean model of the Rust code, tied to /repo's working tree by the correspondence harness (differential, sampled; generators listed under coverage.correspondence)",
    "translator/extract.py for generated tables (cross-checked by exhaustive queries of the real lookup functions)",
    "rustc/cargo building /repo with --cfg alpha_g_verif; the Lean compiler for the model driver",
    "driver only (no theorem mentions them): Lean's Float (IEEE binary64 via the C runtime), the C library's sin/cos/atan2/log/sqrt, "
    "and hypot bound with @[extern \"hypot\"] in Driver/C14b.lean — the same libm functions Rust's f64 methods call on this machine",
    "a generated module whose source the translator can no longer parse stays at its last extracted version and is then tied by the "
    "correspondence run only (reported under coverage.translator_notes)",
]

RUN_HISTORY = ["wire_gain", "wire_baseline", "wire_delay", "pad_baseline", "pad_gain", "pad_delay", "wire_preamp",
               "wire_channel", "pwb_layout"]

PROPS = {
    "C06": dict(
        lean_modules=["AlphaG.Props.C06", "AlphaG.Props.C06Converse"],
        required_theorems=["AlphaG.Trg.trg_accept_iff", "AlphaG.Trg.trg_fields", "AlphaG.Trg.trg_ordering",
                           "AlphaG.Trg.trg_roundtrip", "AlphaG.Trg.trg_total", "AlphaG.Trg.trg_len",
                           "AlphaG.Trg.trg_encode_decode", "AlphaG.Trg.trg_decode_injective",
                           "AlphaG.Trg.trg_decoded_wf"],
        harness=[("c06", ["dev"])],
        level_text="Lean theorems over all byte strings: accept iff documented layout (trg_accept_iff), every accessor "
                   "equals its little-endian field (trg_fields), counter ordering, exact 80-byte round trip, totality, and the "
                   "converse round trip decode (encode p) = ok p for every in-width ordered field tuple "
                   "(trg_encode_decode; accepted slices and well-formed packets are in bijection); the "
                   "model is tied to the Rust decoder by a differential run on every check.",
        level_note="Trusted: Lean kernel + {propext, Classical.choice, Quot.sound}; the hand-written model of "
                   "TrgV3Packet::try_from is validated against the real decoder by sampling (boundary words, all 640 bit "
                   "flips, counter orderings, lengths), not proved equal to it.",
        technique="Lean 4 theorems over a hand-written model + differential correspondence check",
        design_ref="DESIGN.md section 6, C06",
        rule="generators: valid builder, per-word boundary substitution, all 640 single-bit flips, all 81 "
             "orderings/ties of the four counters, header/footer/output agreement matrix, lengths 0..=160, random; "
             "a case is distinct by its request line; all are non-trivial (each exercises the real decoder and the model)",
        assumptions=["the model's decode/encode are compared with TrgPacket::try_from and an independent "
                     "re-encoder of the accessors on every generated case; error variants are compared too"],
    ),
    "C19": dict(
        lean_modules=["AlphaG.Props.C19"],
        required_theorems=["AlphaG.Csv.rows_one_per_main", "AlphaG.Csv.undecodable_row_empty",
                           "AlphaG.Csv.other_events_no_row", "AlphaG.Csv.time_diff",
                           "AlphaG.Csv.arg_order_irrelevant", "AlphaG.Csv.refused_mixed_runs",
                           "AlphaG.Csv.refused_duplicate_t0", "AlphaG.Csv.refused_unknown_extension"],
        harness=[("c19", ["dev"])],
        level_text="Lean theorems on the row logic for runs of any size: one row per main event in order with its serial "
                   "(rows_one_per_main), empty time exactly for undecodable events, counts of decodable events differ by the "
                   "sum of 32-bit-wrapped timestamp differences (time_diff), argument order irrelevant, refusals. The real "
                   "binaries are run on generated MIDAS files on every check and their CSVs compared with the model and "
                   "with an independent oracle (incl. byte-identical output across thread counts).",
        level_note="Partial: the theorems are about the model of sort_run_files and of the scan; that the binaries "
                   "implement it (file reading, midasio, rayon ordering, csv formatting) is established by end-to-end "
                   "differential runs, not proved. Schedules are sampled (RAYON_NUM_THREADS in {1,2,5,16}).",
        technique="Lean 4 theorems over a hand-written model + end-to-end differential check of the real binaries",
        design_ref="DESIGN.md section 6, C19",
        needs_binaries=True,
        disagreement_is_failing_input=False,
        rule="each case is one generated run (1..4 MIDAS files, .mid/.mid.lz4, 0..60 events each, main/chronobox/"
             "sequencer/other ids interleaved, TRG timestamps crossing 2^32, undecodable events of 7 kinds) pushed "
             "through the real alpha-g-vertices (thread counts 1,2,5,16, permuted arguments) and alpha-g-trg-scalers, "
             "plus refusal runs (mixed run numbers, duplicate initial timestamp, unknown extension); distinct by request line",
        assumptions=["midasio, lz4, csv, clap and rayon are trusted (exercised, not modelled)",
                     "the MIDAS writer of the harness follows midasio 0.5.3's reader",
                     "vertex columns are compared with MainEvent::vertex() called in-process on the same banks"],
        trusted_extra=["the real binaries are run as processes; their CSVs are parsed by the harness"],
    ),
    "C20": dict(
        lean_modules=["AlphaG.Props.C20", "AlphaG.Props.C20Streams"],
        required_theorems=["AlphaG.Csv.cbtime_correct", "AlphaG.Csv.cbtime_wrong_side_late",
                           "AlphaG.Csv.cbtime_wrong_side_early", "AlphaG.Csv.cbtime_none_iff",
                           "AlphaG.Csv.never_wrong", "AlphaG.Csv.rows_complete",
                           "AlphaG.Csv.fails_closed_remainder", "AlphaG.Csv.fails_closed_no_epoch0",
                           "AlphaG.Csv.fails_closed_first_marker", "AlphaG.Csv.boardRows_total",
                           "AlphaG.Csv.hwStream_rows", "AlphaG.Csv.stream_never_wrong", "AlphaG.Csv.stream_empty_iff",
                           "AlphaG.Csv.hwStream_counters", "AlphaG.Csv.dropped_marker_never_wrong",
                           "AlphaG.Csv.dropped_epoch_fails", "AlphaG.Csv.duplicated_marker_never_wrong",
                           "AlphaG.Csv.rowsGo_ordered"],
        harness=[("c20", ["dev"])],
        level_text="Lean theorems against an independent hardware model, for any tick and any marker counter: an edge in its "
                   "own marker interval gets its true time (cbtime_correct), displaced edges get none, never a wrong time "
                   "whatever two hardware markers enclose it (never_wrong), exact characterisation of empty times, one row per "
                   "timestamp after the counter-0 marker (rows_complete), fails closed, no panic; lifted to whole legal hardware "
                   "streams of any length (hwStream_rows: the rows are exactly the expected ones; stream_never_wrong; "
                   "stream_empty_iff) and to streams with any marker dropped or duplicated (…_never_wrong). The real binary is run on "
                   "hardware-model streams with every cut pattern and single fault on every check.",
        level_note="Partial: the theorems are about the model of chronobox_time and of the row loop; the binary is tied by "
                   "end-to-end differential runs (sampled), not proved. FIFO parsing itself is C07. Repaired defect F3 "
                   "(last timestamp dropped) is reported again if it returns.",
        technique="Lean 4 theorems over a hand-written model + end-to-end differential check of the real binary",
        design_ref="DESIGN.md section 6, C20",
        needs_binaries=True,
        disagreement_is_failing_input=False,
        rule="each case is one board of one generated run: hardware-model FIFO streams (0..8 wraps, 1..4 boards, "
             "edges within 3 ticks of markers and displaced across them, scaler blocks whose payload imitates words) cut "
             "at arbitrary byte positions into CBFn banks / events / files, plus single faults (dropped marker, duplicated "
             "marker, truncated tail, corrupted word, missing counter-0 marker, first marker top bit, incomplete scalers "
             "block), run through the real alpha-g-chronobox-timestamps; distinct by request line",
        assumptions=["hardware model as stated in the property text and in Props/C20.lean's header",
                     "midasio, lz4, csv, clap are trusted (exercised, not modelled)"],
        trusted_extra=["the real binary is run as a process; its CSV is parsed by the harness"],
    ),
    "C07": dict(
        lean_modules=["AlphaG.Props.C07", "AlphaG.Props.C07Stable"],
        required_theorems=["AlphaG.Chronobox." + t for t in [
            "parse_remainder_stable", "parse_entries_monotone", "parse_sound_complete", "classify_spec", "parse_fields", "block_not_word",
            "isParse_unique", "parse_rest_suffix", "parse_resume", "feedAll_eq_whole",
            "parse_progress", "parse_total", "channelId_total", "channelId_ok_iff",
            "boardId_total", "boardId_ok_iff"]],
        harness=[("c07", ["dev", "release"]), ("c20", ["dev"])],
        needs_binaries=True,
        level_text="Lean theorems for all byte streams and all ways of cutting them: the parser consumes exactly the longest "
                   "prefix of the documented grammar (parse_sound_complete, with an unambiguity proof), classifies all 2^32 "
                   "words as specified by case analysis on the top byte (classify_spec), returns the documented fields, leaves "
                   "a literal suffix as remainder, and feeding any list of pieces through the resume protocol equals parsing "
                   "the concatenation (feedAll_eq_whole); the remainder is a fixed point and entries are monotone under "
                   "appended bytes (parse_remainder_stable, parse_entries_monotone); progress and totality included.",
        level_note="Trusted: winnow 0.6.1 combinator semantics, transcribed by hand as a second 'Raw' model layer that is "
                   "proved equal to the direct recursive model (parse_total) and tied to the real chronobox_fifo by the "
                   "differential run (all 2- and 3-cuts of short streams, random k-cuts of long ones, top-byte sweep). The "
                   "program that consumes the parser (alpha-g-chronobox-timestamps, an anchor of this property) is run on the "
                   "same kind of streams cut arbitrarily into banks, events and files (harness module c20).",
        technique="Lean 4 theorems over a two-layer hand-written model (winnow combinator transcription = direct recursion) "
                  "+ independent grammar + differential correspondence check",
        design_ref="DESIGN.md section 6, C07",
        rule="generators: top byte 0..=255 x boundary/random low bytes, single-bit flips of words and tag, hardware-like "
             "streams with tricky block payloads, word soups with tuned invalid share, every truncation inside a block, block "
             "followers, all 2-cuts of streams <= 600 B, all 3-cuts of short streams, random k-cuts (incl. empty pieces) of "
             "streams up to ~170 kB, byte-by-byte feed, every u8 channel, board names; distinct by request line",
        assumptions=["winnow 0.6.1 combinator semantics are transcribed by hand (Raw layer) and tied by the differential run",
                     "CHRONOBOX_NAMES is hand-copied into the model (4 strings; checked by the board-id generator)"],
    ),
    "C18": dict(
        lean_modules=["AlphaG.Props.C18", "AlphaG.Generated.DriftTablesOk"],
        required_theorems=["AlphaG.Drift." + t for t in [
            "lookup_ok_iff", "lookup_err_z", "lookup_err_t", "lookup_total", "bracket_ok", "radius_in_range",
            "radius_antitone", "lookup_even", "lookup_even_generic", "knot_exact", "lorentz_range", "phi_eq",
            "phi_eq_generic", "lipschitz", "step_bound_of_table", "step_bound_of_intervals",
            "generated_tables_ok", "step_bound_partial", "step_exceptions_known"]],
        harness=[("c18", ["dev", "release"])],
        level_text="Lean theorems for every table satisfying TablesOk over any linear ordered field (ok iff in range with the "
                   "right error kind, no panic, radius within the tabulated extremes, antitone in t, even in z — also "
                   "carrier-generic, i.e. bit-for-bit in f64 — exact at knots, Lorentz range, phi = phi - corr, Lipschitz/step "
                   "bounds), and TablesOk of the 92 shipped slices proved by kernel decision on the exact dyadic values of the "
                   "f64 bit patterns dumped from the built code on every run. Bit-exact differential check against "
                   "SpacePoint::try_from at every knot and bound +-1 ulp.",
        level_note="Partial: theorems are in exact arithmetic; f64 rounding of the interpolation (one multiplication, one "
                   "division, two additions) is covered by the bit-exact differential run and the oracle, not by a theorem. "
                   "The 8 ns / 0.5 mm clause is false for the shipped data in 135 listed knot intervals (known finding F5); "
                   "step_bound_partial proves it outside the generated exception list and step_exceptions_known pins that "
                   "list to the committed one.",
        technique="carrier-generic Lean model; ordered-field theorems; kernel decision (decide +kernel) on generated f64 "
                  "dyadic tables; bit-exact differential correspondence check",
        design_ref="DESIGN.md section 6, C18",
        rule="generators: every slice bound +-1 ulp (both signs), every knot time +-1 ulp (stratified in quick, all 92 tables "
             "x 4 z in thorough), random and ascending runs, NaN/inf/zero/subnormal inputs, space points with random phi, "
             "8 ns steps over all 48 284 knot intervals; distinct by request line",
        assumptions=["Float.ofBits (driver) and the exact dyadic value (theorems) read the same generated bit patterns",
                     "uom quantities are the identity on SI base values"],
        findings_notes=["step_over_known"],
    ),
    "C16": dict(
        lean_modules=["AlphaG.Props.C16", "AlphaG.Props.C16b"],
        required_theorems=["AlphaG.Helix.closest_t_range", "AlphaG.Helix.closest_t_range_real",
                           "AlphaG.Helix.circle_case_optimal", "AlphaG.Helix.hasDerivAt_distSq",
                           "AlphaG.Helix.kepler_iff_stationary"]
            + ["AlphaG.C16b." + t for t in [
                "distSq_formula", "e_lt_one_iff", "distSq_strictConvex_of_e_lt_one", "stationary_is_global_min_of_e_lt_one",
                "stationary_unique_of_e_lt_one", "exists_unique_stationary_of_e_lt_one",
                "kepler_root_is_global_min_of_e_lt_one", "clamp_is_interval_min_of_e_lt_one", "closestT_eq",
                "keplerM_codeN_mem", "closestT_optimal_of_exact_root_of_e_lt_one",
                "closestT_interval_optimal_of_exact_root_of_e_lt_one", "global_min_on_interval_is_stationary_or_endpoint",
                "newton_kepler_tendsto_root", "newton_kepler_tendsto_root_neg", "newton_model_mem",
                "newton_limit_is_global_min_of_e_lt_one", "newton_limit_is_root", "kepler_deriv_vanishes_of_one_le",
                "distSq_not_convex_of_one_lt_e"]],
        harness=[("c16", ["release"]), ("c14c", ["dev"])],
        disagreement_is_failing_input=False,
        disagreement_failing_modules=["c14c"],
        level_text="Lean theorems: for any carrier with a linear order and an atan2 of range [-pi, pi] the value returned by "
                   "closest_t lies in [-pi, pi], whatever the pitch, tolerance or Newton iteration count (closest_t_range); "
                   "over the reals, for pitch exactly 0 the returned t minimises the distance over all t "
                   "(circle_case_optimal, via |w| = Re(conj w e^{i arg w})). Over the reals, for pitch h != 0: dist^2(t) = R^2 + "
                   "rho^2 - 2 R rho cos(t + phi0 - delta) + (h t/2pi + z0 - z)^2 (distSq_formula); when |e| < 1 (4 pi^2 rho |R| < "
                   "h^2) it is strictly convex, has exactly one stationary point, that point is the strict global minimiser over "
                   "all real t, and every solution of the code's Kepler equation maps back to it "
                   "(kepler_root_is_global_min_of_e_lt_one); if the model's Newton loop ends on an exact root and the reported t "
                   "is strictly inside (-pi, pi), the reported t is the global minimiser "
                   "(closestT_optimal_of_exact_root_of_e_lt_one), and clamping gives the minimiser over [-pi, pi] otherwise "
                   "(clamp_is_interval_min_of_e_lt_one). For 0 <= e < 1 Newton's iteration from the code's start (+-pi by the "
                   "sign of M, with M in (-pi, pi] proved) stays between the unique root and the start, is monotone and converges "
                   "to the root (newton_kepler_tendsto_root[_neg]); the model's own loop with any tolerance/fuel keeps that "
                   "invariant (newton_model_mem); the limit maps to the global minimiser (newton_limit_is_global_min_of_e_lt_one). "
                   "For any e a minimiser over [-pi, pi] exists and is an endpoint or a stationary point "
                   "(global_min_on_interval_is_stationary_or_endpoint). For e >= 1 only weak facts are proved (g' vanishes, "
                   "dist^2 is not convex for e > 1, a Newton limit with g' != 0 is a root); optimality for e >= 1 is decided on "
                   "the implementation by the oracle (dense grid + golden-section refinement), i.e. by search.",
        level_note="Partial: for |e| < 1 optimality of the exact Kepler root and monotone convergence of exact-arithmetic Newton "
                   "to it are theorems; not proved: (i) that the f64 iterate returned after <= 20 steps / the tolerance test is "
                   "within any stated distance of the root, (ii) global optimality when e >= 1 (several stationary points; "
                   "dist^2 provably non-convex), (iii) NaN-freedom in f64, (iv) the case R < 0 (e < 0) for the Newton part. "
                   "These are sampled on the real code (strictly-inside cases incl. the near-parabolic and degenerate-geometry "
                   "families, none further than 1e-9 m from the grid optimum). The Float model of c16 uses sqrt(x^2+y^2) for "
                   "hypot and is compared to 1e-9; the per-track t reported with a primary vertex is tied bit for bit by module "
                   "c14c (vertexfit) and judged by the vertex-track-t oracle of c16.",
        technique="carrier-generic Lean model; theorem over any linear order + Mathlib real/complex analysis for the circle "
                  "case; Mathlib convex analysis, extreme value theorem and monotone convergence of the Newton map for |e| < 1; "
                  "implementation oracle by dense search; tolerance-based correspondence check",
        design_ref="DESIGN.md section 6, C16",
        rule="cases: helix centre within +-3 m, radius 0.03-5 m (log-uniform), any phase, pitch in {0, +-subnormal, "
             "eps/2..2eps, +-1e-17..+-1e2}; points anywhere in the drift volume, within 1 cm of the helix, "
             "eccentricity-targeted (e = 4 pi^2 rho R / h^2 in [0.5, 200]) and track-like; distinct by request line; "
             "non-trivial = the oracle's optimality check applies (t strictly inside (-pi, pi)), counted in notes",
        assumptions=["uom quantities are the identity on SI base values",
                     "the oracle's grid (4096 points quick, 16384 thorough, each local minimum refined) finds the global minimum to well below 1e-9 m"],
    ),
    "C03": dict(
        lean_modules=["AlphaG.Props.C03", "AlphaG.Props.C03Injective", "AlphaG.Props.C03Converse", "AlphaG.Lemmas.CrcOrbit", "AlphaG.Lemmas.Crc", "AlphaG.Model.Crc"],
        required_theorems=["AlphaG.Chunk.chunk_accept_iff", "AlphaG.Chunk.chunk_fields", "AlphaG.Chunk.chunk_roundtrip",
                           "AlphaG.Chunk.chunk_decode_injective", "AlphaG.Chunk.chunk_encode_accepted",
                           "AlphaG.Chunk.chunk_encode_decode", "AlphaG.Chunk.chunk_decoded_wf",
                           "AlphaG.Chunk.chunk_total", "AlphaG.Chunk.chunk_accessors_total",
                           "AlphaG.Chunk.chunk_header_crc32c", "AlphaG.Chunk.chunk_payload_crc32c",
                           "AlphaG.Chunk.detect_odd", "AlphaG.Chunk.detect_burst32", "AlphaG.Chunk.detect_two",
                           "AlphaG.Chunk.detect_upto3", "AlphaG.Crc.no_return", "AlphaG.Crc.run_xor",
                           "AlphaG.Crc.runBytes_eq_run"],
        harness=[("c03", ["dev", "release"])],
        level_text="Lean theorems over all byte strings: accept iff the documented layout incl. both stored CRC-32C words "
                   "(chunk_accept_iff), accessors = fields, exact re-encoding (chunk_roundtrip) and its converse "
                   "decodeChunk (encodeChunk c) = ok c for every in-width field tuple (chunk_encode_decode), totality; and the "
                   "error-detection claims for every accepted chunk of any payload length: any odd number of flipped bits "
                   "(detect_odd), any burst of <= 32 contiguous bits at any offset incl. across region boundaries "
                   "(detect_burst32), any two flipped bits (detect_two) — by GF(2)-linearity of the CRC register, the parity "
                   "invariant, register injectivity, and the order of x modulo the polynomial exceeding the longest region "
                   "(16 kernel-evaluated orbit segments).",
        level_note="Trusted: the crc32c crate equals the bitwise LFSR model beyond the sampled inputs (lengths 0..70 "
                   "exhaustive-ish, random to 70 KiB); the hand-written decoder model is tied to Chunk::try_from by the "
                   "differential run (every single-bit flip and every burst <= 32 of small chunks, stratified payload "
                   "lengths 1..=65535). 4+ scattered bit errors are not claimed by the property.",
        technique="Lean 4 kernel proofs (linearity + residue form of CRC-32C, decide +kernel orbit segments) over a "
                  "hand-written model + differential correspondence check",
        design_ref="DESIGN.md section 6, C03",
        rule="generators: valid chunks with payload lengths 1..300, 2^k+-1, 65532..65535; all 71 boards x field boundaries; "
             "chip/flags 0..255; declared length +-8; padding; both CRC words bitwise; every single-bit flip, sampled "
             "pairs/triples, every burst <= 32 at every offset of small chunks and region boundaries of large ones; crc of "
             "lengths 0..70 and random to 70 KiB vs the crate; distinct by request line",
        assumptions=["the crc32c crate (incl. its hardware path) computes CRC-32C; compared with the model on sampled inputs",
                     "&[u8] lengths are <= isize::MAX, so `len + 4` in an error value cannot overflow"],
    ),
    "C04": dict(
        lean_modules=["AlphaG.Props.C04", "AlphaG.Props.C04Complete", "AlphaG.Props.C04Wire"],
        required_theorems=["AlphaG.Pwb." + t for t in [
            "reassemble_ok_iff", "reassemble_complete", "reassemble_of_sorted_perm", "bound_of_valid", "reassemble_sort_irrelevant", "reassemble_perm", "reassemble_perm_eq", "reassemble_ok_eq_direct",
            "reassemble_fails_if_missing_id", "reassemble_fails_if_duplicated_id", "reassemble_fails_if_two_boards",
            "reassemble_fails_if_two_chips", "reassemble_fails_if_eom_absent_on_last",
            "reassemble_fails_if_eom_on_earlier", "reassemble_fails_if_nonfinal_size_differs", "reassemble_total",
            "sortById_spec"]] + ["AlphaG.wire_transport", "AlphaG.decodeAll_encode", "AlphaG.toChunkV_valid"],
        harness=[("c04", ["dev", "release"])],
        level_text="Lean theorems for chunk lists of any length: the outcome is the same for every permutation "
                   "(reassemble_perm_eq) and for every sorted permutation a sort could return (reassemble_sort_irrelevant), "
                   "success equals the direct decode of the payloads concatenated in chunk-id order, each listed fault "
                   "(missing/duplicated id, two boards, two chips, EOM absent on last / present earlier, non-final size) is "
                   "rejected, no panic for decoded chunks, and the acceptance condition is exact (reassemble_ok_iff: non-empty, "
                   "one board, one chip, gap-free ids, EOM on the last chunk only, equal non-final sizes, payloads decode).",
        level_note="Trusted: slice::sort_unstable_by_key returns a sorted permutation (the theorems hold for any such); chunk "
                   "values satisfy the invariant Chunk::try_from establishes (proved for the byte decoder in C03). Tied to "
                   "PwbV2Packet::try_from(Vec<Chunk>) by the differential run over all n! orders (n <= 6) of real CRC-valid "
                   "chunks and every single fault.",
        technique="Lean 4 theorems over a hand-written model (sort abstracted to any sorted permutation) + differential "
                  "correspondence check",
        design_ref="DESIGN.md section 6, C04",
        rule="cases: real CRC-valid chunk byte strings decoded by Chunk::try_from; all n! orders for n <= 6 (thorough 7), cut "
             "sizes 1..65535, every single fault (drop, duplicate, foreign board/chip, EOM toggle, resize, id replaced, bad "
             "payload) in several orders, double faults, ties; distinct by request line",
        assumptions=["sort_unstable_by_key contract: sorted permutation", "ChunkV.Valid is established by Chunk::try_from (C03)"],
    ),
    "C05": dict(
        lean_modules=["AlphaG.Props.C05", "AlphaG.Props.C05Injective"],
        required_theorems=["AlphaG.Pwb." + t for t in [
            "pwb_decode_injective", "pwb_encode_accepted", "pwb_accept_iff", "pwb_fields", "pwb_channels_sent", "readout_bijective", "pwb_waveform", "pwb_roundtrip",
            "pwb_total", "waveformAt_total", "baseline_total"]],
        harness=[("c05", ["dev", "release"])],
        level_text="Lean theorems over all payloads: accept iff the documented little-endian layout (pwb_accept_iff), every "
                   "accessor = its field, sent/threshold lists = set bits of the 80-bit masks in ascending order mapped by the "
                   "readout table (pwb_channels_sent; the while/leading_zeros loop is proved to enumerate them), the readout "
                   "map is a bijection of 1..=79 onto 3 reset + 4 FPN + 72 pads, every sent channel's waveform is exactly the "
                   "requested samples of its block and absent otherwise, exact re-encoding, totality.",
        level_note="Trusted: the hand-written model of PwbV2Packet::try_from(&[u8]) and waveform_at is tied to the code by "
                   "the differential run (all 79 single-channel masks, requested 0/1/2/3/510/511, bytes 0-3 over 0..=255, "
                   "every length, every per-block perturbation, single-bit flips), not proved equal to it.",
        technique="Lean 4 theorems over a hand-written model + differential correspondence check",
        design_ref="DESIGN.md section 6, C05",
        rule="generators: 79 single-channel masks x requested {0,1,2,3,510,511,random}, full/random masks, header bytes 0..=255, "
             "field boundaries, MAC table and bit flips, lengths 0..len+8, block header/pad/marker perturbations, bit 79 of both "
             "masks, all mask bit flips, single-bit flips, random; distinct by request line",
        assumptions=["PADWING_BOARDS is regenerated from the source on every run (translator)"],
    ),
    "C02": dict(
        lean_modules=["AlphaG.Props.C02", "AlphaG.Props.C02Converse"],
        required_theorems=["AlphaG.Adc." + t for t in [
            "adc_accept_iff", "adc_fields", "adc_waveform", "adc_roundtrip", "adc_roundtrip_exact",
            "adc_decode_injective", "adc_baseline_floor", "adc_baseline_accepted", "adc_total", "adcPacket_total",
            "adc_no_overflow", "adc_encode_decode", "adc_encode_decode_long", "wfPacket_iff"]],
        harness=[("c02", ["dev", "release"])],
        level_text="Lean theorems over all byte strings: accept iff the documented layout and consistency rules incl. the floor "
                   "baseline and the keep_last/keep_bit/suppression ladder with requested_samples >= 2 explicit (adc_accept_iff), "
                   "every accessor = its big-endian field with two's-complement signedness (adc_fields, adc_waveform), "
                   "re-encoding = input modulo the two unused footer bits (adc_roundtrip) and injectivity of decoding modulo "
                   "those bits, floor-division baseline, totality and absence of usize overflow.",
        level_note="Both directions of the round trip are proved (adc_roundtrip; adc_encode_decode for every packet value "
                   "satisfying WfPacket, which is exactly the set of decodable packets: wfPacket_iff). The hand-written model is tied to AdcV3Packet::try_from by the differential run in dev and "
                   "release builds (full decision table of the property's quantifier, all single-bit flips, all truncations) "
                   "with an independent well-formedness predicate and re-encoder as oracle. Repaired defect F1 "
                   "(requested_samples < 2) is reported again if it returns. Display is not covered.",
        technique="Lean 4 theorems over a hand-written guard-chain model + differential correspondence check (dev + release)",
        design_ref="DESIGN.md section 6, C02",
        rule="generators: valid builders (short/long/131 KB), decision table supp x keep_bit x keep_last x requested x n x "
             "contents, baseline residues and variants, short-form footers, MAC perturbations, per-byte boundary and all values, "
             "all single-bit flips, all truncations/extensions, random, id conversions; distinct by request line",
        assumptions=["ALPHA16BOARDS is regenerated from the source on every run (translator)"],
    ),
    "C13": dict(
        lean_modules=["AlphaG.Props.C13", "AlphaG.Props.C13b", "AlphaG.Model.Avalanches"],
        required_theorems=["AlphaG.C13." + t for t in [
            "ranges_spec", "ranges_cover", "ranges_disjoint", "ranges_maximal", "ranges_rot", "avalanches_rot",
            "full_ring_not_equivariant", "padHits_mirror", "avalanches_mirror"]]
            + ["AlphaG.C13b." + t for t in [
                "a_matrix_symmetric", "a_matrix_diag_dominant", "a_matrix_pos_def", "cholesky_pivots_pos",
                "wireBlock_no_cholesky_panic", "avalanches_shape", "run_shape"]]
            + ["AlphaG.Avalanches.run_ok"],
        harness=[("c13", ["dev"]), ("c13b", ["dev"])],
        disagreement_is_failing_input=False,
        level_text="Lean theorems for a ring of any size and any carrier (no arithmetic law used, hence bit-for-bit in f64, NaN "
                   "included): the contiguous ranges are exactly the maximal runs on the ring when at least one wire is free "
                   "(ranges_spec/cover/disjoint/maximal), rotating the occupancy rotates the blocks as sequences in ring order "
                   "(ranges_rot) and the avalanche multiset of a rotated event is the rotated multiset with identical time, z and "
                   "amplitudes for any deconvolution function (avalanches_rot). Mirror: z is negated exactly over a field with "
                   "log constrained only by log(a/b) = -log(b/a), for pairwise distinct pad-hit amplitudes. The full ring is "
                   "proved NOT equivariant (full_ring_not_equivariant, finding F4).",
        level_note="Partial: the full ring (F4) and equal-amplitude ties under the mirror (F8) are genuine violations, recorded "
                   "as known findings. Mirror equality in f64 beyond 1e-9 m (rounding of ln) is sampled. The top level of the "
                   "avalanches model is tied to MainEvent::avalanches by implementation-vs-implementation rotation/mirror "
                   "oracles on events built with the verif_from_signals hook; ranges, wire/column maps and column matching "
                   "are tied by the driver diff. Module c13b additionally runs the WHOLE avalanches() chain (wire and pad "
                   "deconvolution, contiguous blocks, the Cholesky solve of a_matrix modelled in Float, column matching, "
                   "sort order, log-ratio z) in the Lean model instantiated with Float and compares every avalanche of the "
                   "real code with it (wire index, time bin, z bit for bit up to the documented ulp budget of the Cholesky "
                   "solve: amplitudes within 1e-9 of the event scale); a_matrix is proved symmetric, strictly diagonally "
                   "dominant for the exact rational values of the NEIGHBOR_FACTORS literals, hence positive definite for "
                   "every block length, so that the Cholesky unwrap cannot fire in exact arithmetic.",
        technique="carrier-generic Lean model and theorems (permutation/ring-run reasoning) + differential check + "
                  "rotation/mirror oracle on the implementation",
        design_ref="DESIGN.md section 6, C13",
        rule="cases: wire<->column maps (all), contiguous ranges for single blocks (stratified; all 65 536 placements in "
             "thorough), random and special occupancies, column matching, events (random hits, tracks, blocks across the "
             "255/0 seam, 255 wires, full ring) rotated by all 31 column counts, mirrored events, the equal-amplitude tie "
             "probe; distinct by request line",
        assumptions=["slice::sort_unstable_by applies a permutation that is a function of the key sequence only",
                     "faer Cholesky solve is an arbitrary function of the block (deconvBlock) in the equivariance theorems; "
                     "in module c13b it is a textbook Float Cholesky whose result is compared to faer's within 1e-9 of "
                     "the event scale",
                     "Float sqrt/ln/ordering of the Lean runtime are the C library's, as are Rust's"],
    ),
    "C17": dict(
        lean_modules=["AlphaG.Props.C17"],
        required_theorems=["AlphaG.C17." + t for t in [
            "fast_eq_naive", "pad_eq_plain", "deconv_shape", "deconv_nonneg", "deconv_scale", "isolated_pulse",
            "ls_first_strict_min"]],
        harness=[("c17", ["dev"])],
        level_text="Lean theorems: the window-skipping sweep equals the plain one-sample-at-a-time non-negative greedy "
                   "deconvolution for every carrier, signal, response, offset and look-ahead with no arithmetic law used — hence "
                   "bit for bit in f64, NaN and infinities included (fast_eq_naive, pad_eq_plain); one output sample per input "
                   "sample and one channel per channel (deconv_shape); non-negative amplitudes over any ordered field when the "
                   "response window is negative (deconv_nonneg; the hypothesis is checked on the real tables on every run); "
                   "covariance under any map satisfying the listed homogeneity laws (deconv_scale); isolated pulse recovered "
                   "exactly at k (isolated_pulse); the sweep returns the first strict minimum (ls_first_strict_min).",
        level_note="Partial: finiteness and the 1e-6 bound in f64, homogeneity of multiplication by 2^k in IEEE (no "
                   "overflow/underflow) and faer's Cholesky solve (an uninterpreted function in the model) are covered by the "
                   "bit-exact differential run and the oracles (scale 2^k for k in -8..=8 and +-20, 30, 40, 60, 100, isolated pulse on all 256 wires), "
                   "not by theorems.",
        technique="carrier-generic Lean model and theorems (no float laws) + ordered-field theorems + bit-exact differential "
                  "correspondence check",
        design_ref="DESIGN.md section 6, C17",
        rule="cases: all 38 (offset, look-ahead) settings x waveform length classes, every length 1..=700, pulses in the last "
             "look-ahead samples, synthetic responses, least-squares sweeps (wire and pad grids, argmin coverage), scale 2^k, "
             "Cholesky blocks of length 1..=256 incl. the seam, isolated pulses on all 256 wires, guards, non-finite samples; "
             "distinct by request line",
        assumptions=["f64::min is IEEE minNum; Iterator::sum starts at -0.0",
                     "response tables are passed to the model inside each request (bit patterns of the built code's tables)"],
    ),
    "C01": dict(
        lean_modules=["AlphaG.Props.C01", "AlphaG.Props.C08", "AlphaG.Props.C08Names"],
        required_theorems=["AlphaG.C01." + t for t in [
            "adc_total", "adc_no_overflow", "alpha16_ids_total", "chunk_total", "chunk_accessors_total", "pwb_total",
            "waveformAt_total", "decoded_chunk_valid", "pwbFromChunkBytes_total", "trg_total", "cbfifo_total",
            "chronobox_ids_total"]] + ["AlphaG.C08.bankName_total"],
        harness=[(m, ["dev", "release"]) for m in ["c02", "c03", "c04", "c05", "c06", "c07", "c08"]],
        disagreement_is_failing_input=False,
        oracle_failing_regex=r"panic",
        level_text="Every decoder is modelled panic-aware (each slice index, try_into().unwrap(), usize subtraction, unwrap() "
                   "and assert is a guard yielding `panic site`) and Lean theorems state that `panic` is unreachable for every "
                   "byte string of any length: ADC, PWB chunk and its unwrapping accessors, PWB packet from bytes, waveform_at, "
                   "PWB packet from any list of chunk byte strings (composition theorem pwbFromChunkBytes_total), TRG, Chronobox "
                   "FIFO (incl. winnow's own loop assertions and progress), id conversions; bank-name parsers on all strings are "
                   "part of C08's module. usize intermediates are bounded (adc_no_overflow and the guards), so builds with and "
                   "without overflow checks agree.",
        level_note="The models are tied to the code by differential runs in BOTH a dev build (overflow checks on) and a release "
                   "build (off) under catch_unwind, where any implementation panic is an oracle failure with the input as replay. "
                   "Not covered: allocation failure / stack exhaustion, the crc32c and winnow crates' own totality (trusted), "
                   "Display impls. Repaired defect F1 (ADC requested_samples - 2 underflow) is reported again if it returns.",
        technique="Lean 4 totality theorems over panic-aware hand-written models + differential correspondence in dev and "
                  "release builds under catch_unwind",
        design_ref="DESIGN.md section 6, C01",
        rule="union of the decoder generators of C02-C07 (valid builders, every single-field boundary substitution, every "
             "truncation/extension and single-bit flip of small valid packets, random bytes with plausible prefixes, all cut "
             "patterns of FIFO streams), each run in a dev and a release build; distinct by request line",
        assumptions=["&[u8] lengths are <= isize::MAX"],
    ),
    "C08": dict(
        lean_modules=["AlphaG.Props.C08", "AlphaG.Props.C08Names", "AlphaG.Props.C08Maps", "AlphaG.Props.RunHistory"],
        required_theorems=["AlphaG.C08." + t for t in [
            "name_accept_iff", "chronobox_accept_iff", "seq2_accept_iff", "name_injective", "name_denotes_one",
            "board_tables_distinct", "bankName_total", "wire_bijection", "pad_bijection", "sim_eq_5000",
            "before_first_map_errors", "no_gap", "no_shadowed_arm", "wire_in_column", "padColumnToWires_fibre"]]
            + ["AlphaG.RunHistory." + t + sfx for t in RUN_HISTORY for sfx in ("_history", "_simulation")]
            + ["AlphaG.RunHistory.pwb_swaps_10418"],
        harness=[("c08", ["dev", "release"])],
        level_text="Lean theorems over tables and `match run_number` arms regenerated from the source text on every run: for "
                   "every String (any length, any Unicode) the bank-name parsers accept exactly the 458 documented names "
                   "(name_accept_iff), injectively, each denoting one (kind, board, channel), and never panic; board tables "
                   "have distinct names/MACs/device ids with device_id = le32(mac[0..4]); for every run number with a map the "
                   "wire map is a bijection of 8 boards x 32 channels onto 256 wires and the pad map a bijection of installed "
                   "boards x 4 chips x 72 channels onto 32 x 576 pads (product of small kernel-checked bijections); the "
                   "simulation run maps like run 5000; runs before the first map give an error, no gap after it, no shadowed "
                   "arm; wire-to-pad-column association matches the geometry in exact rational arithmetic. The nine run-number "
                   "dispatches (three maps, six calibrations) select, for every run up to the documentation horizon 11192 and "
                   "for the simulation, exactly what the hand-written record of the documented run history prescribes "
                   "(Props/RunHistory: *_history, *_simulation), and the PadWing layout from run 10418 is the earlier one with "
                   "exactly the eight board replacements listed in detector/CHANGELOG.md (pwb_swaps_10418).",
        level_note="Trusted: the translator's regex extraction of Rust consts and match arms (a failure to locate a table is an "
                   "error; cross-checked by querying the real lookup functions over their whole domain in the harness: all "
                   "documented names, 150 k sampled / 4.1 M exhaustive 4-char strings, runs at every threshold +-2 / 0..=20000 "
                   "exhaustive in thorough), HashMap and lazy_static semantics; phi() floats are compared to 1e-12.",
        technique="translator (source text -> generated Lean tables and arms) + Lean 4 kernel proofs over the generated tables "
                  "+ differential correspondence check",
        design_ref="DESIGN.md section 6, C08",
        rule="cases: every documented name through every parser, 4-char strings over a 45-symbol alphabet (incl. multi-byte "
             "characters at every position), per-position substitutions, truncations/extensions, lengths 0..8, all 4-byte "
             "strings with < 4 chars; wire/pwb/pad maps per run number at thresholds +-2, edges and random; w2c/c2w/phi; "
             "calibration dispatch; distinct by request line",
        assumptions=["&str is modelled as a list of scalar values with its UTF-8 length",
                     "HashMap::get and lazy_static initialisation are trusted"],
    ),
    "C15": dict(
        lean_modules=["AlphaG.Props.C15", "AlphaG.Props.C15b", "AlphaG.Driver.C15b"],
        required_theorems=["AlphaG.Cluster." + t for t in [
            "cluster_partition", "cluster_min_size", "cluster_connected", "clusters_disjoint", "cluster_total"]]
            + ["AlphaG.Vertexing." + t for t in ["vertex_partition", "secondaries_empty", "primary_min_two"]]
            + ["AlphaG.Hough." + t for t in [
                "getBins_no_panic", "getBins_nodup", "getBins_bounds", "getBins_mem_iff", "getBins_respects_eq",
                "distance_symm", "near_symm", "ctxOf_good", "ctxOf_spec", "clusterX_eq", "cluster_total_concrete",
                "cluster_partition_concrete", "cluster_min_size_concrete", "cluster_connected_concrete",
                "clusters_disjoint_concrete", "szCompat", "szRun3"]]
            + ["AlphaG.Driver.C15b.rankFn_injOn", "AlphaG.Driver.C15b.driver_ctx_good"],
        harness=[("c15", ["dev"]), ("c15b", ["dev"])],
        disagreement_is_failing_input=False,
        disagreement_failing_modules=["c15b"],
        level_text="Lean theorems for point multisets of any size, any bin function and any symmetric distance relation: the "
                   "clustering (Hough accumulator with IndexMap insertion order, most_popular = last maximum, flood fill with "
                   "pop/swap_remove, best_cluster loop, remainder bookkeeping) terminates with fuel |sp|+1, fires none of its "
                   "unwraps, and its output is a partition of the input as a multiset (cluster_partition), every cluster has at "
                   "least min points and is connected by chains of near-steps inside it, clusters are disjoint; vertex finding "
                   "partitions the tracks between the primary vertex and the remainder, reports no secondaries and a primary "
                   "only with >= 2 tracks. For the concrete functions: get_bins (conformal map, theta loop, both-negative rule, clipped "
                   "range, saturating cast) is modelled operation by operation over a generic carrier; for every carrier and "
                   "input it never reaches its try_into().unwrap(), lists no bin twice and only theta < theta_bins "
                   "(getBins_*); the clustering theorems are instantiated to the concrete bin function, == and distance <= "
                   "max_distance (cluster_*_concrete).",
        level_note="bins_nodup is a theorem for any carrier. Remaining hypotheses are three named carrier laws: BeqPER (== "
                   "symmetric and transitive, reflexive on the NaN-free input), EqCompat (== respected by * + sin cos, by / in "
                   "the numerator, by floor-as-i32, and a == b -> a*a = b*b) and SubSqSymm ((a-b)^2 = (b-a)^2); they are proved "
                   "for a signed-zero integer carrier and (SubSqSymm) every commutative ring; for f64 they are true by IEEE "
                   "analysis but not provable in Lean (Float is opaque) and are sampled (eqlaws, == twins, distances). The whole "
                   "clustering computed by the model from the points alone equals the real cluster_spacepoints in order on "
                   "every generated cloud (clusterx), and get_bins is bit-identical incl. exact bin-boundary hits. 1 <= min (the "
                   "code passes 13). The abstract model "
                   "is tied to the code by replaying the combinatorial algorithm on the bins and adjacency computed by the real "
                   "code (same clusters in the same order, same remainder order) and by independent oracles on the real "
                   "output. IndexMap and sort_unstable_by semantics are modelled.",
        technique="Lean 4 theorems (accumulator-as-multiset invariant, fuel sufficiency) over an abstract combinatorial model, "
                  "instantiated to a carrier-generic model of get_bins / distance with law-free theorems (no duplicate bin, no "
                  "panic, bounds) + replay correspondence on real bins/adjacency + bit-exact correspondence of get_bins and of "
                  "the clustering computed from the points alone + oracles on the implementation's output",
        design_ref="DESIGN.md section 6, C15",
        rule="cases: random clouds, 1-5 helical tracks with noise, exact duplicates, 0..=400 points (2000 in thorough), other "
             "min/grid/distance parameters, size boundaries around 13, degenerate families; find_vertices on track lists of "
             "size 0..=8 with ties; distinct by request line",
        assumptions=["IndexMap keeps insertion order; max_by_key returns the last maximum", "sort_unstable_by returns a permutation",
                     "f64 satisfies BeqPER/EqCompat/SubSqSymm (IEEE analysis + sampling; Lean's Float is opaque)",
                     "libm sin/cos of Lean's Float equal Rust's (bit-identical on this machine in all cases)",
                     "f64::powi(2) is one multiplication"],
    ),
    "C14": dict(
        lean_modules=["AlphaG.Props.C14", "AlphaG.Props.C15", "AlphaG.Props.C14b", "AlphaG.Lemmas.TrackInit",
                      "AlphaG.Props.C14c", "AlphaG.Lemmas.NelderMead", "AlphaG.Lemmas.NelderMeadStep"],
        required_theorems=["AlphaG.C14." + t for t in [
            "cluster_total", "closest_t_range", "collinear_rejected", "fit_assert_unreachable", "fit_sites_total",
            "fit_sites_panic", "minBy_total", "minmax_some"]]
            + ["AlphaG.Vertexing.vertex_total", "AlphaG.Vertexing.vertex_panic_sites"]
            + ["AlphaG.C14b." + t for t in [
                "guard_iff_circle_defined", "guard_iff_circle_defined_xy", "circle_correct", "three_template_points_members",
                "template_eq", "template_extremal", "template_first_last_rule", "template_panic_iff", "template_total",
                "fit_init_panic_sites", "initial_simplex_shape", "initial_simplex_nondegenerate", "perturb_ne",
                "fit_simplex_shape", "vertex_simplex_shape", "vertexInit_shape", "no_initial_parameters_iff",
                "fit_init_panic_iff", "minmaxByKey_eq", "minByFold_panic_iff"]]
            + ["AlphaG.C14c." + t for t in [
                "nm_cases", "nm_terminates_shape", "nm_terminates", "step_best_monotone", "nm_best_monotone",
                "nm_result_spec", "nm_no_panic_of_total_cost", "nm_panic_only_cost", "best_param_is_first_vertex",
                "shrink_keeps_best", "fit_cases", "fit_panic_iff", "fit_panic_iff_full", "fit_no_panic_of_no_nan",
                "fit_ok_spec", "fitVertex_cases", "vertex_fit_panic_sites", "xLaws"]]
            + ["AlphaG.NelderMead." + t for t in ["sortSimplex_perm", "sortSimplex_head", "nextIter_cases"]],
        harness=[("c14", ["dev"]), ("c15", ["dev"]), ("c14b", ["dev"]), ("c14c", ["dev"])],
        disagreement_is_failing_input=False,
        disagreement_failing_modules=["c14b", "c14c"],
        oracle_failing_regex=r"panic|non-finite|not finite|NaN|outside|out of range|range|not <=",
        level_text="Lean theorems for the logic of the reconstruction stages: clustering always returns (cluster_total); the "
                   "closest-approach parameter is within [-pi, pi] whenever it is not NaN (closest_t_range); the exact "
                   "collinearity test returns NoInitialParameters exactly when the circle through the three template points "
                   "would divide 0/0 (collinear_rejected, over a field); and a panic-site inventory: which unwrap/assert sites of "
                   "track fitting and vertex finding are unreachable by construction, and that the remaining ones fire exactly "
                   "when a NaN reaches a partial_cmp().unwrap() or a cost-function assert (fit_sites_*, vertex_total, "
                   "vertex_panic_sites). Module C14b: the initial-guess stage of the track fit (three_template_points with "
                   "itertools' pairwise minmax and min_by tie rules, the num_complex circle, centre of mass, phi0/theta/h with "
                   "the theta == 0 rule, the 7x6 scipy-style simplex) and the vertex-fit simplex (beamline clusters, mean z, "
                   "4x3) are modelled operation by operation; over an ordered field the collinearity guard is exactly 'both "
                   "complex divisions defined' (guard_iff_circle_defined), the circle is the circumscribed circle with r > 0 "
                   "(circle_correct), the template points are first-min/last-max/first-closest, the simplex is non-degenerate "
                   "in every coordinate, NoInitialParameters is returned iff the selected points are collinear, and the stage "
                   "panics only on < 3 points or a NaN radius deviation. Module C14c: argmin 0.8.1's Nelder-Mead and executor (stable "
                   "sort with the NaN-false comparator, centroid, reflect/expand/contract/shrink, sd termination, IterState's "
                   "best-cost rule), both cost functions and the fit glue are modelled operation by operation; "
                   "Track::try_from(Cluster) and the fitted vertex of find_vertices agree with the model bit for bit; after the "
                   "initial guess the only panic route of either fit is the cost function's NaN assert (fit_panic_iff_full, "
                   "vertex_fit_panic_sites); the result is an evaluated point whose cost is <= that of every initial vertex "
                   "(nm_result_spec), the best cost never increases (nm_best_monotone), at most max_iters iterations "
                   "(nm_terminates_shape).",
        level_note="Partial, said plainly: that no NaN or infinity arises in f64 inside the Newton iteration, hypot/atan2, the "
                   "complex division for nearly collinear points, or argmin's Nelder-Mead cannot be proved here (no IEEE-754 "
                   "semantics in this toolchain); that half is adversarial sampling on the implementation under catch_unwind "
                   "(10 degenerate families x 400, pitch 0/subnormal/1e-17..1e2, 13 k cases quick, 260 k thorough), labelled "
                   "as sampling in the evidence. The C14b model is tied to the code bit for bit through the track/vertex "
                   "fitting hooks (template points, circle, centre of mass, recorded initial simplex, beamline clusters); the "
                   "f64 statement of the guard equivalence fails only outside the property's domain (point separations below "
                   "1e-162 m, DESIGN 13.3 F11, informational); that no NaN/inf arises in-domain in the complex division and "
                   "in Nelder-Mead remains sampling (initial guess and its cost finite in every sampled case).",
        technique="Lean 4 theorems on the combinatorial/algebraic logic, the initial guess (ordered field) and argmin's "
                  "Nelder-Mead (order laws only) + panic-site inventory + bit-exact correspondence of the initial guess, the "
                  "simplex, Nelder-Mead and both fits; adversarial sampling of the f64 behaviour on the implementation",
        design_ref="DESIGN.md section 6, C14",
        rule="cases: fits of clusters from ten degenerate families (exactly/nearly collinear with perturbations 1e-18..1e-2, "
             "repeated points, equal radii, vertical lines, circles through the origin, dyadic grids, ...), find_vertices on "
             "helices with pitch 0, subnormal, +-1e-17..+-1e2, closest_t sweeps; plus the clustering replay of C15; distinct by "
             "request line",
        assumptions=["argmin Nelder-Mead and libm are uninterpreted", "IEEE comparison semantics: a comparison with NaN is false, partial_cmp with NaN is None",
                     "libm sin/cos/atan2/hypot are the same functions on both sides (the driver binds C hypot via @[extern], as core does for atan2)",
                     "uom quantities are the identity on SI base values; f64::sum starts from -0.0",
                     "C14c: order laws of f64 on non-NaN values (OrdLaws); the cost (a -0.0-started sum of squares) is NaN only if a "
                     "squared distance is (hypothesis of fit_no_panic_of_no_nan; whether a NaN arises in-domain is sampled); the std "
                     "stable sort is an insertion sort for <= 20 elements (7 / 4 vertices here)",
                     "sort_unstable_by is modelled by a stable insertion sort (order among equal keys unspecified; generators use identical tracks for ties)"],
    ),
    "C10": dict(
        lean_modules=["AlphaG.Props.C10", "AlphaG.Props.RunHistory"],
        required_theorems=["AlphaG.RunHistory." + t + sfx for t in RUN_HISTORY for sfx in ("_history", "_simulation")]
            + ["AlphaG.RunHistory.pwb_swaps_10418"]
            + ["AlphaG.C10." + t for t in [
            "assembly_spec", "assembly_accepts_iff", "assembly_ignores", "assembly_rejects_unknown_name",
            "assembly_rejects_malformed_payload", "assembly_rejects_malformed_pwb_packet", "assembly_rejects_bv_channel",
            "assembly_rejects_wire_channel_mismatch", "assembly_rejects_wire_board_mismatch",
            "assembly_rejects_pad_board_mismatch", "assembly_rejects_packet_identity_mismatch",
            "assembly_rejects_duplicate_wire_bank", "assembly_rejects_missing_trg", "assembly_rejects_duplicate_trg",
            "assembly_rejects_duplicate_chunk_id", "assembly_rejects_missing_wire_map_or_calibration",
            "assembly_rejects_missing_pad_map_or_calibration"]],
        harness=[("c10", ["dev"]), ("c08", ["dev"])],
        level_text="Lean theorems for every bank list and run number: on success each wire slot holds exactly the expected signal "
                   "(the unique C-bank whose decoded (board, channel) maps to that wire, leading delay samples dropped, "
                   "(raw - baseline) * gain; empty otherwise), each pad slot likewise through (board, chip, pad channel), the "
                   "timestamp is the TRG packet's (assembly_spec); success is characterised exactly by an order-free "
                   "predicate (assembly_accepts_iff), with one rejection theorem per cause named in the property (unknown "
                   "name, name/payload mismatch, BV channel, duplicates, missing TRG, malformed payloads, missing map or "
                   "calibration, packet identity); B-banks, TRBA and MCVX are ignored. Composes the decoder models of C02-C06 "
                   "and the maps of C08.",
        level_text_extra="Which calibration and which map a run number selects is proved equal to the documented run history "
                         "up to the horizon (Props/RunHistory).",
        level_note="Calibration values (baseline i16, gain f64 bits) are dumped from the built code through the hooks and "
                   "cross-checked by the translator against an independent parse of the JSON/RON data files (baselines equal, "
                   "gains within 1 ulp); serde_json/ron parsing is thereby trusted only up to that cross-check. HashMap "
                   "iteration order is an explicit parameter of the model. The model is tied to try_from_banks + the "
                   "verif_signals hook bit-exactly over all (board, channel) pairs / installed (board, chip, channel) triples "
                   "and all 25 run classes, with every inconsistency injected. Repaired defects F2, F6, F10 are reported again "
                   "if they return.",
        technique="Lean 4 theorems over a compositional hand-written model (generated maps and calibration tables) + bit-exact "
                  "differential correspondence check through a read-only hook",
        design_ref="DESIGN.md section 6, C10",
        rule="cases: element sweeps over all 256 wire channels and all installed pad triples per calibration run class "
             "(every threshold +-1), 33 injection generators (renamed/swapped/duplicated banks, missing TRG, BV channel, board "
             "not installed, malformed payloads, lost chunks, ignored banks, empty-after-delay, the former F6 and F10 input "
             "classes); distinct by request line",
        assumptions=["uom quantities are the identity on SI base values", "HashMap::into_iter order is arbitrary (model parameter)"],
    ),
    "C09": dict(
        lean_modules=["AlphaG.Props.C09", "AlphaG.Props.C09b", "AlphaG.Props.C09bStages", "AlphaG.Props.C09bExamples",
                      "AlphaG.Lemmas.VertexPipeline", "AlphaG.Lemmas.VertexPipelineAval", "AlphaG.Lemmas.VertexPipelineCluster"],
        required_theorems=["AlphaG.C09." + t for t in [
            "buildEvent_total", "timestamp_total", "avalanches_wire_range", "avalanches_column_lt"]]
            + ["AlphaG.VertexPipeline." + t for t in [
                "vertex_panic_stage", "vertex_panic_sites", "vertex_panic_site_mem", "vertex_total_of_no_nan",
                "vertex_result_spec", "run_panic", "tablesAt_panic", "stageClusters_panic", "stageVertex_panic",
                "Examples.xLawsAll", "Examples.evNaN_panics", "Examples.evOne_total"]],
        harness=[("c09", ["dev", "release"]), ("c09b", ["dev"]), ("c19", ["dev"])],
        needs_binaries=True,
        disagreement_is_failing_input=False,
        disagreement_failing_modules=["c09b"],
        oracle_failing_regex=r"panic|rows for|failed on a valid run",
        level_text="Lean theorem: building a main event never panics, for every bank list, run number and HashMap order "
                   "(buildEvent_total: every unwrap/index site of try_from_banks incl. the i32 calibration arithmetic and slot "
                   "indices), composing the totality theorems of all decoders (C01); timestamp is total; the non-float panic "
                   "sites of avalanches() that are index arithmetic are proved dead (8-wire ranges with first <= 248, column "
                   "index < 32). MainEvent::vertex() is modelled as the composition of its five stage models (avalanches, drift lookup, "
                   "Hough clustering, Nelder-Mead track fit, vertex fit with the remainder loop): its panics are inventoried "
                   "exhaustively over any carrier (vertex_panic_sites: 14 sites, each with its trigger - a failing Cholesky "
                   "pivot, a NaN z in the drift lookup, a point that is not == itself, < 3 points / NaN radius deviation / NaN "
                   "squared distance in the track fit, NaN keys in the beamline sort or max_by, the vertex cost NaN assert, a "
                   "track that is not == itself), it is total when no trigger occurs (vertex_total_of_no_nan), the Cholesky "
                   "site is dead over any ordered field (pivot_never_fails_exact), and a returned vertex is characterised "
                   "(vertex_result_spec: best evaluated point of the vertex fit over >= 2 filtered tracks, each fitted from a "
                   "cluster of >= 13 space points, each from an avalanche of the event).",
        level_note="Partial: that f64 satisfies the named carrier laws and that no NaN or failed pivot arises on in-domain "
                   "signals - i.e. that none of the 14 inventoried triggers occurs in f64 - cannot be proved here (no IEEE-754 "
                   "semantics) and is sampled. Module c09b compares the real vertex() with the composed model: bit-exact on "
                   "every event downstream of the wire deconvolution (request vertexx); end to end the bits are not reproducible "
                   "by a model with a different Cholesky rounding, because ~1e-13 residual 'dust' inputs pass the > 0.0 test of "
                   "the matching and become space points (observation recorded in DESIGN 13.3, not a violation of C09); "
                   "avalanches() and vertex() are run under catch_unwind in dev and release builds on random, extreme-valued "
                   "(i16::MIN/MAX samples, requested 0/1/511, all 79 channels, lengths around the delay) and simulated track "
                   "events — sampling, labelled as such. The last clause of the property (the vertex program emits a row for "
                   "every event serial number) is checked on the real alpha-g-vertices binary by module c19 (one row per main "
                   "event whatever events fail to assemble, thread counts 1/2/5/16). Repaired defect F2 is reported again if it "
                   "returns.",
        technique="Lean 4 theorems: totality of event assembly over the compositional event model; for the composed model of "
                  "vertex() an exhaustive panic-site inventory, totality without triggers and a characterisation of the result, "
                  "over any carrier + correspondence check (bit-exact downstream of the wire deconvolution) + adversarial sampling "
                  "of the float pipeline under catch_unwind (dev + release) + the real alpha-g-vertices binary on generated runs",
        design_ref="DESIGN.md section 6, C09",
        rule="cases: random bank names x bytes, extreme-valued CRC-valid events at every run class, duplicated/missing/"
             "foreign banks, simulated track events; each runs try_from_banks, timestamp, avalanches, vertex; distinct by "
             "request line",
        assumptions=["faer's Cholesky agrees with the model's textbook one only to rounding (tied to 1e-12 by c13b); dust avalanches "
                     "make vertex() sensitive to that, so end-to-end vertex bits are compared only when the avalanche lists agree",
                     "libm functions of Lean's Float are the C library's, as Rust's"],
    ),
    "C11": dict(
        lean_modules=["AlphaG.Props.C11"],
        required_theorems=["AlphaG.C11." + t for t in [
            "build_perm_invariant", "build_order_invariant", "results_function_of_event", "results_perm_invariant"]],
        harness=[("c11", ["dev"])],
        disagreement_is_failing_input=False,
        level_text="Lean theorem at full strength: for any permutation of the bank list and any two HashMap iteration orders "
                   "the build succeeds or fails alike and on success yields equal events (build_perm_invariant — uses the "
                   "permutation invariance of chunk reassembly (C04), the injectivity of the wire and pad maps (C08) and the "
                   "order-free acceptance predicate of C10); timestamp, avalanches and vertex are functions of the event "
                   "value. The explicit iteration-order parameter of the model is what exposed the nondeterminism F10/X3, "
                   "now repaired.",
        level_note="Partial: bit-for-bit reproducibility across threads and processes (absence of hidden state in argmin, "
                   "faer, indexmap, lazy_static) is a runtime matter no theorem here reaches; it is sampled: every event is "
                   "recomputed under all adjacent transpositions, the reversal and 50 random permutations, on 4 threads and in "
                   "3 fresh child processes (fresh HashMap seeds), comparing (timestamp, avalanches, vertex) bit patterns.",
        technique="Lean 4 theorem (permutation invariance with an explicit hash-order parameter) + schedule/process sampling "
                  "on the implementation",
        design_ref="DESIGN.md section 6, C11",
        rule="cases: events (well-formed, malformed, with duplicates, simulated tracks) x adjacent transpositions, reversal, 50 "
             "random permutations; 4 threads; 3 child processes; distinct by request line",
        assumptions=["child processes are started from the harness binary itself (current_exe)"],
    ),
}
