#!/bin/bash
# Evaluate a seeded change without touching /repo: apply it in a scratch worktree and run the
# checks of the given properties against that worktree (seed-evaluation mode of ./check).
#   ./tools_seed_eval.sh <patch.diff> <Cxx> [<Cyy> ...]
set -u
patch="$1"; shift
wt=/tmp/eval-wt-$$
git -C /repo worktree add -q --detach "$wt" HEAD || exit 2
if ! git -C "$wt" apply "$patch"; then echo "patch does not apply"; git -C /repo worktree remove --force "$wt"; exit 2; fi
rc=0
for p in "$@"; do
  VERIF_REPO="$wt" /verif/check "$p" --tier quick 2>&1 | grep -E "VIOLATION|KNOWN-FINDING|problem \[|^\[check\] C[0-9]+:" | cut -c1-400
done
git -C /repo worktree remove --force "$wt"
# Generated tables and the float-table dump were regenerated from the worktree: restore them from /repo
flock /verif/.cache/check.lock sh -c '/verif/.cache/target_check/debug/corr dump-tables --out /verif/.cache/tables.json >/dev/null 2>&1; python3 /verif/translator/extract.py >/dev/null'
exit $rc
