#!/usr/bin/env python3
"""
Process one seeded change delivered by a seed agent in /tmp/seed-<p>-out:
  1. confirm it in a scratch worktree of /repo: the demonstration (an integration test) passes on
     HEAD, fails with the change, and the existing test-suite passes with the change;
  2. run the given checks against the change (seed evaluation mode, /repo untouched);
  3. store it under /verif/seeded/<ID>-<i>/ with meta.json.
Usage: tools_seed_process.py <cxx> <i> <check ids...>
"""
import json, os, shutil, subprocess, sys, re

def sh(cmd, cwd=None, env=None, timeout=3600):
    p = subprocess.run(cmd, shell=True, cwd=cwd, env=env, stdout=subprocess.PIPE, stderr=subprocess.STDOUT, text=True, timeout=timeout)
    return p.returncode, p.stdout

def main():
    p, i = sys.argv[1], sys.argv[2]
    checks = sys.argv[3:]
    P = p.upper()
    store_i = i
    if p[-1] in "bcdefgh":   # later rounds: c06b -> property C06, stored as C06-3, C06-4, ...
        P = p[:-1].upper()
        store_i = str(int(i) + 2 * (ord(p[-1]) - ord("a")))
    src = f"/tmp/seed-{p}-out"
    meta = json.load(open(f"{src}/meta{i}.json"))
    patch = f"{src}/change{i}.diff"
    demo = f"{src}/demo{i}.rs"
    cdir = meta.get("crate_dir", "detector")
    pkg = meta.get("package", {"detector": "alpha_g_detector", "physics": "alpha_g_physics", "analysis": "alpha-g-analysis"}[cdir])
    rf = meta.get("needs_rustflags", "") or ""
    release = "--release" if "release" in json.dumps(meta).lower() and meta.get("demo_profile", "") == "release" else ""
    wt = f"/tmp/confirm-wt-{os.getpid()}"
    env = dict(os.environ, CARGO_TARGET_DIR="/tmp/confirm-target", CARGO_NET_OFFLINE="true")
    envd = dict(env, RUSTFLAGS=rf) if rf else env
    sh(f"git -C /repo worktree add -q --detach {wt} HEAD")
    res = {}
    try:
        os.makedirs(f"{wt}/{cdir}/tests", exist_ok=True)
        shutil.copy(demo, f"{wt}/{cdir}/tests/seed_demo.rs")
        rc1, o1 = sh(f"cargo test -p {pkg} --offline {release} --test seed_demo", cwd=wt, env=envd)
        rca, oa = sh(f"git apply {patch}", cwd=wt)
        rc2, o2 = sh(f"cargo test -p {pkg} --offline {release} --test seed_demo", cwd=wt, env=envd)
        os.remove(f"{wt}/{cdir}/tests/seed_demo.rs")
        try: os.rmdir(f"{wt}/{cdir}/tests")
        except OSError: pass
        rc3, o3 = sh("cargo test --workspace --offline", cwd=wt, env=env)
        passed = sum(int(x) for x in re.findall(r"test result: \w+\. (\d+) passed", o3))
        failed = sum(int(x) for x in re.findall(r"test result: .*?(\d+) failed", o3))
        res = dict(demo_on_head_rc=rc1, patch_applies=(rca == 0), demo_with_change_rc=rc2, tests_rc=rc3, tests_passed=passed, tests_failed=failed)
        print("confirm:", res)
        if rc1 != 0: print(o1[-1500:])
        if rc2 == 0: print("DEMO DOES NOT FAIL WITH THE CHANGE"); print(o2[-800:])
    finally:
        sh(f"git -C /repo worktree remove --force {wt}")
    confirmed = res.get("demo_on_head_rc") == 0 and res.get("patch_applies") and res.get("demo_with_change_rc") != 0 and res.get("tests_rc") == 0
    detected = {}
    for c in checks:
        rc, out = sh(f"/verif/tools_seed_eval.sh {patch} {c}", timeout=7200)
        lines = [l for l in out.splitlines() if "VIOLATION" in l or "problem [" in l or l.startswith("[check] C")]
        v = [l for l in lines if "VIOLATION" in l]
        detected[c] = {"violation": bool(v), "no_failing_input_found": any("no-failing-input-found" in l for l in v),
                       "first_problems": [l[:300] for l in lines if "problem [" in l][:3]}
        print(c, "->", "VIOLATION" if v else "not detected", v[:1], *[l[:260] for l in lines if "problem [" in l][:2], sep="\n   ")
    if confirmed:
        d = f"/verif/seeded/{P}-{store_i}"
        os.makedirs(d, exist_ok=True)
        shutil.copy(patch, f"{d}/patch.diff")
        shutil.copy(demo, f"{d}/demo.rs")
        json.dump({
            "property": P, "summary": meta.get("summary"), "what_it_needs_to_manifest": meta.get("what_it_needs_to_manifest"),
            "files_touched": meta.get("files_touched"), "demo": {"file": "demo.rs", "place_as": f"{cdir}/tests/seed_demo.rs",
            "run": (("RUSTFLAGS='" + rf + "' ") if rf else "") + f"cargo test -p {pkg} --offline {release} --test seed_demo"},
            "author": "independent sub-agent given only the property text and a scratch worktree",
            "confirmed_by_me": res, "checks_run": detected,
            "detected_by": [c for c, r in detected.items() if r["violation"]],
        }, open(f"{d}/meta.json", "w"), indent=1)
        print("stored", d)
    else:
        print("NOT CONFIRMED, not stored")

main()
