#!/usr/bin/env python3
"""Regenerate the table of DESIGN.md section 13.4 from /verif/seeded/*/meta.json."""
import json, glob, re
rows = []
for f in sorted(glob.glob('/verif/seeded/*/meta.json'), key=lambda x: (x.split('/')[-2].split('-')[0], int(x.split('/')[-2].split('-')[1]))):
    m = json.load(open(f)); sid = f.split('/')[-2]
    summ = (m.get('summary') or '').replace('|', '/').replace('\n', ' ')
    summ = ''.join(c if ord(c) >= 32 else '\\x%02x' % ord(c) for c in summ)
    if len(summ) > 210: summ = summ[:207] + '…'
    cr = m.get('checks_run')
    if cr:
        det = ', '.join(f"{c}{' (no failing input)' if r['no_failing_input_found'] else ''}" for c, r in cr.items() if r['violation']) or '**none**'
        missed = ', '.join(c for c, r in cr.items() if not r['violation'])
        how = '; '.join(sorted({re.sub(r'^\[check\] problem ', '', p)[:110] for r in cr.values() for p in r['first_problems'][:1]}))
    else:
        det = ', '.join(m.get('detected_by', [])); missed = ''; how = m.get('how_detected', '')[:160]
    rows.append(f"| {sid} | {summ} | {det}{(' — not by ' + missed) if missed else ''} | {how.replace('|','/')} |")
table = "| seed | change | caught by | first problem reported |\n|---|---|---|---|\n" + "\n".join(rows) + "\n"
p = '/verif/DESIGN.md'
s = open(p).read()
if '<!-- SEEDS-BEGIN -->' in s:
    s = re.sub(r'<!-- SEEDS-BEGIN -->.*?<!-- SEEDS-END -->', lambda _m: '<!-- SEEDS-BEGIN -->\n' + table + '<!-- SEEDS-END -->', s, flags=re.S)
else:
    i = s.index('| seed | change | caught by | how |')
    s = s[:i] + '<!-- SEEDS-BEGIN -->\n' + table + '<!-- SEEDS-END -->\n'
open(p, 'w').write(s)
print(len(rows), "seeds")

# ---- section 13.8: behaviour-preserving refactorings
rows = []
for f in sorted(glob.glob('/verif/benign/*/meta.json'), key=lambda x: int(x.split('/')[-2].split('-')[-1])):
    m = json.load(open(f)); bid = f.split('/')[-2]
    summ = (m.get('summary') or '').replace('|', '/').replace('\n', ' ')
    if len(summ) > 200: summ = summ[:197] + '…'
    first = m.get('first_evaluation')
    cur = m.get('checks_run', {})
    def fmt(cr):
        return ', '.join(f"{c}: {'ALARM' if r['violation'] else 'quiet'}" for c, r in cr.items())
    rows.append(f"| {bid} | {', '.join(m.get('files_touched', []))} | {summ} | {fmt(first) if first else fmt(cur)} | {fmt(cur) if first else ''} |")
table = ("| id | files | change | first evaluation | after the translator was corrected |\n|---|---|---|---|---|\n" + "\n".join(rows) + "\n")
s = open(p).read()
s = re.sub(r'<!-- BENIGN-BEGIN -->.*?<!-- BENIGN-END -->', lambda _m: '<!-- BENIGN-BEGIN -->\n' + table + '<!-- BENIGN-END -->', s, flags=re.S)
open(p, 'w').write(s)
print(len(rows), "benign refactorings")

# ---- section 13.9: mutation sweeps
import collections
triage = {}
if glob.glob('/verif/mutants/triage.json'):
    triage = json.load(open('/verif/mutants/triage.json'))
per = collections.OrderedDict()
missed = []
for f in sorted(glob.glob('/verif/mutants/*/results.jsonl')):
    for l in open(f):
        try:
            r = json.loads(l)
        except Exception:
            continue
        d = per.setdefault(r['file'], collections.Counter())
        d['mutants'] += 1
        if r['status'] == 'survives-tests':
            d['survive the tests'] += 1
            if r.get('caught'):
                d['caught'] += 1
            else:
                d['missed'] += 1
                missed.append(r)
        else:
            d[r['status']] += 1
t = "| file | mutants | do not compile | killed by the unit tests | survive the tests | caught by the checks | missed |\n|---|---|---|---|---|---|---|\n"
for f, d in per.items():
    t += f"| {f} | {d['mutants']} | {d['does-not-compile']} | {d['killed-by-tests']} | {d['survive the tests']} | {d['caught']} | {d['missed']} |\n"
tot = collections.Counter()
for d in per.values():
    tot.update(d)
t += f"| **total** | {tot['mutants']} | {tot['does-not-compile']} | {tot['killed-by-tests']} | {tot['survive the tests']} | {tot['caught']} | {tot['missed']} |\n\n"
if missed:
    t += "Survivors of both the tests and the checks, with the verdict of the manual triage:\n\n| mutant | change | checks run | verdict |\n|---|---|---|---|\n"
    for r in missed:
        t += f"| {r['id']} | `{r['old'][:70]}` → `{r['new'][:70]}` | {', '.join(r.get('checks', {}))} | {triage.get(r['id'], 'not yet triaged')} |\n"
s = open(p).read()
s = re.sub(r'<!-- MUTANTS-BEGIN -->.*?<!-- MUTANTS-END -->', lambda m: '<!-- MUTANTS-BEGIN -->\n' + t + '<!-- MUTANTS-END -->', s, flags=re.S)
open(p, 'w').write(s)
print(tot['mutants'], "mutants,", len(missed), "missed")
