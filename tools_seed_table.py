#!/usr/bin/env python3
"""Regenerate the table of DESIGN.md section 13.4 from /verif/seeded/*/meta.json."""
import json, glob, re
rows = []
for f in sorted(glob.glob('/verif/seeded/*/meta.json'), key=lambda x: (x.split('/')[-2].split('-')[0], int(x.split('/')[-2].split('-')[1]))):
    m = json.load(open(f)); sid = f.split('/')[-2]
    summ = (m.get('summary') or '').replace('|', '/').replace('\n', ' ')
    if len(summ) > 210: summ = summ[:207] + '…'
    cr = m.get('checks_run')
    if cr:
        det = ', '.join(f"{c}{' (no failing input)' if r['no_failing_input_found'] else ''}" for c, r in cr.items() if r['violation']) or '**none**'
        missed = ', '.join(c for c, r in cr.items() if not r['violation'])
        how = '; '.join(sorted({re.sub(r'^\[check\] problem ', '', p)[:110] for r in cr.values() for p in r['first_problems'][:1]}))
    else:
        det = ', '.join(m.get('detected_by', [])); missed = ''; how = m.get('how_detected', '')[:160]
    rows.append(f"| {sid} | {summ} | {det}{(' — not by ' + missed) if missed else ''} | {how.replace('|','/')} |")
table = "| seed | change | caught by | first problem reported |\n|---|---|---|---|\n" + "\n".join(rows) + "\n"
p = '/verif/DESIGN.md'
s = open(p).read()
if '<!-- SEEDS-BEGIN -->' in s:
    s = re.sub(r'<!-- SEEDS-BEGIN -->.*?<!-- SEEDS-END -->', '<!-- SEEDS-BEGIN -->\n' + table + '<!-- SEEDS-END -->', s, flags=re.S)
else:
    i = s.index('| seed | change | caught by | how |')
    s = s[:i] + '<!-- SEEDS-BEGIN -->\n' + table + '<!-- SEEDS-END -->\n'
open(p, 'w').write(s)
print(len(rows), "seeds")

# ---- section 13.8: behaviour-preserving refactorings
rows = []
for f in sorted(glob.glob('/verif/benign/*/meta.json'), key=lambda x: int(x.split('/')[-2].split('-')[-1])):
    m = json.load(open(f)); bid = f.split('/')[-2]
    summ = (m.get('summary') or '').replace('|', '/').replace('\n', ' ')
    if len(summ) > 200: summ = summ[:197] + '…'
    first = m.get('first_evaluation')
    cur = m.get('checks_run', {})
    def fmt(cr):
        return ', '.join(f"{c}: {'ALARM' if r['violation'] else 'quiet'}" for c, r in cr.items())
    rows.append(f"| {bid} | {', '.join(m.get('files_touched', []))} | {summ} | {fmt(first) if first else fmt(cur)} | {fmt(cur) if first else ''} |")
table = ("| id | files | change | first evaluation | after the translator was corrected |\n|---|---|---|---|---|\n" + "\n".join(rows) + "\n")
s = open(p).read()
s = re.sub(r'<!-- BENIGN-BEGIN -->.*?<!-- BENIGN-END -->', '<!-- BENIGN-BEGIN -->\n' + table + '<!-- BENIGN-END -->', s, flags=re.S)
open(p, 'w').write(s)
print(len(rows), "benign refactorings")
