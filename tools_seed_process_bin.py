#!/usr/bin/env python3
"""Like tools_seed_process.py for seeds whose demonstration is a script driving the analysis binaries.
Usage: tools_seed_process_bin.py <out-dir> <i> <STORE-ID e.g. C19-3> <check ids...>
The demo is <out-dir>/demo<i>/run.sh (or <out-dir>/demo<i> itself if it is a file); it gets BIN_DIR and SRC."""
import json, os, shutil, subprocess, sys, re
def sh(cmd, cwd=None, env=None, timeout=3600):
    p = subprocess.run(cmd, shell=True, cwd=cwd, env=env, stdout=subprocess.PIPE, stderr=subprocess.STDOUT, text=True, timeout=timeout)
    return p.returncode, p.stdout
src, i, sid = sys.argv[1], sys.argv[2], sys.argv[3]
checks = sys.argv[4:]
meta = json.load(open(f"{src}/meta{i}.json"))
patch = f"{src}/change{i}.diff"
demo = f"{src}/demo{i}"
democmd = f"sh {demo}/run.sh" if os.path.isdir(demo) else (f"python3 {demo} $BIN_DIR" if open(demo).readline().startswith("#!") and "python" in open(demo).readline() + open(demo).read(200) else f"sh {demo}")
wt = f"/tmp/confirm-wt-{os.getpid()}"
env = dict(os.environ, CARGO_TARGET_DIR="/tmp/confirm-target", CARGO_NET_OFFLINE="true", SRC=wt, BIN_DIR="/tmp/confirm-target/release",
           CHRONOBOX_BIN="/tmp/confirm-target/release/alpha-g-chronobox-timestamps")
sh(f"git -C /repo worktree add -q --detach {wt} HEAD")
res = {}
try:
    rb1, _ = sh("cargo build --release --offline -p alpha-g-analysis", cwd=wt, env=env)
    rc1, o1 = sh(democmd, cwd=wt, env=env)
    rca, _ = sh(f"git apply {patch}", cwd=wt)
    rb2, _ = sh("cargo build --release --offline -p alpha-g-analysis", cwd=wt, env=env)
    rc2, o2 = sh(democmd, cwd=wt, env=env)
    rc3, o3 = sh("cargo test --workspace --offline", cwd=wt, env=env)
    passed = sum(int(x) for x in re.findall(r"test result: \w+\. (\d+) passed", o3))
    failed = sum(int(x) for x in re.findall(r"test result: .*?(\d+) failed", o3))
    res = dict(demo_on_head_rc=rc1, patch_applies=(rca == 0), builds=(rb1 == 0 and rb2 == 0), demo_with_change_rc=rc2, tests_rc=rc3, tests_passed=passed, tests_failed=failed)
    print("confirm:", res)
    if rc1 != 0: print(o1[-1200:])
    if rc2 == 0: print("DEMO DOES NOT FAIL WITH THE CHANGE", o2[-600:])
finally:
    sh(f"git -C /repo worktree remove --force {wt}")
confirmed = res.get("demo_on_head_rc") == 0 and res.get("patch_applies") and res.get("demo_with_change_rc") != 0 and res.get("tests_rc") == 0
detected = {}
for c in checks:
    rc, out = sh(f"/verif/tools_seed_eval.sh {patch} {c}", timeout=7200)
    lines = [l for l in out.splitlines() if "VIOLATION" in l or "problem [" in l or l.startswith("[check] C")]
    v = [l for l in lines if "VIOLATION" in l]
    detected[c] = {"violation": bool(v), "no_failing_input_found": any("no-failing-input-found" in l for l in v),
                   "first_problems": [l[:300] for l in lines if "problem [" in l][:3]}
    print(c, "->", "VIOLATION" if v else "not detected", *[l[:260] for l in lines if "problem [" in l][:2], sep="\n   ")
if confirmed:
    d = f"/verif/seeded/{sid}"
    os.makedirs(d, exist_ok=True)
    shutil.copy(patch, f"{d}/patch.diff")
    if os.path.isdir(demo): shutil.copytree(demo, f"{d}/demo", dirs_exist_ok=True)
    else: shutil.copy(demo, f"{d}/demo")
    json.dump({"property": sid.split('-')[0], "summary": meta.get("summary"), "what_it_needs_to_manifest": meta.get("what_it_needs_to_manifest"),
               "files_touched": meta.get("files_touched"), "demo": {"run": "BIN_DIR=<dir with the release binaries> sh demo/run.sh (exit 0 = property holds)"},
               "author": "independent sub-agent given only the property text and a scratch worktree (second round)",
               "confirmed_by_me": res, "checks_run": detected, "detected_by": [c for c, r in detected.items() if r["violation"]]},
              open(f"{d}/meta.json", "w"), indent=1)
    print("stored", d)
else:
    print("NOT CONFIRMED, not stored")
