#!/bin/bash
# Manual `lake build` that cannot race with a running check / seed evaluation: takes the check lock,
# regenerates the generated tables from /repo, then builds the given targets.
exec flock /verif/.cache/check.lock sh -c 'cd /verif && .cache/target_check/debug/corr dump-tables --out .cache/tables.json >/dev/null 2>&1; python3 translator/extract.py >/dev/null; cd lean && lake build "$@"' sh "$@"
