#!/usr/bin/env python3
"""Write the instruction file of a seed agent for a further round of one property:
tools_seed_prompt.py <cxx><letter>  (e.g. c09b, c10c) -> /tmp/seed_prompt_<p>.txt, /tmp/prop-CXX.txt,
worktree /tmp/seed-<p>, output directory /tmp/seed-<p>-out.  The agent sees only the property text
and the summaries of earlier seeds (so that it does not repeat them) - nothing from /verif."""
import glob, json, os, subprocess, sys
p = sys.argv[1]; cid = p[:3].upper()
tmpl = open("/verif/tools_seed_prompt_template.txt").read()
props = {json.loads(l)["id"]: json.loads(l) for l in open("/verif/properties.jsonl")}
o = props[cid]
open(f"/tmp/prop-{cid}.txt", "w").write(
    f"{cid}: {o['title']}\n\nSTATEMENT: {o['statement']}\n\nQUANTIFIER ({', '.join(o['quantifier']['over'])}): "
    f"{o['quantifier']['text']}\n\nCODE ANCHORS: {', '.join(o['anchors']['files'])}\n")
earlier = []
for m in sorted(glob.glob(f"/verif/seeded/{cid}-*/meta.json")):
    earlier.append("  - " + json.load(open(m)).get("summary", "").strip())
txt = tmpl.replace("@P@", p).replace("@CID@", cid).replace("@EARLIER@", "\n".join(earlier))
open(f"/tmp/seed_prompt_{p}.txt", "w").write(txt)
os.makedirs(f"/tmp/seed-{p}-out", exist_ok=True)
if not os.path.isdir(f"/tmp/seed-{p}"):
    subprocess.run(["git", "-C", "/repo", "worktree", "add", "--detach", f"/tmp/seed-{p}", "HEAD"], check=True, stdout=subprocess.DEVNULL)
print(f"/tmp/seed_prompt_{p}.txt", len(earlier), "earlier seeds")
