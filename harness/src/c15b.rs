//! C15b: the concrete ingredients of `cluster_spacepoints` — `get_bins`, `SpacePoint::distance`,
//! `SpacePoint ==` — and the whole clustering computed by the Lean model from the points alone.
//!
//! * `bins <r> <phi> <z> <rho_bins> <theta_bins>` (f64 bit patterns, hex): the real
//!   `HoughSpaceAccumulator::get_bins` (hook `verif_get_bins`) against `Hough.getBins` over
//!   `Float`, bit for bit (same bins, same order). Independent oracles on the real output: no
//!   bin twice, `theta < theta_bins`, the bins of one `theta` are one ascending run, `rho <=
//!   rho_bins` for points outside the inner cathode, and a geometric check written from the
//!   comment in the source (`rho = u cos(theta) + v sin(theta) = cos(theta - phi) / r`) with a
//!   tolerance; for `==` twins (`-0.0`/`0.0`) the two real bin lists must be identical.
//! * `dist …`: `distance` both ways and `<= max_distance` both ways.
//! * `clusterx <min> <rho_bins> <theta_bins> <max> <points>`: the real
//!   `cluster_spacepoints` against `Hough.clusterX` (bins, adjacency and `==` all computed by
//!   the model); clusters and remainder must agree **in order**. `clusterx-id`: the same without
//!   the driver's renaming of bin codes (small clouds).
//! * `casti32 <x>`: Rust's `x.floor() as i32` against the carrier operation `floorI32` of the
//!   `Float` instance; `consts`: `Angle::FULL_TURN`, `1.0 / INNER_CATHODE_RADIUS`;
//!   `eqlaws a a' b c`: the carrier laws the theorems of Props/C15b assume, evaluated on `f64`
//!   here and on Lean's `Float` in the driver (both must say `ok`).
//!
//! `get_bins` pushes `|rho_bin - prev_rho_bin| + 1` bins per theta step: for points far inside
//! the inner cathode (`|rho| / delta_rho` up to `2^31` after the saturating cast) that is an
//! allocation of gigabytes, so requests whose bound `theta_bins * (R_cathode * rho_bins / |r| + 2)`
//! exceeds `MAX_BINS` are not generated (counted in `notes.skipped_too_many_bins`).
use crate::{guarded, Rng, Session};
use alpha_g_detector::alpha16::aw_map::INNER_CATHODE_RADIUS as RC;
use alpha_g_physics::verif::reconstruction as hook;
use alpha_g_physics::SpacePoint;
use std::collections::{HashMap, HashSet};
use std::f64::consts::PI;
use uom::si::f64::Length;

const MAX_BINS: f64 = 150_000.0;

pub fn sp(r: f64, phi: f64, z: f64) -> SpacePoint {
    let mut p = SpacePoint { r: Default::default(), phi: Default::default(), z: Default::default() };
    p.r.value = r;
    p.phi.value = phi;
    p.z.value = z;
    p
}

fn sp_xyz(x: f64, y: f64, z: f64) -> SpacePoint {
    sp(x.hypot(y), y.atan2(x), z)
}

fn length(v: f64) -> Length {
    let mut l = Length::default();
    l.value = v;
    l
}

fn hx(x: f64) -> String {
    format!("{:x}", x.to_bits())
}

/// Bit pattern of a result; every NaN prints as the canonical quiet NaN (Lean's `Float.toBits`
/// does the same — the sign/payload of a NaN result is not compared).
fn hx_out(x: f64) -> String {
    if x.is_nan() {
        "7ff8000000000000".to_string()
    } else {
        hx(x)
    }
}

fn unhx(s: &str) -> Option<f64> {
    u64::from_str_radix(s, 16).ok().map(f64::from_bits)
}

/// Upper bound of the number of bins `get_bins` pushes, from `|rho| <= 1 / |r|`.
fn bins_bound(r: f64, rho_bins: u32, theta_bins: u32) -> f64 {
    let per_step = if r.is_nan() || r.is_infinite() || r == 0.0 {
        // u, v are NaN (0/0, inf/inf): every rho bin is `NaN as i32 = 0`
        2.0
    } else {
        RC * rho_bins as f64 / r.abs() * 1.001 + 2.0
    };
    per_step * theta_bins.max(1) as f64
}

pub fn bins_safe(r: f64, rho_bins: u32, theta_bins: u32) -> bool {
    let b = bins_bound(r, rho_bins, theta_bins);
    b.is_finite() && b <= MAX_BINS
}

fn show_bins(b: &[(u32, u32)]) -> String {
    if b.is_empty() {
        "-".to_string()
    } else {
        b.iter().map(|(t, r)| format!("{t}:{r}")).collect::<Vec<_>>().join(",")
    }
}

fn real_bins(p: SpacePoint, rho_bins: u32, theta_bins: u32) -> Result<Vec<(u32, u32)>, String> {
    guarded(|| hook::verif_get_bins(p, rho_bins, theta_bins))
}

/// Oracles on the real bins of one point, independent of the Lean model.
fn bins_oracle(p: SpacePoint, rho_bins: u32, theta_bins: u32, bins: &[(u32, u32)]) -> Option<String> {
    let (r, phi) = (p.r.value, p.phi.value);
    let mut seen = HashSet::with_capacity(bins.len());
    for b in bins {
        if !seen.insert(*b) {
            return Some(format!("bin {}:{} listed twice", b.0, b.1));
        }
        if b.0 >= theta_bins {
            return Some(format!("theta index {} >= theta_bins {}", b.0, theta_bins));
        }
        if b.1 > i32::MAX as u32 {
            return Some(format!("rho index {} is not a non-negative i32", b.1));
        }
    }
    for w in bins.windows(2) {
        let ok = (w[1].0 == w[0].0 && w[1].1 == w[0].1 + 1) || w[1].0 > w[0].0;
        if !ok {
            return Some(format!("bins {}:{} then {}:{}: not ascending runs per theta", w[0].0, w[0].1, w[1].0, w[1].1));
        }
    }
    // a point outside the inner cathode has |rho| <= 1/r <= RHO_MAX
    if r.is_finite() && r >= RC && phi.is_finite() {
        if let Some(b) = bins.iter().find(|b| b.1 > rho_bins) {
            return Some(format!("rho index {} > rho_bins {} for r = {r:e} >= cathode radius", b.1, rho_bins));
        }
    }
    // geometry, from the comment in the source: rho(theta) = u cos(theta) + v sin(theta) with
    // (u, v) = (cos phi, sin phi) / r, i.e. rho(theta) = cos(theta - phi) / r; the step `t` votes
    // for the bins between rho(t dtheta) and rho((t+1) dtheta), clipped at 0, none if both < 0.
    if r.is_finite() && r.abs() >= 1e-4 && r.abs() <= 1e6 && phi.is_finite() && phi.abs() <= 1e3 && rho_bins >= 1 && theta_bins >= 1 {
        let dtheta = 2.0 * PI / theta_bins as f64;
        let a = RC * rho_bins as f64 / r; // 1 / (r * delta_rho)
        let tol = 1e-7 * (1.0 + a.abs());
        let q = |k: u32| a * (k as f64 * dtheta - phi).cos();
        let mut by_theta: HashMap<u32, Vec<u32>> = HashMap::new();
        for b in bins {
            by_theta.entry(b.0).or_default().push(b.1);
        }
        for t in 0..theta_bins {
            let (qa, qb) = (q(t), q(t + 1));
            let (lo, hi) = (qa.min(qb), qa.max(qb));
            let got: &[u32] = by_theta.get(&t).map(|v| v.as_slice()).unwrap_or(&[]);
            if hi < -tol {
                if !got.is_empty() {
                    return Some(format!("theta {t}: rho in [{lo:.3}, {hi:.3}] bins, all negative, but votes {got:?}"));
                }
                continue;
            }
            let allowed_lo = (lo - tol).floor().max(0.0);
            let allowed_hi = (hi + tol).floor();
            for g in got {
                if (*g as f64) < allowed_lo || (*g as f64) > allowed_hi {
                    return Some(format!("theta {t}: vote for rho bin {g} outside [{allowed_lo}, {allowed_hi}]"));
                }
            }
            if hi > tol {
                let must_lo = (lo + tol).floor().max(0.0);
                let must_hi = (hi - tol).floor();
                let mut m = must_lo;
                while m <= must_hi {
                    if !got.contains(&(m as u32)) {
                        return Some(format!("theta {t}: no vote for rho bin {m} inside [{lo:.6}, {hi:.6}]"));
                    }
                    m += 1.0;
                }
            }
        }
    }
    None
}

/// `bins` request, implementation answer, oracle verdict.
pub fn run_bins(p: SpacePoint, rho_bins: u32, theta_bins: u32) -> (String, String, Option<String>) {
    let req = format!("bins {} {} {} {} {}", hx(p.r.value), hx(p.phi.value), hx(p.z.value), rho_bins, theta_bins);
    match real_bins(p, rho_bins, theta_bins) {
        Ok(b) => {
            let why = bins_oracle(p, rho_bins, theta_bins, &b);
            (req, format!("ok {}", show_bins(&b)), why)
        }
        Err(m) => (req, "panic get_bins:try_into".to_string(), Some(format!("get_bins panicked: {m}"))),
    }
}

fn near_flag(b: bool) -> &'static str {
    if b {
        "1"
    } else {
        "0"
    }
}

pub fn run_dist(p: SpacePoint, q: SpacePoint, maxd: f64) -> (String, String, Option<String>) {
    let req = format!(
        "dist {} {} {} {} {} {} {}",
        hx(p.r.value),
        hx(p.phi.value),
        hx(p.z.value),
        hx(q.r.value),
        hx(q.phi.value),
        hx(q.z.value),
        hx(maxd)
    );
    let m = length(maxd);
    let d1 = p.distance(q);
    let d2 = q.distance(p);
    let (n1, n2) = (d1 <= m, d2 <= m);
    let imp = format!("ok {} {} {} {}", hx_out(d1.value), hx_out(d2.value), near_flag(n1), near_flag(n2));
    let mut why = None;
    if n1 != n2 {
        why = Some("distance <= max_distance is not symmetric".to_string());
    } else if !d1.value.is_nan() && d1.value.to_bits() != d2.value.to_bits() {
        why = Some("distance is not symmetric bit for bit".to_string());
    } else if d1.value < 0.0 {
        why = Some("negative distance".to_string());
    } else {
        // law of cosines, written independently of x()/y()
        let (r1, r2, f1, f2) = (p.r.value, q.r.value, p.phi.value, q.phi.value);
        let dz = p.z.value - q.z.value;
        let all = [r1, r2, f1, f2, dz];
        if all.iter().all(|v| v.is_finite()) && r1.abs() <= 1e3 && r2.abs() <= 1e3 && f1.abs() <= 1e3 && f2.abs() <= 1e3 && dz.abs() <= 1e3 {
            let sq = r1 * r1 + r2 * r2 - 2.0 * r1 * r2 * (f1 - f2).cos() + dz * dz;
            let scale = r1.abs() + r2.abs() + dz.abs() + 1e-300;
            let want = sq.max(0.0).sqrt();
            if (d1.value - want).abs() > 1e-6 * scale {
                why = Some(format!("distance {:e} differs from the law of cosines {:e}", d1.value, want));
            }
        }
    }
    (req, imp, why)
}

#[derive(Clone, Copy, Debug)]
pub struct Config {
    pub min: usize,
    pub rho_bins: u32,
    pub theta_bins: u32,
    pub max_distance: f64,
}

fn show(l: &[usize]) -> String {
    if l.is_empty() {
        "-".to_string()
    } else {
        l.iter().map(|x| x.to_string()).collect::<Vec<_>>().join(",")
    }
}

/// Key identifying a point up to `==` (NaN-free points).
fn key(p: &SpacePoint) -> (u64, u64, u64) {
    ((p.r.value + 0.0).to_bits(), (p.phi.value + 0.0).to_bits(), (p.z.value + 0.0).to_bits())
}

struct Uf(Vec<usize>);
impl Uf {
    fn find(&mut self, i: usize) -> usize {
        let mut r = i;
        while self.0[r] != r {
            r = self.0[r];
        }
        let mut c = i;
        while self.0[c] != r {
            let n = self.0[c];
            self.0[c] = r;
            c = n;
        }
        r
    }
    fn union(&mut self, a: usize, b: usize) {
        let (ra, rb) = (self.find(a), self.find(b));
        if ra != rb {
            self.0[ra] = rb;
        }
    }
}

/// `clusterx` request (or `clusterx-id`), the implementation's canonical answer, the oracle verdict.
pub fn run_clusterx(cmd: &str, points: &[SpacePoint], cfg: Config) -> (String, String, Option<String>) {
    let n = points.len();
    let pts_s = if n == 0 {
        "-".to_string()
    } else {
        points.iter().map(|p| format!("{}:{}:{}", hx(p.r.value), hx(p.phi.value), hx(p.z.value))).collect::<Vec<_>>().join(",")
    };
    let req = format!("{cmd} {} {} {} {} {}", cfg.min, cfg.rho_bins, cfg.theta_bins, hx(cfg.max_distance), pts_s);
    let max_distance = length(cfg.max_distance);
    let mut first: HashMap<(u64, u64, u64), usize> = HashMap::new();
    let mut cls = Vec::with_capacity(n);
    for (i, p) in points.iter().enumerate() {
        cls.push(*first.entry(key(p)).or_insert(i));
    }
    let pts = points.to_vec();
    let res = guarded(move || hook::verif_cluster_spacepoints(pts, cfg.min, cfg.rho_bins, cfg.theta_bins, max_distance));
    let res = match res {
        Ok(r) => r,
        Err(m) => return (req, format!("panic {m}"), Some(format!("cluster_spacepoints panicked: {m}"))),
    };
    let mut why: Option<String> = None;
    let mut rep = |p: &SpacePoint| -> usize {
        match first.get(&key(p)) {
            Some(i) => *i,
            None => {
                if why.is_none() {
                    why = Some("output contains a point that is not an input point".to_string());
                }
                usize::MAX
            }
        }
    };
    let clusters: Vec<Vec<usize>> = res.clusters.iter().map(|c| c.iter().map(&mut rep).collect()).collect();
    let remainder: Vec<usize> = res.remainder.iter().map(&mut rep).collect();
    let imp = format!(
        "ok c={} r={}",
        if clusters.is_empty() { "-".to_string() } else { clusters.iter().map(|c| show(c)).collect::<Vec<_>>().join("|") },
        show(&remainder)
    );
    // oracles on the real output (multiset partition, minimum size, single-linkage connected)
    let mut count_in: HashMap<usize, i64> = HashMap::new();
    for c in &cls {
        *count_in.entry(*c).or_default() += 1;
    }
    let mut count_out: HashMap<usize, i64> = HashMap::new();
    for c in clusters.iter().flatten().chain(remainder.iter()) {
        *count_out.entry(*c).or_default() += 1;
    }
    if count_out != count_in && why.is_none() {
        why = Some("partition violated: clusters + remainder is not the input multiset".to_string());
    }
    for c in &clusters {
        if c.len() < cfg.min && why.is_none() {
            why = Some(format!("cluster with {} < {} points", c.len(), cfg.min));
        }
    }
    for (ci, c) in res.clusters.iter().enumerate() {
        let pts: Vec<SpacePoint> = c.iter().copied().collect();
        let mut uf = Uf((0..pts.len()).collect());
        for a in 0..pts.len() {
            for b in 0..a {
                if pts[a].distance(pts[b]) <= max_distance {
                    uf.union(a, b);
                }
            }
        }
        let root = if pts.is_empty() { 0 } else { uf.find(0) };
        for a in 0..pts.len() {
            if uf.find(a) != root && why.is_none() {
                why = Some(format!("cluster {ci} is not connected under single linkage"));
            }
        }
    }
    (req, imp, why)
}

// ---------------------------------------------------------------- carrier laws on f64

fn feq(a: f64, b: f64) -> bool {
    a.to_bits() == b.to_bits() || (a == 0.0 && b == 0.0) || (a.is_nan() && b.is_nan())
}

fn floor_i32(x: f64) -> i32 {
    x.floor() as i32
}

/// The same chain as `eqLaws` of Driver/C15b.lean, on Rust's `f64`.
pub fn eq_laws(a: f64, a2: f64, b: f64, c: f64) -> &'static str {
    if a == a2 && !feq(a, a2) {
        return "fail of_beq";
    }
    if !feq(a, a2) {
        return "ok";
    }
    if !feq(a * b, a2 * b) {
        return "fail mul_left";
    }
    if !feq(b * a, b * a2) {
        return "fail mul_right";
    }
    if !feq(a * a, a2 * a2) {
        return "fail mul_both";
    }
    if a == a2 && (a * a).to_bits() != (a2 * a2).to_bits() {
        return "fail mul_self";
    }
    if !feq(a + b, a2 + b) {
        return "fail add_left";
    }
    if !feq(b + a, b + a2) {
        return "fail add_right";
    }
    if !feq(a + a, a2 + a2) {
        return "fail add_both";
    }
    if !feq(a / c, a2 / c) {
        return "fail div_left";
    }
    if !feq(a.sin(), a2.sin()) {
        return "fail sin";
    }
    if !feq(a.cos(), a2.cos()) {
        return "fail cos";
    }
    if floor_i32(a) != floor_i32(a2) {
        return "fail floor";
    }
    let (s1, s2) = ((a - b) * (a - b), (b - a) * (b - a));
    if !s1.is_nan() && s1.to_bits() != s2.to_bits() {
        return "fail sub_sq_symm";
    }
    "ok"
}

// ---------------------------------------------------------------- generators

const R_MIN: f64 = 0.109;
const R_MAX: f64 = 0.19;

fn random_point(rng: &mut Rng) -> SpacePoint {
    sp(R_MIN + (R_MAX - R_MIN) * rng.f64_unit(), (rng.f64_unit() * 2.0 - 1.0) * PI, (rng.f64_unit() * 2.0 - 1.0) * 1.152)
}

fn gauss(rng: &mut Rng) -> f64 {
    let u1 = rng.f64_unit().max(1e-300);
    let u2 = rng.f64_unit();
    (-2.0 * u1.ln()).sqrt() * (2.0 * PI * u2).cos()
}

/// Points of one helical track leaving the beamline region (copied from c15.rs).
fn helix_points(rng: &mut Rng, n: usize, noise: f64) -> Vec<SpacePoint> {
    let big_r = 0.12 + 1.5 * rng.f64_unit() * rng.f64_unit();
    let alpha = rng.f64_unit() * 2.0 * PI;
    let d0 = (rng.f64_unit() - 0.5) * 0.02;
    let (cx, cy) = ((big_r + d0) * alpha.cos(), (big_r + d0) * alpha.sin());
    let z0 = (rng.f64_unit() * 2.0 - 1.0) * 0.9;
    let slope = (rng.f64_unit() * 2.0 - 1.0) * 1.5;
    let dir = if rng.bool() { 1.0 } else { -1.0 };
    let start = alpha + PI;
    let mut cand = Vec::new();
    let steps = 4000;
    for k in 0..steps {
        let s = dir * (k as f64) * (PI / steps as f64);
        let x = cx + big_r * (start + s).cos();
        let y = cy + big_r * (start + s).sin();
        let r = x.hypot(y);
        if r > R_MAX {
            break;
        }
        if r >= R_MIN {
            cand.push((x, y, z0 + slope * big_r * s.abs()));
        }
    }
    let mut out = Vec::new();
    if cand.is_empty() {
        return out;
    }
    for k in 0..n {
        let (x, y, z) = cand[(k * cand.len()) / n.max(1)];
        out.push(sp_xyz(x + noise * gauss(rng), y + noise * gauss(rng), (z + noise * gauss(rng)).clamp(-1.152, 1.152)));
    }
    out
}

/// Track-like clouds (copied from c15.rs): 0–5 helical tracks, background, duplicates, twins.
fn cloud(rng: &mut Rng, max_points: usize) -> Vec<SpacePoint> {
    let mut pts = Vec::new();
    let kind = rng.below(6);
    let tracks = match kind {
        0 => 0,
        _ => rng.range(1, 5) as usize,
    };
    for _ in 0..tracks {
        let n = rng.range(5, 70) as usize;
        let noise = *rng.pick(&[0.0, 0.0005, 0.002, 0.006]);
        pts.extend(helix_points(rng, n, noise));
    }
    let bg = match kind {
        0 => rng.range(0, max_points as u64) as usize,
        1 => 0,
        2 => rng.range(0, 20) as usize,
        _ => rng.range(0, (max_points as u64) / 2) as usize,
    };
    for _ in 0..bg {
        pts.push(random_point(rng));
    }
    if !pts.is_empty() && rng.below(3) == 0 {
        let k = rng.range(1, (pts.len() as u64 / 3).max(1)) as usize;
        for _ in 0..k {
            let mut p = *rng.pick(&pts);
            if rng.bool() {
                // a `==` twin with other bits when a coordinate is zero
                if p.z.value == 0.0 {
                    p.z.value = -p.z.value;
                }
                if p.phi.value == 0.0 {
                    p.phi.value = -p.phi.value;
                }
            }
            pts.push(p);
        }
    }
    if rng.below(8) == 0 && !pts.is_empty() {
        let p = *rng.pick(&pts);
        for _ in 0..rng.range(2, 40) {
            pts.push(p);
        }
    }
    // points with phi = ±0.0 and z = ±0.0 (twins of each other)
    if rng.below(6) == 0 {
        let r = R_MIN + (R_MAX - R_MIN) * rng.f64_unit();
        for _ in 0..rng.range(2, 16) {
            let s = |rng: &mut Rng| if rng.bool() { 0.0 } else { -0.0 };
            pts.push(sp(r, s(rng), s(rng)));
        }
    }
    rng.shuffle(&mut pts);
    pts.truncate(max_points);
    pts
}

/// Small clouds on a coarse Hough grid (copied from c15.rs).
fn small_cloud(rng: &mut Rng) -> (Vec<SpacePoint>, Config) {
    let n = rng.range(0, 40) as usize;
    let mut pts = Vec::new();
    let dyadic = rng.below(4) == 0;
    let spread = *rng.pick(&[0.01, 0.03, 0.08, 0.3]);
    let (cr, cphi, cz) = (0.11 + 0.07 * rng.f64_unit(), rng.f64_unit() * 6.0 - 3.0, rng.f64_unit() - 0.5);
    for _ in 0..n {
        if dyadic {
            let g = |rng: &mut Rng| rng.below(5) as f64 / 64.0;
            pts.push(sp(0.125 + g(rng), g(rng) * 4.0, g(rng)));
        } else if rng.below(4) == 0 && !pts.is_empty() {
            let mut p = *rng.pick(&pts);
            if p.z.value == 0.0 && rng.bool() {
                p.z.value = -p.z.value;
            }
            if p.phi.value == 0.0 && rng.bool() {
                p.phi.value = -p.phi.value;
            }
            pts.push(p);
        } else {
            pts.push(sp(
                (cr + spread * 0.3 * (rng.f64_unit() - 0.5)).clamp(0.05, 0.25),
                cphi + spread * 8.0 * (rng.f64_unit() - 0.5),
                cz + spread * 2.0 * (rng.f64_unit() - 0.5),
            ));
        }
    }
    let cfg = Config {
        min: *rng.pick(&[1usize, 1, 2, 3, 4, 5, 8, 13]),
        rho_bins: *rng.pick(&[1u32, 2, 3, 5, 10, 25]),
        theta_bins: *rng.pick(&[1u32, 2, 3, 4, 8, 16, 23]),
        max_distance: *rng.pick(&[0.0, 0.005, 0.01, 0.03, 0.06, 0.2, 10.0]),
    };
    (pts, cfg)
}

/// Degenerate families (copied from c15.rs): rays, chords, repeated points, equal radii,
/// vertical lines, circles through the origin, dyadic grids.
fn degenerate_cloud(rng: &mut Rng, max_points: usize) -> Vec<SpacePoint> {
    let n = rng.range(0, max_points as u64) as usize;
    let eps = *rng.pick(&[0.0, 1e-18, 1e-16, 1e-13, 1e-10, 1e-7, 1e-4, 1e-2]);
    let fam = rng.below(7);
    let mut pts = Vec::with_capacity(n);
    let pm = |rng: &mut Rng| if rng.bool() { 1.0 } else { -1.0 };
    let (r0, p0, z0) = (0.05 + 0.2 * rng.f64_unit(), (rng.f64_unit() * 2.0 - 1.0) * PI, (rng.f64_unit() * 2.0 - 1.0) * 1.3);
    let big_r = 0.08 + rng.f64_unit();
    let alpha = rng.f64_unit() * 2.0 * PI;
    for k in 0..n {
        let f = k as f64 / n.max(1) as f64;
        let p = match fam {
            0 => sp(0.05 + 0.2 * f, p0 + eps * pm(rng) * rng.f64_unit(), z0 * f),
            1 => sp_xyz(0.06 + 0.12 * f * alpha.cos() - eps * pm(rng), 0.02 + 0.12 * f * alpha.sin(), 0.5 * f),
            2 => {
                let kinds = 1 + (n % 3);
                sp(r0 + 0.01 * (k % kinds) as f64, p0, z0)
            }
            3 => sp(r0, (rng.f64_unit() * 2.0 - 1.0) * PI, (rng.f64_unit() * 2.0 - 1.0) * 1.3),
            4 => sp(r0 + eps * (k % 2) as f64, p0, -1.3 + 2.6 * f),
            5 => {
                let s = alpha + PI + 0.25 * f / big_r;
                let (x, y) = (big_r * alpha.cos() + big_r * s.cos(), big_r * alpha.sin() + big_r * s.sin());
                let q = sp_xyz(x + eps * pm(rng), y, z0 * f);
                sp(q.r.value.clamp(0.05, 0.25), q.phi.value, q.z.value)
            }
            _ => {
                let g = |rng: &mut Rng| rng.below(8) as f64 / 8.0;
                sp(0.0625 + g(rng) / 8.0, g(rng) * 4.0 - 2.0, g(rng) * 2.0 - 1.0)
            }
        };
        pts.push(p);
    }
    pts
}

fn ulps(x: f64, k: i64) -> f64 {
    // neighbours of a positive finite number
    f64::from_bits((x.to_bits() as i64 + k) as u64)
}

/// `(rho_bins, theta_bins)`: the pair the code uses, the pairs of the other harness modules,
/// small and awkward ones (0 bins, 1 bin, odd, powers of two, large).
fn grid(rng: &mut Rng) -> (u32, u32) {
    match rng.below(4) {
        0 | 1 => (250, 230),
        2 => (*rng.pick(&[250u32, 50, 20, 10, 25, 5, 3, 2, 1]), *rng.pick(&[230u32, 46, 23, 16, 12, 8, 4, 3, 2, 1])),
        _ => (*rng.pick(&[0u32, 1, 2, 7, 64, 100, 249, 251, 256, 1000, 4096]), *rng.pick(&[0u32, 1, 2, 5, 7, 64, 229, 231, 256, 360, 1000])),
    }
}

const SPECIAL_R: [f64; 24] = [
    0.0,
    -0.0,
    5e-324,
    1e-310,
    1e-200,
    1e-160,
    1e-20,
    1e-9,
    1e-5,
    1e-3,
    0.01,
    RC,
    0.19,
    1.0,
    1e3,
    1e150,
    1.5e154,
    1e200,
    f64::MAX,
    f64::INFINITY,
    f64::NEG_INFINITY,
    f64::NAN,
    -0.15,
    -1e200,
];

fn special_phi(rng: &mut Rng) -> f64 {
    let base = [
        0.0,
        -0.0,
        PI,
        -PI,
        PI / 2.0,
        -PI / 2.0,
        2.0 * PI,
        -2.0 * PI,
        3.0 * PI / 2.0,
        PI / 4.0,
        1e-300,
        -1e-300,
        5e-324,
        1e-17,
        1e6,
        1e22,
        1e300,
        f64::INFINITY,
        f64::NEG_INFINITY,
        f64::NAN,
    ];
    let v = *rng.pick(&base);
    if v.is_finite() && v != 0.0 && v.abs() > 1e-200 && rng.below(3) == 0 {
        let k = rng.range(0, 4) as i64 - 2;
        if v > 0.0 {
            ulps(v, k)
        } else {
            -ulps(-v, k)
        }
    } else {
        v
    }
}

/// Points whose `rho / delta_rho` is an integer or within a few ulps of one at some theta step.
fn boundary_points(rng: &mut Rng, rho_bins: u32, theta_bins: u32, out: &mut Vec<SpacePoint>) {
    if rho_bins == 0 || theta_bins == 0 {
        return;
    }
    let drho = (1.0 / RC) / rho_bins as f64;
    let z = rng.f64_unit() - 0.5;
    if rng.bool() {
        // phi = 0 or ±pi: v is ±0 or tiny, rho = ±u at theta = 0, pi, 2 pi; u / delta_rho = m exactly
        let m = rng.range(1, rho_bins as u64 + 1) as f64;
        let r0 = 1.0 / (m * drho);
        let mut exact = None;
        for k in -8..=8 {
            let r = ulps(r0, k);
            if (r / (r * r)) / drho == m {
                exact = Some(r);
                break;
            }
        }
        let r = exact.unwrap_or(r0);
        for k in [-1i64, 0, 1] {
            for phi in [0.0, -0.0, PI, -PI] {
                out.push(sp(ulps(r, k), phi, z));
            }
        }
    } else {
        // general step: cos(theta - phi) / (r delta_rho) = m for the theta of step k
        let phi = (rng.f64_unit() * 2.0 - 1.0) * PI;
        let k = rng.range(0, theta_bins as u64);
        let theta = k as f64 * (2.0 * PI / theta_bins as f64);
        let c = (theta - phi).cos();
        let target = 0.1 + 0.1 * rng.f64_unit();
        let m = (c / (target * drho)).round();
        if m == 0.0 {
            return;
        }
        let r0 = c / (m * drho);
        if !(r0.is_finite() && r0 > 1e-3) {
            return;
        }
        // refine with the formula of the code (input generation only)
        let rho_over = |r: f64| {
            let (x, y) = (r * phi.cos(), r * phi.sin());
            let (u, v) = (x / (r * r), y / (r * r));
            (u * theta.cos() + v * theta.sin()) / drho
        };
        let mut r = r0;
        for _ in 0..4 {
            let q = rho_over(r);
            if q == m || !q.is_finite() || q == 0.0 {
                break;
            }
            r *= q / m;
        }
        for d in -3i64..=3 {
            out.push(sp(ulps(r, d), phi, z));
        }
    }
}

/// Statistics only: does `rho / delta_rho` hit an integer exactly (or within 2 ulps) at some
/// theta step? Recomputed with the formula of the code.
fn boundary_hit(p: SpacePoint, rb: u32, tb: u32) -> (bool, bool) {
    if rb == 0 || tb == 0 {
        return (false, false);
    }
    let (r, phi) = (p.r.value, p.phi.value);
    let (x, y) = (r * phi.cos(), r * phi.sin());
    let (u, v) = (x / (r * r), y / (r * r));
    let drho = (1.0 / RC) / rb as f64;
    let dtheta = 2.0 * PI / tb as f64;
    let (mut exact, mut close) = (false, false);
    for k in 0..=tb {
        let th = k as f64 * dtheta;
        let q = if k == 0 { u / drho } else { (u * th.cos() + v * th.sin()) / drho };
        if q.is_finite() && q.abs() >= 1.0 {
            let n = q.round();
            if q == n {
                exact = true;
            } else if ((q - n) / q).abs() < 5e-16 {
                close = true;
            }
        }
    }
    (exact, close)
}

fn push_bins(s: &mut Session, gen: &'static str, p: SpacePoint, rb: u32, tb: u32, skipped: &mut u64) {
    if !bins_safe(p.r.value, rb, tb) {
        *skipped += 1;
        return;
    }
    if gen == "bins-boundary" {
        let (e, c) = boundary_hit(p, rb, tb);
        let n = s.notes.entry("boundary_exact_integer_hits".into()).or_insert(serde_json::json!(0));
        *n = serde_json::json!(n.as_u64().unwrap_or(0) + e as u64);
        let n = s.notes.entry("boundary_within_2ulp_hits".into()).or_insert(serde_json::json!(0));
        *n = serde_json::json!(n.as_u64().unwrap_or(0) + c as u64);
    }
    let (req, imp, why) = run_bins(p, rb, tb);
    s.push_oracle(gen, req, imp, why);
}

/// Every `==` twin of `p` obtained by flipping the sign of zero coordinates.
fn twins(p: SpacePoint) -> Vec<SpacePoint> {
    let alt = |v: f64| if v == 0.0 { vec![v, -v] } else { vec![v] };
    let mut out = Vec::new();
    for r in alt(p.r.value) {
        for phi in alt(p.phi.value) {
            for z in alt(p.z.value) {
                out.push(sp(r, phi, z));
            }
        }
    }
    out
}

pub fn generate(s: &mut Session, thorough: bool) -> bool {
    let mut rng = Rng::new(s.seed);
    let scale = if thorough { 20 } else { 1 };
    let mut skipped = 0u64;

    // constants of the Float instance
    s.push("consts", "consts".to_string(), format!("ok {} {}", hx(uom::si::f64::Angle::FULL_TURN.value), hx(1.0 / RC)));

    // (1) random points in and around the drift volume
    for _ in 0..(6000 * scale) {
        let (rb, tb) = grid(&mut rng);
        let r = match rng.below(4) {
            0 => RC + (0.19 - RC) * rng.f64_unit(),
            1 => 0.05 + 0.25 * rng.f64_unit(),
            2 => 0.02 + rng.f64_unit(),
            _ => 10f64.powf(rng.f64_unit() * 6.0 - 3.0),
        };
        let phi = match rng.below(3) {
            0 => (rng.f64_unit() * 2.0 - 1.0) * PI,
            1 => (rng.f64_unit() * 2.0 - 1.0) * 7.0,
            _ => (rng.below(2 * tb.max(1) as u64 + 1) as f64 - tb as f64) * (2.0 * PI / tb.max(1) as f64),
        };
        let z = (rng.f64_unit() * 2.0 - 1.0) * 1.3;
        push_bins(s, "bins-random", sp(r, phi, z), rb, tb, &mut skipped);
    }
    // (2) edge values of r and phi, every combination of the special lists over several grids
    for (rb, tb) in [(250u32, 230u32), (1, 1), (2, 2), (3, 4), (5, 7), (0, 3), (3, 0), (0, 0), (10, 8), (25, 23)] {
        for r in SPECIAL_R {
            for _ in 0..(3 * scale) {
                let phi = special_phi(&mut rng);
                push_bins(s, "bins-edge", sp(r, phi, 0.25), rb, tb, &mut skipped);
            }
            push_bins(s, "bins-edge", sp(r, (rng.f64_unit() * 2.0 - 1.0) * PI, f64::NAN), rb, tb, &mut skipped);
        }
        for _ in 0..(40 * scale) {
            let r = RC + (0.19 - RC) * rng.f64_unit();
            push_bins(s, "bins-edge", sp(r, special_phi(&mut rng), rng.f64_unit()), rb, tb, &mut skipped);
            // neighbours of the cathode radius (rho_bin = rho_bins reached)
            let k = rng.range(0, 6) as i64 - 3;
            push_bins(s, "bins-edge", sp(ulps(RC, k), special_phi(&mut rng), 0.0), rb, tb, &mut skipped);
        }
    }
    // (3) rho on (or within ulps of) a bin boundary
    let mut bpts = Vec::new();
    for _ in 0..(1200 * scale) {
        let (rb, tb) = grid(&mut rng);
        bpts.clear();
        boundary_points(&mut rng, rb, tb, &mut bpts);
        for p in bpts.iter() {
            push_bins(s, "bins-boundary", *p, rb, tb, &mut skipped);
        }
    }
    // (4) `==` twins: the real bins of two `==` points must be the same list
    let mut twin_pairs = 0u64;
    for _ in 0..(300 * scale) {
        let (rb, tb) = grid(&mut rng);
        let r = *rng.pick(&[0.0, -0.0, RC, 0.15, 0.19, 1e-3, 1.0, 1e150, 1e160, 1e200, 1e308, -0.15, -1e200]);
        let phi = *rng.pick(&[0.0, -0.0, 0.0, PI, 1.0]);
        let z = *rng.pick(&[0.0, -0.0, 0.5]);
        let base = sp(r, phi, z);
        if !bins_safe(r, rb, tb) {
            skipped += 1;
            continue;
        }
        let tw = twins(base);
        let b0 = real_bins(tw[0], rb, tb);
        for q in &tw {
            let (req, imp, mut why) = run_bins(*q, rb, tb);
            if why.is_none() && real_bins(*q, rb, tb) != b0 {
                why = Some(format!(
                    "== points with different bins: ({:x},{:x},{:x})",
                    tw[0].r.value.to_bits(),
                    tw[0].phi.value.to_bits(),
                    tw[0].z.value.to_bits()
                ));
            }
            twin_pairs += 1;
            s.push_oracle("bins-twins", req, imp, why);
        }
    }
    s.notes.insert("twin_points_checked".into(), serde_json::json!(twin_pairs));
    s.notes.insert("skipped_too_many_bins".into(), serde_json::json!(skipped));

    // (5) the saturating cast by itself
    let mut cast_vals: Vec<f64> = vec![
        0.0, -0.0, 0.5, -0.5, -1.0, 1.0, 2147483646.5, 2147483647.0, 2147483647.5, 2147483648.0, 2147483649.0,
        -2147483647.5, -2147483648.0, -2147483648.5, -2147483649.0, 4294967296.0, 1e10, -1e10, 1e300, -1e300,
        f64::INFINITY, f64::NEG_INFINITY, f64::NAN, -f64::NAN, 5e-324, -5e-324, 4503599627370496.5,
    ];
    for _ in 0..(300 * scale) {
        cast_vals.push(f64::from_bits(rng.next()));
        cast_vals.push((rng.f64_unit() * 2.0 - 1.0) * 5e9);
        cast_vals.push((rng.below(2001) as f64 - 1000.0) + *rng.pick(&[0.0, 1e-12, -1e-12, 0.5]));
    }
    for x in cast_vals {
        s.push("casti32", format!("casti32 {}", hx(x)), format!("ok {}", floor_i32(x)));
    }

    // (6) distance and adjacency
    for i in 0..(3000 * scale) {
        let p = if i % 5 == 0 { sp(*rng.pick(&SPECIAL_R), special_phi(&mut rng), rng.f64_unit()) } else { random_point(&mut rng) };
        let maxd = *rng.pick(&[0.03, 0.03, 0.01, 0.0, 0.1, 10.0, f64::INFINITY, f64::NAN, -1.0]);
        let q = match rng.below(6) {
            0 => random_point(&mut rng),
            1 => p,
            // same r, phi: distance = |dz| exactly; dz = max_distance exercises `<=`
            2 => sp(p.r.value, p.phi.value, p.z.value + maxd),
            3 => sp(p.r.value, p.phi.value, p.z.value + ulps(maxd.abs().max(1e-300), rng.range(0, 2) as i64 - 1)),
            4 => {
                let t = twins(sp(p.r.value, 0.0, 0.0));
                *rng.pick(&t)
            }
            _ => sp(
                p.r.value + 0.02 * (rng.f64_unit() - 0.5),
                p.phi.value + 0.2 * (rng.f64_unit() - 0.5),
                p.z.value + 0.04 * (rng.f64_unit() - 0.5),
            ),
        };
        let (req, imp, why) = run_dist(p, q, maxd);
        s.push_oracle("dist", req, imp, why);
    }
    // exact thresholds: dz = max_distance with identical r, phi (distance == max_distance)
    for maxd in [0.03, 0.01, 0.25, 1.0] {
        for z in [0.0, 0.5, -0.75] {
            let p = sp(0.15, 1.0, z);
            for q in [sp(0.15, 1.0, z + maxd), sp(0.15, 1.0, z - maxd)] {
                let (req, imp, why) = run_dist(p, q, (p.z.value - q.z.value).abs());
                s.push_oracle("dist", req, imp, why);
            }
        }
    }

    // (7) carrier laws
    let specials = [0.0, -0.0, 1.0, -1.0, 0.1092, f64::INFINITY, f64::NEG_INFINITY, f64::NAN, 5e-324, -5e-324, 1e300, -1e300, 1e-300];
    for a in [0.0, -0.0] {
        for a2 in [0.0, -0.0] {
            for b in specials {
                for c in specials {
                    let imp = eq_laws(a, a2, b, c);
                    let why = if imp == "ok" { None } else { Some(format!("carrier law does not hold for f64: {imp}")) };
                    s.push_oracle("eqlaws", format!("eqlaws {} {} {} {}", hx(a), hx(a2), hx(b), hx(c)), imp.to_string(), why);
                }
            }
        }
    }
    for _ in 0..(2000 * scale) {
        let pickv = |rng: &mut Rng| match rng.below(3) {
            0 => *rng.pick(&specials),
            1 => f64::from_bits(rng.next()),
            _ => (rng.f64_unit() * 2.0 - 1.0) * 10.0,
        };
        let a = pickv(&mut rng);
        let a2 = if rng.bool() { a } else if a == 0.0 { -a } else { pickv(&mut rng) };
        let (b, c) = (pickv(&mut rng), pickv(&mut rng));
        let imp = eq_laws(a, a2, b, c);
        let why = if imp == "ok" { None } else { Some(format!("carrier law does not hold for f64: {imp}")) };
        s.push_oracle("eqlaws", format!("eqlaws {} {} {} {}", hx(a), hx(a2), hx(b), hx(c)), imp.to_string(), why);
    }

    // (8) clustering end to end from the points alone
    let public = Config { min: 13, rho_bins: 250, theta_bins: 230, max_distance: Length::new::<uom::si::length::centimeter>(3.0).value };
    let (n_clouds, cap) = if thorough { (300, 1200) } else { (60, 300) };
    for k in 0..n_clouds {
        let max_points = if k % 10 == 0 { cap } else { cap.min(40 + 20 * (k % 30)) };
        let pts = cloud(&mut rng, max_points);
        let (req, imp, why) = run_clusterx("clusterx", &pts, public);
        s.push_oracle("clusterx-public", req, imp, why);
    }
    for _ in 0..(if thorough { 300 } else { 50 }) {
        let pts = cloud(&mut rng, if thorough { 500 } else { 200 });
        let cfg = Config {
            min: *rng.pick(&[1usize, 2, 3, 5, 13, 14, 20, 40]),
            rho_bins: *rng.pick(&[250u32, 50, 10]),
            theta_bins: *rng.pick(&[230u32, 46, 8]),
            max_distance: *rng.pick(&[0.03, 0.03, 0.01, 0.1]),
        };
        let (req, imp, why) = run_clusterx("clusterx", &pts, cfg);
        s.push_oracle("clusterx-params", req, imp, why);
    }
    for i in 0..(if thorough { 40_000 } else { 3000 }) {
        let (pts, cfg) = small_cloud(&mut rng);
        let cmd = if i % 4 == 0 { "clusterx-id" } else { "clusterx" };
        let (req, imp, why) = run_clusterx(cmd, &pts, cfg);
        s.push_oracle(if i % 4 == 0 { "clusterx-small-id" } else { "clusterx-small" }, req, imp, why);
    }
    for k in 0..=30usize {
        for noise in [0.0, 0.001] {
            let mut pts = helix_points(&mut rng, k, noise);
            if k % 3 == 0 {
                for _ in 0..5 {
                    pts.push(random_point(&mut rng));
                }
            }
            let (req, imp, why) = run_clusterx("clusterx", &pts, public);
            s.push_oracle("clusterx-size-boundary", req, imp, why);
        }
    }
    for k in 0..(if thorough { 400 } else { 100 }) {
        let cap = if k % 25 == 0 { 300 } else { 60 };
        let pts = degenerate_cloud(&mut rng, cap);
        let cfg = if k % 2 == 0 {
            public
        } else {
            Config { min: *rng.pick(&[1usize, 3, 13]), rho_bins: *rng.pick(&[250u32, 20]), theta_bins: *rng.pick(&[230u32, 12]), max_distance: *rng.pick(&[0.03, 0.1]) }
        };
        let (req, imp, why) = run_clusterx("clusterx", &pts, cfg);
        s.push_oracle("clusterx-degenerate", req, imp, why);
    }

    // chains whose links have length exactly `max_distance` (same r, phi; z = k * max): one
    // cluster with `<=`, singletons with `<`
    for i in 0..(if thorough { 400 } else { 60 }) {
        let maxd = *rng.pick(&[0.03125, 0.25, 0.03, 0.0078125]);
        let n = rng.range(2, 30) as usize;
        let (r, phi) = (RC + 0.08 * rng.f64_unit(), (rng.f64_unit() * 2.0 - 1.0) * PI);
        let mut pts: Vec<SpacePoint> = (0..n).map(|k| sp(r, phi, k as f64 * maxd)).collect();
        if maxd == 0.03 {
            // only 0 -> 0.03 is an exact link in binary; keep pairs
            pts = vec![sp(r, phi, 0.0), sp(r, phi, 0.03), sp(r, phi, 1.0), sp(r, phi, 1.03)];
        }
        if rng.bool() {
            rng.shuffle(&mut pts);
        }
        let cfg = if i % 2 == 0 {
            Config { min: 2, rho_bins: 250, theta_bins: 230, max_distance: maxd }
        } else {
            Config { min: *rng.pick(&[1usize, 2, 3]), rho_bins: *rng.pick(&[5u32, 25]), theta_bins: *rng.pick(&[4u32, 23]), max_distance: maxd }
        };
        let (req, imp, why) = run_clusterx("clusterx", &pts, cfg);
        s.push_oracle("clusterx-threshold", req, imp, why);
    }

    // one-ulp twins across the linking threshold: a chain with exact links, and at its end two points
    // with the same (r, phi) whose z are neighbouring doubles, one exactly at the threshold (linked) and
    // one just beyond (not linked), the unlinked one FIRST in the input. Points are told apart with `==`:
    // the clustered twin, not its neighbour, leaves the remainder (seed C15-10 matched points to within
    // f64::EPSILON and removed the wrong one)
    for i in 0..(if thorough { 300 } else { 60 }) {
        let maxd = *rng.pick(&[0.03125, 0.25, 0.0078125]);
        let n = rng.range(3, 20) as usize;
        let (r, phi) = (RC + 0.08 * rng.f64_unit(), (rng.f64_unit() * 2.0 - 1.0) * PI);
        let chain: Vec<SpacePoint> = (0..n).map(|k| sp(r, phi, k as f64 * maxd)).collect();
        let z_link = n as f64 * maxd;
        let z_beyond = f64::from_bits(z_link.to_bits() + 1);
        let z_beyond2 = f64::from_bits(z_link.to_bits() + 2);
        let mut pts = Vec::new();
        match i % 3 {
            0 => {
                pts.push(sp(r, phi, z_beyond));
                pts.extend(chain.iter().copied());
                pts.push(sp(r, phi, z_link));
            }
            1 => {
                pts.push(sp(r, phi, z_beyond2));
                pts.push(sp(r, phi, z_beyond));
                pts.push(sp(r, phi, z_link));
                pts.extend(chain.iter().copied());
            }
            _ => {
                // twins in r instead of z at the far end of the chain (same bins or not, as it falls)
                pts.push(sp(f64::from_bits(r.to_bits() + 1), phi, -maxd));
                pts.extend(chain.iter().copied());
                pts.push(sp(r, phi, -maxd));
                pts.push(sp(r, phi, z_beyond));
            }
        }
        let cfg = Config { min: *rng.pick(&[2usize, 3]), rho_bins: 250, theta_bins: 230, max_distance: maxd };
        let (req, imp, why) = run_clusterx("clusterx", &pts, cfg);
        s.push_oracle("clusterx-ulp-twins", req, imp, why);
    }

    // neighbouring doubles across the edge of the winning Hough bin: a clean 25-point track, plus two hits
    // on it whose radii are adjacent doubles, one voting for the track's winning bin and one not (found by
    // bisection on the real get_bins), the non-voting one FIRST in the input. The voting twin belongs to
    // the cluster, the other to the remainder; they are told apart by `==` only (seed C15-10)
    {
        let mut made = 0usize;
        for _ in 0..(if thorough { 400 } else { 60 }) {
            let track = helix_points(&mut rng, 25, 0.0);
            if track.len() < 25 {
                continue;
            }
            let (rb, tb) = (public.rho_bins, public.theta_bins);
            let mut votes: std::collections::HashMap<(u32, u32), usize> = Default::default();
            let mut ok = true;
            for p in &track {
                match real_bins(*p, rb, tb) {
                    Ok(b) => {
                        for x in b {
                            *votes.entry(x).or_default() += 1;
                        }
                    }
                    Err(_) => ok = false,
                }
            }
            if !ok {
                continue;
            }
            let Some((&win, &nv)) = votes.iter().max_by_key(|(k, v)| (**v, **k)) else { continue };
            if nv < 20 {
                continue;
            }
            let base = track[12];
            let (phi, z) = (base.phi.value, base.z.value);
            let votes_win = |r: f64| real_bins(sp(r, phi, z), rb, tb).map(|b| b.contains(&win)).unwrap_or(false);
            if !votes_win(base.r.value) {
                continue;
            }
            // walk outwards (or inwards) until the winning bin is lost, then bisect on the bit patterns
            let dirn = if rng.bool() { 1.0005 } else { 0.9995 };
            let (mut r_in, mut r_out) = (base.r.value, base.r.value);
            let mut found = false;
            for _ in 0..400 {
                r_out *= dirn;
                if !(R_MIN..=R_MAX).contains(&r_out) {
                    break;
                }
                if !votes_win(r_out) {
                    found = true;
                    break;
                }
                r_in = r_out;
            }
            if !found {
                continue;
            }
            let (mut a, mut b) = (r_in.to_bits(), r_out.to_bits());
            while (a as i64 - b as i64).abs() > 1 {
                let m = if a < b { a + (b - a) / 2 } else { b + (a - b) / 2 };
                if votes_win(f64::from_bits(m)) {
                    a = m;
                } else {
                    b = m;
                }
            }
            let (t_in, t_out) = (sp(f64::from_bits(a), phi, z), sp(f64::from_bits(b), phi, z));
            let mut pts = vec![t_out];
            pts.extend(track.iter().copied());
            pts.push(t_in);
            let (req, imp, why) = run_clusterx("clusterx", &pts, public);
            s.push_oracle("clusterx-bin-edge-twins", req, imp, why);
            // and the other way round (the voting twin first)
            let mut pts = vec![t_in];
            pts.extend(track.iter().copied());
            pts.push(t_out);
            let (req, imp, why) = run_clusterx("clusterx", &pts, public);
            s.push_oracle("clusterx-bin-edge-twins", req, imp, why);
            made += 1;
        }
        s.notes.insert("bin_edge_twin_pairs".into(), serde_json::json!(made));
    }

    // clouds with a NaN coordinate (outside C15's quantifier: `p == p` is false and the real
    // `remove_unchecked` panics when such a point is in a best cluster): the model must panic
    // exactly when the implementation does; no oracle verdict.
    s.agree = Some(both_panic);
    for _ in 0..(if thorough { 2000 } else { 200 }) {
        let (mut pts, cfg) = small_cloud(&mut rng);
        if pts.is_empty() {
            pts.push(random_point(&mut rng));
        }
        let k = rng.below(pts.len() as u64) as usize;
        match rng.below(3) {
            0 => pts[k].z.value = f64::NAN,
            1 => pts[k].phi.value = f64::NAN,
            _ => pts[k].r.value = f64::NAN,
        }
        let (req, imp, _) = run_clusterx("clusterx", &pts, cfg);
        s.push("clusterx-nan", req, imp);
    }

    // coverage statistics
    let mut hist: std::collections::BTreeMap<String, u64> = Default::default();
    for c in &s.cases {
        if c.req.starts_with("clusterx") {
            let k = match c.imp.split(' ').nth(1) {
                Some("c=-") => 0,
                Some(cs) => cs.matches('|').count() + 1,
                None => 0,
            };
            *hist.entry(format!("clouds_with_{}_clusters", k.min(6))).or_default() += 1;
        } else if c.req.starts_with("bins ") {
            let k = if c.imp == "ok -" {
                "bins_empty".to_string()
            } else {
                let n = c.imp.matches(',').count() + 1;
                format!("bins_1e{}", (n as f64).log10().floor() as i64)
            };
            *hist.entry(k).or_default() += 1;
        }
    }
    s.notes.insert("coverage".into(), serde_json::json!(hist));
    true
}

/// Panic messages of the implementation name no site; two panics agree.
fn both_panic(imp: &str, model: &str) -> bool {
    imp.starts_with("panic ") && model.starts_with("panic ")
}

pub fn run_request(cmd: &str, args: &[&str]) -> Option<String> {
    match cmd {
        "bins" if args.len() == 5 => {
            let p = sp(unhx(args[0])?, unhx(args[1])?, unhx(args[2])?);
            let (rb, tb): (u32, u32) = (args[3].parse().ok()?, args[4].parse().ok()?);
            if !bins_safe(p.r.value, rb, tb) {
                return Some("skipped: more than MAX_BINS bins (memory)".to_string());
            }
            Some(run_bins(p, rb, tb).1)
        }
        "dist" if args.len() == 7 => {
            let v: Vec<f64> = args.iter().filter_map(|a| unhx(a)).collect();
            if v.len() != 7 {
                return None;
            }
            Some(run_dist(sp(v[0], v[1], v[2]), sp(v[3], v[4], v[5]), v[6]).1)
        }
        "clusterx" | "clusterx-id" if args.len() == 5 => {
            let cfg = Config { min: args[0].parse().ok()?, rho_bins: args[1].parse().ok()?, theta_bins: args[2].parse().ok()?, max_distance: unhx(args[3])? };
            let mut pts = Vec::new();
            if args[4] != "-" {
                for t in args[4].split(',') {
                    let v: Vec<f64> = t.split(':').filter_map(unhx).collect();
                    if v.len() != 3 {
                        return None;
                    }
                    pts.push(sp(v[0], v[1], v[2]));
                }
            }
            if pts.iter().any(|p| !bins_safe(p.r.value, cfg.rho_bins, cfg.theta_bins)) {
                return Some("skipped: more than MAX_BINS bins (memory)".to_string());
            }
            Some(run_clusterx(cmd, &pts, cfg).1)
        }
        "casti32" if args.len() == 1 => Some(format!("ok {}", floor_i32(unhx(args[0])?))),
        "consts" if args.is_empty() => Some(format!("ok {} {}", hx(uom::si::f64::Angle::FULL_TURN.value), hx(1.0 / RC))),
        "eqlaws" if args.len() == 4 => {
            let v: Vec<f64> = args.iter().filter_map(|a| unhx(a)).collect();
            if v.len() != 4 {
                return None;
            }
            Some(eq_laws(v[0], v[1], v[2], v[3]).to_string())
        }
        _ => None,
    }
}
