//! C18: drift-time lookup (`DriftTables::at` through `SpacePoint::try_from(Avalanche)`).
//!
//! Requests (f64 arguments as 16 hex digits of the bit pattern):
//!   `drift <z> <t>`      -> `ok <r> <corr>` | `err Z` | `err T` | `panic <site>`
//!   `sp <z> <t> <phi>`   -> `ok <r> <phi_out> <z_out>` | `err …` | `panic …`
//!   `step <z> <t>`       -> `ok <r(t)> <r(t + 8e-9)>` | `err …` | `panic …`
//! NaN results are printed as `nan` (payload and sign of a NaN are not compared).
//!
//! The oracle works from the in-memory tables of the built code (hook
//! `alpha_g_physics::verif::verif_drift_tables`) and the property text only; it never looks at the
//! Lean model.
use crate::{guarded, Rng, Session};
use alpha_g_physics::{Avalanche, SpacePoint, TryDriftLookupError};
use std::collections::BTreeSet;
use std::sync::OnceLock;

type Table = Vec<(Vec<(f64, f64, f64)>, f64)>;

/// 8 ns, 0.5 mm, 1e-12 m: the property's constants.
const STEP_DT: f64 = 8e-9;
const STEP_MAX: f64 = 0.5e-3;
const KNOT_TOL: f64 = 1e-12;

const KNOWN_EXCEPTIONS_DEFAULT: &str = "/verif/known_drift_exceptions.json";

pub fn tables() -> &'static Table {
    static T: OnceLock<Table> = OnceLock::new();
    T.get_or_init(alpha_g_physics::verif::verif_drift_tables)
}

/// Committed list of `(slice, knot)` intervals known to exceed 0.5 mm / 8 ns (finding F5).
fn known_exceptions() -> &'static BTreeSet<(usize, usize)> {
    static K: OnceLock<BTreeSet<(usize, usize)>> = OnceLock::new();
    K.get_or_init(|| {
        let path = std::env::var("VERIF_DRIFT_EXCEPTIONS").unwrap_or_else(|_| KNOWN_EXCEPTIONS_DEFAULT.to_string());
        let mut set = BTreeSet::new();
        if let Ok(text) = std::fs::read_to_string(&path) {
            if let Ok(v) = serde_json::from_str::<serde_json::Value>(&text) {
                if let Some(arr) = v.get("exceptions").and_then(|x| x.as_array()) {
                    for e in arr {
                        if let (Some(s), Some(k)) = (e.get(0).and_then(|x| x.as_u64()), e.get(1).and_then(|x| x.as_u64())) {
                            set.insert((s as usize, k as usize));
                        }
                    }
                }
            }
        }
        set
    })
}

/// Bit-pattern dump of the in-memory drift tables (translator input).
pub fn dump_tables(out_path: &str) {
    let t = tables();
    let mut s = String::with_capacity(8 << 20);
    s.push_str("{\"source\": \"alpha_g_physics::verif::verif_drift_tables (DRIFT_TABLES in memory)\",\n");
    s.push_str(" \"format\": \"f64 bit patterns, 16 hex digits; knots are [time s, radius m, lorentz correction rad]\",\n");
    s.push_str(" \"drift_tables\": [\n");
    for (i, (knots, z)) in t.iter().enumerate() {
        s.push_str(&format!("  {{\"z_upper\": \"{:016x}\", \"knots\": [", z.to_bits()));
        for (j, (a, b, c)) in knots.iter().enumerate() {
            if j > 0 {
                s.push(',');
            }
            s.push_str(&format!("[\"{:016x}\",\"{:016x}\",\"{:016x}\"]", a.to_bits(), b.to_bits(), c.to_bits()));
        }
        s.push_str("]}");
        s.push_str(if i + 1 < t.len() { ",\n" } else { "\n" });
    }
    s.push_str(" ],\n");
    // Appended for C10 (event assembly): calibration values as seen through the hooks.
    s.push_str(&calibration_json());
    s.push_str("}\n");
    if let Some(dir) = std::path::Path::new(out_path).parent() {
        let _ = std::fs::create_dir_all(dir);
    }
    std::fs::write(out_path, s).expect("write tables dump");
}

/// Run numbers at which the calibration lookups are dumped: both sides of every threshold that
/// appears in a `match run_number` of the calibration sources (translator/calib.py checks that
/// every arm of `Generated/CalArms.lean` has a representative here) and the simulation number.
pub const CALIBRATION_DUMP_RUNS: [u32; 25] = [
    0, 2723, 2724, 2940, 2941, 4417, 4418, 6999, 7000, 7025, 7026, 9276, 9277, 10417, 10418, 11083,
    11084, 11185, 11186, 11191, 11192, 20000, 1 << 31, u32::MAX - 1, u32::MAX,
];

/// `"calibration": {…}` section of the dump (C10): for each of the six lookups and each run of
/// `CALIBRATION_DUMP_RUNS` the value for every wire 0..256 / every pad (index `column * 576 + row`)
/// as returned by `alpha_g_physics::verif::*` (`null`: the lookup is an error). Identical tables
/// are stored once (`tables`) and referenced by index (`by_run`; `null`: every element is an
/// error, i.e. no map for that run). Baselines are `i16` numbers, gains f64 bit patterns.
fn calibration_json() -> String {
    use alpha_g_detector::alpha16::aw_map::TpcWirePosition;
    use alpha_g_detector::padwing::map::{TpcPadColumn, TpcPadPosition, TpcPadRow};
    use alpha_g_physics::verif as v;
    let wires: Vec<TpcWirePosition> = (0..256usize).map(|w| TpcWirePosition::try_from(w).unwrap()).collect();
    let pads: Vec<TpcPadPosition> = (0..32usize)
        .flat_map(|c| {
            (0..576usize).map(move |r| TpcPadPosition {
                column: TpcPadColumn::try_from(c).unwrap(),
                row: TpcPadRow::try_from(r).unwrap(),
            })
        })
        .collect();
    let opt = |x: Option<String>| x.unwrap_or_else(|| "null".to_string());
    let section = |name: &str, per_run: &dyn Fn(u32) -> Vec<String>| -> String {
        let mut tables: Vec<Vec<String>> = Vec::new();
        let mut by_run = Vec::new();
        for &run in CALIBRATION_DUMP_RUNS.iter() {
            let t = per_run(run);
            if t.iter().all(|x| x == "null") {
                by_run.push(format!("\"{run}\": null"));
                continue;
            }
            let idx = match tables.iter().position(|u| *u == t) {
                Some(i) => i,
                None => {
                    tables.push(t);
                    tables.len() - 1
                }
            };
            by_run.push(format!("\"{run}\": {idx}"));
        }
        let ts: Vec<String> = tables.iter().map(|t| format!("   [{}]", t.join(","))).collect();
        format!("  \"{name}\": {{\"by_run\": {{{}}}, \"tables\": [\n{}\n  ]}}", by_run.join(", "), ts.join(",\n"))
    };
    let delays = |f: &dyn Fn(u32) -> Option<usize>| -> String {
        let xs: Vec<String> =
            CALIBRATION_DUMP_RUNS.iter().map(|&r| format!("\"{r}\": {}", opt(f(r).map(|d| d.to_string())))).collect();
        format!("{{{}}}", xs.join(", "))
    };
    let mut s = String::with_capacity(4 << 20);
    s.push_str(" \"calibration\": {\n");
    s.push_str("  \"source\": \"alpha_g_physics::verif::{wire,pad}_{baseline,gain,delay} (lazy statics in memory)\",\n");
    s.push_str("  \"format\": \"baseline: i16; gain: f64 bit pattern, 16 hex digits; wires by index 0..256; pads by column*576+row; null = lookup error\",\n");
    let runs: Vec<String> = CALIBRATION_DUMP_RUNS.iter().map(|r| r.to_string()).collect();
    s.push_str(&format!("  \"runs\": [{}],\n", runs.join(", ")));
    s.push_str(&format!("  \"wire_delay\": {},\n", delays(&|r| v::wire_delay(r))));
    s.push_str(&format!("  \"pad_delay\": {},\n", delays(&|r| v::pad_delay(r))));
    s.push_str(&section("wire_baseline", &|run| wires.iter().map(|&w| opt(v::wire_baseline(run, w).map(|b| b.to_string()))).collect()));
    s.push_str(",\n");
    s.push_str(&section("wire_gain", &|run| {
        wires.iter().map(|&w| opt(v::wire_gain(run, w).map(|g| format!("\"{:016x}\"", g.to_bits())))).collect()
    }));
    s.push_str(",\n");
    s.push_str(&section("pad_baseline", &|run| pads.iter().map(|&p| opt(v::pad_baseline(run, p).map(|b| b.to_string()))).collect()));
    s.push_str(",\n");
    s.push_str(&section("pad_gain", &|run| {
        pads.iter().map(|&p| opt(v::pad_gain(run, p).map(|g| format!("\"{:016x}\"", g.to_bits())))).collect()
    }));
    s.push_str("\n }\n");
    s
}

fn fbits(x: f64) -> String {
    if x.is_nan() {
        "nan".to_string()
    } else {
        format!("{:016x}", x.to_bits())
    }
}

fn parse_bits(s: &str) -> Option<f64> {
    if s.len() != 16 {
        return None;
    }
    u64::from_str_radix(s, 16).ok().map(f64::from_bits)
}

fn avalanche(z: f64, t: f64, phi: f64) -> Avalanche {
    // uom quantities in SI base units (s, rad, m): `Default` + the public `value` field, so
    // that the harness does not need its own `uom` dependency.
    let mut av = Avalanche {
        t: Default::default(),
        phi: Default::default(),
        z: Default::default(),
        wire_amplitude: 1.0,
        pad_amplitude: 1.0,
    };
    av.t.value = t;
    av.phi.value = phi;
    av.z.value = z;
    av
}

#[derive(Clone, Copy, Debug, PartialEq)]
pub enum Look {
    Ok { r: f64, phi: f64, z: f64 },
    ErrZ,
    ErrT,
}

fn panic_site(msg: &str) -> String {
    if msg.contains("Option::unwrap()") {
        "drift:find".to_string()
    } else if msg.contains("subtract with overflow") || msg.contains("index is 18446744073709551615") {
        "drift:lhs_index".to_string()
    } else if msg.contains("index out of bounds") {
        "drift:index".to_string()
    } else {
        format!("other:{}", msg.replace(' ', "_"))
    }
}

/// The real code: `SpacePoint::try_from(Avalanche { z, t, phi, .. })`.
pub fn lookup(z: f64, t: f64, phi: f64) -> Result<Look, String> {
    guarded(|| match SpacePoint::try_from(avalanche(z, t, phi)) {
        Ok(sp) => Look::Ok { r: sp.r.value, phi: sp.phi.value, z: sp.z.value },
        Err(TryDriftLookupError::AxialPositionOutOfRange(_)) => Look::ErrZ,
        Err(TryDriftLookupError::DriftTimeOutOfRange(_)) => Look::ErrT,
    })
    .map_err(|m| panic_site(&m))
}

fn answer_drift(l: &Result<Look, String>) -> String {
    match l {
        Err(site) => format!("panic {site}"),
        Ok(Look::ErrZ) => "err Z".to_string(),
        Ok(Look::ErrT) => "err T".to_string(),
        // with phi = +0 the azimuth is `0 - corr`; `0 - (0 - corr)` gives `corr` back exactly
        Ok(Look::Ok { r, phi, .. }) => format!("ok {} {}", fbits(*r), fbits(0.0 - *phi)),
    }
}

fn answer_sp(l: &Result<Look, String>) -> String {
    match l {
        Err(site) => format!("panic {site}"),
        Ok(Look::ErrZ) => "err Z".to_string(),
        Ok(Look::ErrT) => "err T".to_string(),
        Ok(Look::Ok { r, phi, z }) => format!("ok {} {} {}", fbits(*r), fbits(*phi), fbits(*z)),
    }
}

fn answer_step(a: &Result<Look, String>, b: &Result<Look, String>) -> String {
    match (a, b) {
        (Err(site), _) => format!("panic {site}"),
        (Ok(Look::ErrZ), _) => "err Z".to_string(),
        (Ok(Look::ErrT), _) => "err T".to_string(),
        (_, Err(site)) => format!("panic {site}"),
        (_, Ok(Look::ErrZ)) => "err Z".to_string(),
        (_, Ok(Look::ErrT)) => "err T".to_string(),
        (Ok(Look::Ok { r: r0, .. }), Ok(Look::Ok { r: r1, .. })) => format!("ok {} {}", fbits(*r0), fbits(*r1)),
    }
}

/// What the property text demands for finite `(z, t)`, read off the in-memory table.
enum Expect {
    ErrZ,
    ErrT,
    /// index of the slice
    Ok(usize),
}

fn expect(z: f64, t: f64) -> Expect {
    let tb = tables();
    let zabs = z.abs();
    let zmax = tb.iter().map(|s| s.1).fold(f64::NEG_INFINITY, f64::max);
    if !(zabs <= zmax) {
        return Expect::ErrZ;
    }
    let i = tb.iter().position(|s| zabs <= s.1).expect("slice exists");
    let knots = &tb[i].0;
    if t >= knots[0].0 && t <= knots[knots.len() - 1].0 {
        Expect::Ok(i)
    } else {
        Expect::ErrT
    }
}

fn slice_ranges(i: usize) -> (f64, f64, f64) {
    static R: OnceLock<Vec<(f64, f64, f64)>> = OnceLock::new();
    R.get_or_init(|| {
        tables()
            .iter()
            .map(|(k, _)| {
                let rmin = k.iter().map(|x| x.1).fold(f64::INFINITY, f64::min);
                let rmax = k.iter().map(|x| x.1).fold(f64::NEG_INFINITY, f64::max);
                let cmax = k.iter().map(|x| x.2).fold(f64::NEG_INFINITY, f64::max);
                (rmin, rmax, cmax)
            })
            .collect()
    })[i]
}

/// Oracle for one finite lookup with `phi = 0` (`None`: the property holds on this case).
fn oracle_point(z: f64, t: f64, got: &Result<Look, String>) -> Option<String> {
    let l = match got {
        Err(site) => return Some(format!("lookup panicked at {site}")),
        Ok(l) => *l,
    };
    match (expect(z, t), l) {
        (Expect::ErrZ, Look::ErrZ) | (Expect::ErrT, Look::ErrT) => None,
        (Expect::ErrZ, other) => Some(format!("|z| exceeds the largest z bound but the lookup gave {other:?}")),
        (Expect::ErrT, other) => Some(format!("t outside the slice's tabulated times but the lookup gave {other:?}")),
        (Expect::Ok(i), Look::Ok { r, phi, z: zo }) => {
            let (rmin, rmax, cmax) = slice_ranges(i);
            let corr = 0.0 - phi;
            if !(r >= rmin && r <= rmax) {
                return Some(format!("radius {r:e} outside the tabulated range [{rmin:e}, {rmax:e}] of slice {i}"));
            }
            if !(corr >= 0.0 && corr <= cmax) {
                return Some(format!("lorentz correction {corr:e} outside [0, {cmax:e}] of slice {i}"));
            }
            if zo.to_bits() != z.to_bits() {
                return Some("space point z differs from the avalanche z".to_string());
            }
            // knot reproduction
            let knots = &tables()[i].0;
            if let Ok(j) = knots.binary_search_by(|k| k.0.partial_cmp(&t).unwrap()) {
                if !((r - knots[j].1).abs() <= KNOT_TOL) {
                    return Some(format!("knot {j} of slice {i} not reproduced: {r:e} vs {:e}", knots[j].1));
                }
            }
            // symmetry in z
            match lookup(-z, t, 0.0) {
                Ok(Look::Ok { r: r2, phi: p2, .. }) if r2.to_bits() == r.to_bits() && p2.to_bits() == phi.to_bits() => None,
                other => Some(format!("lookup at -z differs: {other:?}")),
            }
        }
        (Expect::Ok(i), other) => Some(format!("in range (slice {i}) but the lookup gave {other:?}")),
    }
}

fn req2(cmd: &str, z: f64, t: f64) -> String {
    format!("{cmd} {:016x} {:016x}", z.to_bits(), t.to_bits())
}

/// Replay entry.
pub fn run_request(cmd: &str, args: &[&str]) -> Option<String> {
    match (cmd, args) {
        ("drift", [z, t]) => {
            let (z, t) = (parse_bits(z)?, parse_bits(t)?);
            Some(answer_drift(&lookup(z, t, 0.0)))
        }
        ("sp", [z, t, p]) => {
            let (z, t, p) = (parse_bits(z)?, parse_bits(t)?, parse_bits(p)?);
            Some(answer_sp(&lookup(z, t, p)))
        }
        ("step", [z, t]) => {
            let (z, t) = (parse_bits(z)?, parse_bits(t)?);
            Some(answer_step(&lookup(z, t, 0.0), &lookup(z, t + STEP_DT, 0.0)))
        }
        _ => None,
    }
}

fn ulp_up(x: f64) -> f64 {
    if x.is_nan() || x == f64::INFINITY {
        x
    } else if x == 0.0 {
        f64::from_bits(1)
    } else if x > 0.0 {
        f64::from_bits(x.to_bits() + 1)
    } else {
        f64::from_bits(x.to_bits() - 1)
    }
}
fn ulp_down(x: f64) -> f64 {
    -ulp_up(-x)
}

struct Gen<'a> {
    s: &'a mut Session,
    /// last successful (slice, z bits, t, r) pushed through `point`, for the antitone oracle
    last: Option<(usize, u64, f64, f64)>,
}

impl<'a> Gen<'a> {
    /// One `drift` case with the full point oracle, plus the antitone check against the previous
    /// case when that was a success in the same slice at the same z with a smaller time.
    fn point(&mut self, gen: &'static str, z: f64, t: f64) {
        let got = lookup(z, t, 0.0);
        let mut why = if z.is_finite() && t.is_finite() { oracle_point(z, t, &got) } else { None };
        if let (Ok(Look::Ok { r, .. }), Expect::Ok(i)) = (&got, if z.is_finite() && t.is_finite() { expect(z, t) } else { Expect::ErrZ }) {
            if let Some((pi, pz, pt, pr)) = self.last {
                if pi == i && pz == z.to_bits() && pt <= t && why.is_none() && !(*r <= pr) {
                    why = Some(format!("radius increases with drift time in slice {i}: r({pt:e}) = {pr:e} < r({t:e}) = {r:e}"));
                }
            }
            self.last = Some((i, z.to_bits(), t, *r));
        } else {
            self.last = None;
        }
        self.s.push_oracle(gen, req2("drift", z, t), answer_drift(&got), why);
    }

    fn sp(&mut self, gen: &'static str, z: f64, t: f64, phi: f64) {
        let got = lookup(z, t, phi);
        let mut why = None;
        if z.is_finite() && t.is_finite() && phi.is_finite() {
            let base = lookup(z, t, 0.0);
            why = match (&got, &base) {
                (Err(site), _) => Some(format!("lookup panicked at {site}")),
                (Ok(Look::Ok { r, phi: p, z: zo }), Ok(Look::Ok { r: r0, phi: p0, .. })) => {
                    let corr = 0.0 - *p0;
                    if r.to_bits() != r0.to_bits() {
                        Some("radius depends on the avalanche azimuth".to_string())
                    } else if p.to_bits() != (phi - corr).to_bits() {
                        Some(format!("azimuth {p:e} is not avalanche azimuth {phi:e} minus correction {corr:e}"))
                    } else if zo.to_bits() != z.to_bits() {
                        Some("space point z differs from the avalanche z".to_string())
                    } else {
                        None
                    }
                }
                (a, b) if a == b => None,
                (a, b) => Some(format!("outcome depends on the avalanche azimuth: {a:?} vs {b:?}")),
            };
        }
        self.s.push_oracle(
            gen,
            format!("sp {:016x} {:016x} {:016x}", z.to_bits(), t.to_bits(), phi.to_bits()),
            answer_sp(&got),
            why,
        );
    }
}

/// A z strictly inside slice `i` (between the previous bound and this one).
fn z_in_slice(rng: &mut Rng, i: usize) -> f64 {
    let tb = tables();
    let lo = if i == 0 { 0.0 } else { tb[i - 1].1 };
    let hi = tb[i].1;
    let z = lo + (hi - lo) * (0.05 + 0.9 * rng.f64_unit());
    if rng.bool() {
        z
    } else {
        -z
    }
}

/// `|r(t_j + 8 ns) - r(t_j)|` on the real code for knot `j` of slice `i` (`None`: second lookup out of range).
fn step_at(i: usize, j: usize, z: f64) -> (Result<Look, String>, Result<Look, String>, Option<f64>) {
    let t = tables()[i].0[j].0;
    let a = lookup(z, t, 0.0);
    let b = lookup(z, t + STEP_DT, 0.0);
    let d = match (&a, &b) {
        (Ok(Look::Ok { r: r0, .. }), Ok(Look::Ok { r: r1, .. })) => Some((r1 - r0).abs()),
        _ => None,
    };
    (a, b, d)
}

pub fn generate(s: &mut Session, thorough: bool) -> bool {
    let mut rng = Rng::new(s.seed);
    let tb = tables();
    let known = known_exceptions();
    let nslices = tb.len();
    let zmids: Vec<f64> = (0..nslices).map(|i| z_in_slice(&mut rng, i).abs()).collect();

    // (0) 8 ns steps: every knot interval of every slice is evaluated on the real code (cheap,
    // in-process); the intervals over 0.5 mm become cases (known ones last, unlisted ones first
    // so that the report's truncated failure list shows them), plus a sample of the others.
    let mut over_known: Vec<(usize, usize)> = Vec::new();
    let mut over_unlisted: Vec<(usize, usize)> = Vec::new();
    let mut step_sample: Vec<(usize, usize)> = Vec::new();
    let mut worst = (0.0f64, 0usize, 0usize);
    let mut intervals = 0usize;
    for i in 0..nslices {
        let n = tb[i].0.len();
        for j in 0..n {
            let (_, _, d) = step_at(i, j, zmids[i]);
            let Some(d) = d else { continue };
            intervals += 1;
            if d > worst.0 {
                worst = (d, i, j);
            }
            if !(d < STEP_MAX) {
                if known.contains(&(i, j)) {
                    over_known.push((i, j));
                } else {
                    over_unlisted.push((i, j));
                }
            } else if thorough || j < 2 || j + 3 >= n || rng.below(40) == 0 {
                step_sample.push((i, j));
            }
        }
    }
    let stale: Vec<(usize, usize)> = known.iter().filter(|e| !over_known.contains(e)).cloned().collect();
    s.notes.insert("step_intervals_evaluated".into(), serde_json::json!(intervals));
    s.notes.insert("step_worst".into(), serde_json::json!({"delta_r_m": worst.0, "slice": worst.1, "knot": worst.2}));
    s.notes.insert("step_over_known".into(), serde_json::json!(over_known));
    s.notes.insert("step_over_unlisted".into(), serde_json::json!(over_unlisted));
    s.notes.insert("step_known_but_not_over".into(), serde_json::json!(stale));
    s.notes.insert("known_exceptions_loaded".into(), serde_json::json!(known.len()));
    let push_step = |s: &mut Session, gen: &'static str, i: usize, j: usize| {
        let (a, b, d) = step_at(i, j, zmids[i]);
        let t = tb[i].0[j].0;
        let why = match d {
            Some(d) if !(d < STEP_MAX) => Some(if known.contains(&(i, j)) {
                format!("drift-step slice={i} knot={j} |dr|={:.6} mm over 8 ns (known exception)", d * 1e3)
            } else {
                format!("unlisted 8 ns step over 0.5 mm: slice {i} knot {j} |dr|={:.6} mm (not in known_drift_exceptions.json)", d * 1e3)
            }),
            _ => None,
        };
        s.push_oracle(gen, req2("step", zmids[i], t), answer_step(&a, &b), why);
    };
    for &(i, j) in &over_unlisted {
        push_step(s, "step-unlisted", i, j);
    }

    let mut g = Gen { s, last: None };

    // (i) every slice bound -1 ulp, exact, +1 ulp, both signs, at characteristic times
    for i in 0..nslices {
        let b = tb[i].1;
        let knots = &tb[i].0;
        let (t0, tl) = (knots[0].0, knots[knots.len() - 1].0);
        // the next slice's last time differs: probe both slices' ends
        let tl_next = if i + 1 < nslices { tb[i + 1].0[tb[i + 1].0.len() - 1].0 } else { tl };
        let mid = knots[knots.len() / 2].0 + 1e-9;
        for zb in [ulp_down(b), b, ulp_up(b)] {
            for z in [zb, -zb] {
                for t in [t0, ulp_down(t0), mid, tl, ulp_up(tl), tl_next, ulp_up(tl_next), ulp_down(tl.min(tl_next))] {
                    g.point("slice-bound", z, t);
                }
            }
        }
    }

    // (ii) knot times -1 ulp, exact, +1 ulp (all knots of all slices in thorough; first/last
    // three and a random subset in quick), in ascending time per slice (antitone pairs)
    for i in 0..nslices {
        let knots = &tb[i].0;
        let n = knots.len();
        let z = z_in_slice(&mut rng, i);
        let extra = if thorough { n } else { 22 };
        let mut pick: BTreeSet<usize> = [0, 1, 2, n - 3, n - 2, n - 1].into_iter().collect();
        if thorough {
            pick.extend(0..n);
        } else {
            for _ in 0..extra {
                pick.insert(rng.below(n as u64) as usize);
            }
            // the steep first 150 ns
            pick.extend((3..20).filter(|_| rng.below(4) == 0));
        }
        // thorough: also at the slice's upper bound (both signs) and just above the previous bound
        let mut zs = vec![z];
        if thorough {
            zs.push(tb[i].1);
            zs.push(-tb[i].1);
            zs.push(if i == 0 { 0.0 } else { ulp_up(tb[i - 1].1) });
        }
        for z in zs {
            g.last = None;
            for &j in &pick {
                let t = knots[j].0;
                g.point("knot", z, ulp_down(t));
                g.point("knot", z, t);
                g.point("knot", z, ulp_up(t));
            }
        }
    }

    // (iii) random z in [-1.3, 1.3], t in [-1e-6, 5e-6]; ascending runs of times at a fixed z
    let n_random = if thorough { 60_000 } else { 2_500 };
    for _ in 0..n_random {
        let z = -1.3 + 2.6 * rng.f64_unit();
        let t = -1e-6 + 6e-6 * rng.f64_unit();
        g.point("random", z, t);
    }
    // the exact 8 ns grid across t = 0: negative multiples of the step must be refused like every
    // other negative time (a "time lies exactly on a row" fast path that converts a negative row number:
    // seed C18-12), non-negative ones reproduce the rows
    {
        let step = 8e-9f64;
        for z in [0.0, 0.34875, -0.34875, 0.7, -0.9, 1.1, 1.152, -1.152] {
            for k in -260i64..=40 {
                g.point("grid-across-zero", z, k as f64 * step);
            }
            for k in [-1_000_000i64, -125_000, -100_000, -12_500] {
                g.point("grid-across-zero", z, k as f64 * step);
            }
        }
    }
    let n_runs = if thorough { 2_000 } else { 100 };
    for _ in 0..n_runs {
        let z = -1.16 + 2.32 * rng.f64_unit();
        let mut ts: Vec<f64> = (0..20).map(|_| -2e-7 + 4.7e-6 * rng.f64_unit()).collect();
        // a few sub-interval runs (several samples inside one knot interval)
        if rng.bool() {
            let base = 4e-6 * rng.f64_unit();
            ts = (0..20).map(|k| base + 1.1e-9 * k as f64).collect();
        }
        ts.sort_by(|a, b| a.partial_cmp(b).unwrap());
        g.last = None;
        for t in ts {
            g.point("ascending-run", z, t);
        }
    }

    // (iv) non-finite and signed-zero inputs (outside the property's quantifier: model
    // correspondence only, no oracle), crossed with valid values
    let specials = [
        f64::NAN,
        f64::INFINITY,
        f64::NEG_INFINITY,
        0.0,
        -0.0,
        f64::from_bits(1),
        -f64::from_bits(1),
        f64::MAX,
        f64::MIN,
        f64::MIN_POSITIVE,
        1e-7,
        0.5,
        -1.152,
    ];
    for &z in &specials {
        for &t in &specials {
            g.point("special", z, t);
        }
    }

    // (v) space points with a random azimuth
    let n_sp = if thorough { 40_000 } else { 2_000 };
    for k in 0..n_sp {
        let i = rng.below(nslices as u64) as usize;
        let z = if k % 10 == 0 { -1.3 + 2.6 * rng.f64_unit() } else { z_in_slice(&mut rng, i) };
        let knots = &tb[i].0;
        let t = match k % 4 {
            0 => knots[rng.below(knots.len() as u64) as usize].0,
            1 => -1e-6 + 6e-6 * rng.f64_unit(),
            _ => knots[knots.len() - 1].0 * rng.f64_unit(),
        };
        let phi = match k % 7 {
            0 => 0.0,
            1 => -0.0,
            2 => std::f64::consts::PI,
            _ => (rng.f64_unit() - 0.5) * 4.0 * std::f64::consts::PI,
        };
        g.sp("space-point", z, t, phi);
    }
    for &p in &[f64::NAN, f64::INFINITY, -0.0] {
        g.sp("space-point", 0.3, 1e-6, p);
        g.sp("space-point", 2.0, 1e-6, p);
        g.sp("space-point", 0.3, -1.0, p);
    }

    // (vi) 8 ns steps: sample of conforming intervals, then the known exceptions
    let s = g.s;
    for &(i, j) in &step_sample {
        push_step(s, "step", i, j);
    }
    for &(i, j) in &over_known {
        push_step(s, "step-known-exception", i, j);
    }
    true
}
