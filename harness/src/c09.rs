//! C09: every main event yields a result — `MainEvent::try_from_banks`, `timestamp`, `avalanches`
//! and `vertex` never panic (the harness is built and run in dev and release).
//!
//! Requests are the `event …` lines of C10 (so that any failure replays through
//! `corr replay`); the canonical answer is the one of C10 (`ok <ts> <slots>` | `err V`), compared
//! with the Lean model as well. The oracle: no panic in any of the four functions; what the
//! float pipeline does with NaN is *sampled* here, not proved (see Props/C09.lean).
use crate::c10::{self, Banks, PwbSpec, Spec, WireSpec};
use crate::{guarded, Rng, Session};
use alpha_g_detector::alpha16::aw_map::TpcWirePosition;
use alpha_g_detector::alpha16::{self, Adc32ChannelId};
use alpha_g_detector::padwing::map::{TpcPadPosition, TpcPadRow};
use alpha_g_detector::padwing::{self, AfterId};
use alpha_g_physics::verif as hooks;
use alpha_g_physics::MainEvent;
use std::collections::BTreeMap;

/// Bit patterns of everything `timestamp`, `avalanches` and `vertex` return.
pub fn results(ev: &MainEvent) -> Result<String, String> {
    let ts = guarded(|| ev.timestamp()).map_err(|m| format!("timestamp() panicked: {m}"))?;
    let av = guarded(|| ev.avalanches()).map_err(|m| format!("avalanches() panicked: {m}"))?;
    let vx = guarded(|| ev.vertex()).map_err(|m| format!("vertex() panicked: {m}"))?;
    let mut h: u64 = 0xcbf29ce484222325;
    let mut mix = |x: u64| {
        for b in x.to_le_bytes() {
            h ^= b as u64;
            h = h.wrapping_mul(0x100000001b3);
        }
    };
    for a in &av {
        mix(a.t.value.to_bits());
        mix(a.phi.value.to_bits());
        mix(a.z.value.to_bits());
        mix(a.wire_amplitude.to_bits());
        mix(a.pad_amplitude.to_bits());
    }
    // the space point of every avalanche (drift-table look-up): part of what vertex() computes, made
    // observable on its own so that events without a vertex show it too (seed C11-8: a look-up that
    // remembered the last z region)
    let mut hp: u64 = 0xcbf29ce484222325;
    let mut npts = 0usize;
    {
        let mut mixp = |x: u64| {
            for b in x.to_le_bytes() {
                hp ^= b as u64;
                hp = hp.wrapping_mul(0x100000001b3);
            }
        };
        for a in &av {
            match guarded(|| alpha_g_physics::SpacePoint::try_from(*a)) {
                Err(m) => return Err(format!("SpacePoint::try_from panicked: {m}")),
                Ok(Ok(p)) => {
                    npts += 1;
                    mixp(p.r.value.to_bits());
                    mixp(p.phi.value.to_bits());
                    mixp(p.z.value.to_bits());
                }
                Ok(Err(_)) => mixp(0xE44),
            }
        }
    }
    let v = match vx {
        None => "none".to_string(),
        Some(c) => format!("{:016x},{:016x},{:016x}", c.x.value.to_bits(), c.y.value.to_bits(), c.z.value.to_bits()),
    };
    Ok(format!("ts={ts} avalanches={}:{h:016x} points={npts}:{hp:016x} vertex={v}", av.len()))
}

/// Build and reconstruct; `(canonical answer of the build, oracle verdict, results)`.
pub fn run_all(run: u32, banks: &Banks) -> (String, Option<String>, Option<String>) {
    let (imp, ev) = c10::run_impl(run, banks);
    if imp.starts_with("panic") {
        return (imp.clone(), Some(format!("try_from_banks panicked: {imp}")), None);
    }
    match ev {
        None => (imp, None, None),
        Some(ev) => match results(&ev) {
            Ok(r) => (imp, None, Some(r)),
            Err(m) => (imp, Some(m), None),
        },
    }
}

fn add(s: &mut Session, gen: &'static str, run: u32, banks: &Banks, stats: &mut BTreeMap<&'static str, usize>) {
    let (imp, why, res) = run_all(run, banks);
    if let Some(r) = &res {
        *stats.entry("events reconstructed").or_default() += 1;
        if !r.contains("avalanches=0:") {
            *stats.entry("events with avalanches").or_default() += 1;
        }
        if !r.ends_with("vertex=none") {
            *stats.entry("events with a vertex").or_default() += 1;
        }
    }
    s.push_oracle(gen, c10::request_line(run, banks), imp, why);
}

pub fn run_request(cmd: &str, args: &[&str]) -> Option<String> {
    match cmd {
        // same request as C10; listed here so that the module replays alone
        "event" => {
            let (run, banks) = c10::parse_args(args)?;
            Some(run_all(run, &banks).0)
        }
        _ => None,
    }
}

// ------------------------------------------------------------------------------------------
// forward model of a simulated event (independent of the reconstruction code: straight tracks
// from a common point, drift times from the in-memory drift table, signals = amplitude times the
// detector response on top of the baseline)

pub struct Geometry {
    run: u32,
    /// wire index -> (index into a16_boards, channel)
    wire_src: Vec<(usize, u8)>,
    /// pad (col, row) -> (index into pwb_boards, chip, readout index)
    pad_src: BTreeMap<(usize, usize), (usize, u8, u16)>,
    wire_phi: Vec<f64>,
    row_z: Vec<f64>,
    wire_resp: Vec<f64>,
    pad_resp: Vec<f64>,
    drift: Vec<(Vec<(f64, f64, f64)>, f64)>,
}

impl Geometry {
    /// An event with one block of `len` contiguous anode wires starting at `start` (wrapping over the
    /// 255/0 seam), each wire with a pulse; no pads. Used for history tests of the block solver.
    pub fn block_event(&self, rng: &mut Rng, start: usize, len: usize, samples: usize) -> Spec {
        let dw = hooks::wire_delay(self.run).unwrap_or(100);
        let clip = |x: f64| x.round().clamp(-32768.0, 32767.0) as i16;
        let mut wires = Vec::new();
        let mut chips: BTreeMap<(usize, u8), Vec<(u16, Vec<i16>)>> = BTreeMap::new();
        // pad rows in a random order, so that consecutive avalanches jump between the z regions of the
        // drift tables and the first one is anywhere (a look-up that remembers the previous region)
        let mut row_perm: Vec<usize> = (0..78).collect();
        rng.shuffle(&mut row_perm);
        for k in 0..len {
            let w = (start + k) % 256;
            let pos = TpcWirePosition::try_from(w).unwrap();
            let bl = hooks::wire_baseline(self.run, pos).unwrap_or(0) as f64;
            let gn = hooks::wire_gain(self.run, pos).unwrap_or(1.0);
            let mut sig = vec![0.0; samples];
            let bin = 5 + rng.below(60) as usize;
            let a = 300.0 + 10.0 * rng.below(200) as f64;
            for (i, x) in self.wire_resp.iter().enumerate() {
                if dw + bin + i < sig.len() {
                    sig[dw + bin + i] += a * x;
                }
            }
            let (board, ch) = self.wire_src[w];
            wires.push(WireSpec { board, ch, wave: sig.iter().map(|x| clip(bl + x / gn)).collect() });
            // a pad cloud in the wire's column at the same time bin, so that the deconvolved wire
            // amplitude becomes observable through an avalanche
            let col = hooks::verif_wire_to_pad_column(w);
            let row0 = 8 + 7 * row_perm[k % 78];
            for (d, f) in [0.45, 1.0, 0.35].iter().enumerate() {
                let r = row0 + d;
                let Some(&(pboard, chip, readout)) = self.pad_src.get(&(col, r)) else { continue };
                let ppos = TpcPadPosition { column: col.try_into().unwrap(), row: r.try_into().unwrap() };
                let pbl = hooks::pad_baseline(self.run, ppos).unwrap_or(0) as f64;
                let pgn = hooks::pad_gain(self.run, ppos).unwrap_or(1.0);
                let dp = hooks::pad_delay(self.run).unwrap_or(100);
                let mut psig = vec![0.0; samples];
                for (i, x) in self.pad_resp.iter().enumerate() {
                    if dp + bin + i < psig.len() {
                        psig[dp + bin + i] += 2.0 * a * f * x;
                    }
                }
                chips.entry((pboard, chip)).or_default().push((readout, psig.iter().map(|x| clip(pbl + x / pgn)).collect()));
            }
        }
        let mut pads = Vec::new();
        for ((board, chip), mut sent) in chips {
            sent.sort_by_key(|x| x.0);
            sent.dedup_by_key(|x| x.0);
            pads.push(PwbSpec { board, chip, req: samples as u16, sent, chunk_size: 1400 });
        }
        Spec { run: self.run, ts: rng.next() as u32, wires, pads }
    }

    pub fn new(run: u32) -> Option<Geometry> {
        let mut wire_src = vec![(0usize, 0u8); 256];
        for (bi, (name, _)) in c10::a16_boards().iter().enumerate() {
            let b = alpha16::BoardId::try_from(name.as_str()).unwrap();
            for ch in 0..32u8 {
                let p = TpcWirePosition::try_new(run, b, Adc32ChannelId::try_from(ch).unwrap()).ok()?;
                wire_src[usize::from(p)] = (bi, ch);
            }
        }
        let mut pad_src = BTreeMap::new();
        for &bi in &c10::installed_boards(run) {
            let b = padwing::BoardId::try_from(c10::pwb_boards()[bi].0.as_str()).unwrap();
            for chip in 0..4u8 {
                for readout in 1..=79u16 {
                    if let Ok(padwing::ChannelId::Pad(pc)) = padwing::ChannelId::try_from(readout) {
                        if let Ok(p) = TpcPadPosition::try_new(run, b, AfterId::try_from(chip).unwrap(), pc) {
                            pad_src.insert((usize::from(p.column), usize::from(p.row)), (bi, chip, readout));
                        }
                    }
                }
            }
        }
        Some(Geometry {
            run,
            wire_src,
            pad_src,
            wire_phi: (0..256).map(|i| TpcWirePosition::try_from(i).unwrap().phi()).collect(),
            row_z: (0..576).map(|i| TpcPadRow::try_from(i).unwrap().z()).collect(),
            wire_resp: hooks::verif_wire_response(),
            pad_resp: hooks::verif_pad_response(),
            drift: hooks::verif_drift_tables(),
        })
    }

    /// Drift time and Lorentz angle of an ionisation at radius `r`, height `z`.
    fn drift_time(&self, r: f64, z: f64) -> Option<(f64, f64)> {
        let (table, _) = self.drift.iter().find(|(_, zu)| *zu >= z.abs())?;
        for w in table.windows(2) {
            let ((t0, r0, c0), (t1, r1, c1)) = (w[0], w[1]);
            if (r0 >= r && r >= r1) || (r0 <= r && r <= r1) {
                let f = if r1 == r0 { 0.0 } else { (r - r0) / (r1 - r0) };
                return Some((t0 + f * (t1 - t0), c0 + f * (c1 - c0)));
            }
        }
        None
    }

    fn nearest_wire(&self, phi: f64) -> usize {
        let tau = std::f64::consts::TAU;
        let mut best = (0, f64::MAX);
        for (i, p) in self.wire_phi.iter().enumerate() {
            let d = (phi - p).rem_euclid(tau);
            let d = d.min(tau - d);
            if d < best.1 {
                best = (i, d);
            }
        }
        best.0
    }

    fn nearest_row(&self, z: f64) -> Option<usize> {
        let mut best = (0, f64::MAX);
        for (i, p) in self.row_z.iter().enumerate() {
            if (z - p).abs() < best.1 {
                best = (i, (z - p).abs());
            }
        }
        if best.1 > 0.01 {
            None
        } else {
            Some(best.0)
        }
    }

    /// A simulated-looking event: `ntracks` straight tracks from a common point near the axis,
    /// `npoints` ionisation clusters each, electronic noise of `noise` ADC counts.
    pub fn event(&self, rng: &mut Rng, ntracks: usize, npoints: usize, noise: f64, wire_len: usize, pad_len: usize) -> Spec {
        let run = self.run;
        let dw = hooks::wire_delay(run).unwrap_or(100);
        let dp = hooks::pad_delay(run).unwrap_or(100);
        let mut wire_sig: BTreeMap<usize, Vec<f64>> = BTreeMap::new();
        let mut pad_sig: BTreeMap<(usize, usize), Vec<f64>> = BTreeMap::new();
        let (vx, vy, vz) = (0.01 * (rng.f64_unit() - 0.5), 0.01 * (rng.f64_unit() - 0.5), 0.8 * (rng.f64_unit() - 0.5));
        for _ in 0..ntracks {
            let phi0 = std::f64::consts::TAU * rng.f64_unit();
            let theta = 0.5 + 2.1 * rng.f64_unit();
            let (dx, dy, dz) = (theta.sin() * phi0.cos(), theta.sin() * phi0.sin(), theta.cos());
            for k in 0..npoints {
                // radius between the inner cathode and the anode wires
                let r = 0.112 + (0.178 - 0.112) * (k as f64 + rng.f64_unit()) / npoints as f64;
                let s = r / theta.sin().abs().max(0.05);
                let (x, y, z) = (vx + s * dx, vy + s * dy, vz + s * dz);
                let (r, phi) = ((x * x + y * y).sqrt(), y.atan2(x));
                let Some((t, corr)) = self.drift_time(r, z) else { continue };
                let wire = self.nearest_wire(phi + corr);
                let Some(row) = self.nearest_row(z) else { continue };
                let col = hooks::verif_wire_to_pad_column(wire);
                let bin = (t * 62.5e6) as usize;
                let a = 300.0 + 1500.0 * rng.f64_unit();
                let ws = wire_sig.entry(wire).or_insert_with(|| vec![0.0; wire_len]);
                for (j, x) in self.wire_resp.iter().enumerate() {
                    if dw + bin + j < ws.len() {
                        ws[dw + bin + j] += a * x;
                    }
                }
                for (d, f) in [(-1i64, 0.45), (0, 1.0), (1, 0.4)] {
                    let rr = row as i64 + d;
                    if !(0..576).contains(&rr) {
                        continue;
                    }
                    let ps = pad_sig.entry((col, rr as usize)).or_insert_with(|| vec![0.0; pad_len]);
                    for (j, x) in self.pad_resp.iter().enumerate() {
                        if dp + bin + j < ps.len() {
                            ps[dp + bin + j] += 2.0 * a * f * x;
                        }
                    }
                }
            }
        }
        let clip = |x: f64| x.round().clamp(-32768.0, 32767.0) as i16;
        let mut wires = Vec::new();
        for (w, sig) in wire_sig {
            let pos = TpcWirePosition::try_from(w).unwrap();
            let bl = hooks::wire_baseline(run, pos).unwrap_or(0) as f64;
            let g = hooks::wire_gain(run, pos).unwrap_or(1.0);
            let (board, ch) = self.wire_src[w];
            let wave = sig.iter().map(|x| clip(bl + x / g + noise * (2.0 * rng.f64_unit() - 1.0))).collect();
            wires.push(WireSpec { board, ch, wave });
        }
        let mut chips: BTreeMap<(usize, u8), Vec<(u16, Vec<i16>)>> = BTreeMap::new();
        for ((c, r), sig) in pad_sig {
            let Some(&(board, chip, readout)) = self.pad_src.get(&(c, r)) else { continue };
            let pos = TpcPadPosition { column: c.try_into().unwrap(), row: r.try_into().unwrap() };
            let bl = hooks::pad_baseline(run, pos).unwrap_or(0) as f64;
            let g = hooks::pad_gain(run, pos).unwrap_or(1.0);
            let wave = sig.iter().map(|x| clip(bl + x / g + noise * (2.0 * rng.f64_unit() - 1.0))).collect();
            chips.entry((board, chip)).or_default().push((readout, wave));
        }
        let mut pads = Vec::new();
        for ((board, chip), mut sent) in chips {
            sent.sort_by_key(|x| x.0);
            pads.push(PwbSpec { board, chip, req: pad_len as u16, sent, chunk_size: 1400 });
        }
        Spec { run, ts: rng.next() as u32, wires, pads }
    }
}

// ------------------------------------------------------------------------------------------
// generators

fn name_pool(rng: &mut Rng) -> String {
    let a16 = c10::a16_boards();
    let pwb = c10::pwb_boards();
    match rng.below(12) {
        0 => "ATAT".to_string(),
        1 => c10::c_name(&a16[rng.below(8) as usize].0, rng.below(32) as u8),
        2 => c10::b_name(&a16[rng.below(8) as usize].0, rng.below(16) as u8),
        3 => c10::pc_name(&pwb[rng.below(pwb.len() as u64) as usize].0),
        4 => "TRBA".to_string(),
        5 => "MCVX".to_string(),
        6 => String::from_utf8_lossy(&rng.bytes(4)).to_string(),
        7 => ["", "C", "PC", "C09", "PC000", "C09AA", "é€", "ATA", "ATATT", "C+9A", "C0+A", "PC+1", "Cé9", "PCé"][rng.below(14) as usize].to_string(),
        // names of exactly 4 bytes with a non-ASCII upper-case letter / digit where the parsers slice by
        // byte index (seed C09-6)
        11 if rng.bool() => {
            let p = *rng.pick(&["B", "C", "P", "A"]);
            let x = *rng.pick(&["É", "Σ", "Я", "٣", "¹", "é"]);
            let d = (b'0' + rng.below(10) as u8) as char;
            match rng.below(3) { 0 => format!("{p}{d}{x}"), 1 => format!("{p}{x}{d}"), _ => format!("{p}{}", "Ａ") }
        }
        8 => format!("C{:02}{}", rng.below(100), (b'0' + rng.below(43) as u8) as char),
        9 => format!("PC{:02}", rng.below(100)),
        10 => format!("B{:02}{:X}", rng.below(100), rng.below(16)),
        _ => "SEQ2".to_string(),
    }
}

/// Re-encode a consistent event after forcing one field or sample to an extreme.
fn extremes(s: &mut Session, rng: &mut Rng, run: u32, stats: &mut BTreeMap<&'static str, usize>) {
    let a16 = c10::a16_boards();
    let dw = hooks::wire_delay(run).unwrap_or(100);
    let dp = hooks::pad_delay(run).unwrap_or(100);
    let base = c10::small_spec(rng, run);
    // samples
    for v in [i16::MIN, i16::MAX, -1, 0, i16::MIN + 1] {
        let mut sp = base.clone();
        for w in sp.wires.iter_mut() {
            let n = w.wave.len();
            match rng.below(3) {
                0 => w.wave = vec![v; n],
                1 => w.wave[n - 1] = v,
                _ => w.wave[rng.below(n as u64) as usize] = v,
            }
        }
        for p in sp.pads.iter_mut() {
            for (_, w) in p.sent.iter_mut() {
                let n = w.len();
                match rng.below(3) {
                    0 => *w = vec![v; n],
                    1 => w[n - 1] = v,
                    _ => w[rng.below(n as u64) as usize] = v,
                }
            }
        }
        let b = c10::spec_banks(rng, &sp);
        add(s, "extreme-samples", run, &b, stats);
    }
    // PWB requested_samples 0 / 1 / 511 and others around the delay; all 79 channels
    let installed = c10::installed_boards(run);
    for req in [0u16, 1, 2, 67, 68, dp as u16 - 1, dp as u16, dp as u16 + 1, 510, 511] {
        let board = if installed.is_empty() { 0 } else { *rng.pick(&installed) };
        let all = rng.bool();
        let idx: Vec<u16> = if all { (1..=79).collect() } else { vec![1, 2, 16, 17, 79] };
        let p = PwbSpec {
            board,
            chip: rng.below(4) as u8,
            req,
            sent: idx.iter().map(|&i| (i, (0..req).map(|_| [i16::MIN, i16::MAX, 0, rng.next() as i16][rng.below(4) as usize]).collect())).collect(),
            chunk_size: *rng.pick(&[64usize, 1400, 100000]),
        };
        let sp = Spec { pads: vec![p], ..base.clone() };
        let b = c10::spec_banks(rng, &sp);
        add(s, "extreme-pwb", run, &b, stats);
    }
    // no channel sent at all
    {
        let board = if installed.is_empty() { 0 } else { *rng.pick(&installed) };
        let p = PwbSpec { board, chip: 0, req: 511, sent: vec![], chunk_size: 1400 };
        let sp = Spec { pads: vec![p], ..base.clone() };
        let b = c10::spec_banks(rng, &sp);
        add(s, "extreme-pwb", run, &b, stats);
    }
    // ADC waveform lengths: minimum, around the delay, long
    for n in [64usize, 65, dw.max(64) - 1, dw.max(64), dw + 1, dw + 2, 699, 1000] {
        let n = n.max(64);
        let sp = Spec {
            wires: vec![WireSpec { board: rng.below(8) as usize, ch: rng.below(32) as u8, wave: (0..n).map(|_| [i16::MIN, i16::MAX, 5, rng.next() as i16][rng.below(4) as usize]).collect() }],
            ..base.clone()
        };
        let b = c10::spec_banks(rng, &sp);
        add(s, "extreme-adc-length", run, &b, stats);
    }
    // suppressed packets, duplicated / missing / foreign banks
    {
        let mut b = c10::spec_banks(rng, &base);
        b.insert(0, (c10::c_name(&a16[1].0, 4), c10::adc_short(rng, 128 + 4)));
        add(s, "suppressed", run, &b, stats);
        let mut d = b.clone();
        let k = rng.below(d.len() as u64) as usize;
        d.insert(k, b[k].clone());
        add(s, "duplicated-bank", run, &d, stats);
        let mut m = b.clone();
        m.remove(rng.below(m.len() as u64) as usize);
        add(s, "missing-bank", run, &m, stats);
        let mut f = b.clone();
        f.insert(rng.below(f.len() as u64) as usize, (name_pool(rng), rng.bytes(40)));
        add(s, "foreign-bank", run, &f, stats);
        let mut f = b.clone();
        let k = rng.below(f.len() as u64) as usize;
        f[k].0 = name_pool(rng);
        add(s, "foreign-bank", run, &f, stats);
    }
}

pub fn generate(s: &mut Session, thorough: bool) -> bool {
    let mut rng = Rng::new(s.seed);
    let mut stats: BTreeMap<&'static str, usize> = BTreeMap::new();
    let runs = c10::run_classes();
    // (i) random names × random bytes
    for _ in 0..(if thorough { 40000 } else { 1500 }) {
        let run = *rng.pick(&runs);
        let n = rng.below(5) as usize;
        let banks: Banks = (0..n).map(|_| (name_pool(&mut rng), { let k = rng.below(90) as usize; rng.bytes(k) })).collect();
        add(s, "random-names-bytes", run, &banks, &mut stats);
    }
    // (ii) extremes at every run class
    for _ in 0..(if thorough { 10 } else { 1 }) {
        for &run in &runs {
            extremes(s, &mut rng, run, &mut stats);
        }
    }
    // (iii) realistic simulated-looking events (few: `vertex()` is slow)
    for run in [u32::MAX, 11084, 9277] {
        let Some(g) = Geometry::new(run) else { continue };
        for k in 0..(if thorough { 30 } else { 3 }) {
            let (nt, np) = if k == 0 { (2, 20) } else { (rng.range(1, 4) as usize, rng.range(8, 30) as usize) };
            let noise = if rng.bool() { 0.0 } else { 3.0 };
            let spec = g.event(&mut rng, nt, np, noise, 512, 400);
            let banks = c10::spec_banks(&mut rng, &spec);
            add(s, "simulated-event", run, &banks, &mut stats);
            // the same event with one wire sample and one pad sample forced to the extremes
            let mut sp = spec.clone();
            if let Some(w) = sp.wires.first_mut() {
                let n = w.wave.len();
                w.wave[n - 3] = i16::MIN;
                w.wave[n - 2] = i16::MAX;
            }
            if let Some(p) = sp.pads.first_mut() {
                if let Some((_, w)) = p.sent.first_mut() {
                    let n = w.len();
                    w[n - 3] = i16::MIN;
                    w[n - 2] = i16::MAX;
                }
            }
            let banks = c10::spec_banks(&mut rng, &sp);
            add(s, "simulated-event-extreme", run, &banks, &mut stats);
        }
    }
    // (iv) near-valid events: one bit / one byte of one bank of a consistent event changed. The
    // decoders' own harnesses (C01-C06) do this on single packets; here the changed packet goes
    // through try_from_banks, timestamp, avalanches and vertex (a decoder panic on a near-valid
    // TRG word or chunk is a crash of the whole event).
    for run in [u32::MAX, 11084] {
        let base = c10::small_spec(&mut rng, run);
        let banks = c10::spec_banks(&mut rng, &base);
        for (bi, (name, data)) in banks.iter().enumerate() {
            let positions: Vec<usize> = if name == "ATAT" || data.len() <= 120 {
                (0..data.len()).collect()
            } else {
                // headers and footers of long packets, plus a stride through the body
                (0..56.min(data.len())).chain((data.len() - 8)..data.len()).chain((56..data.len() - 8).step_by(97)).collect()
            };
            for &pos in &positions {
                for bit in 0..8 {
                    if !thorough && name != "ATAT" && bit % 3 != 0 {
                        continue;
                    }
                    let mut b = banks.clone();
                    b[bi].1[pos] ^= 1 << bit;
                    add(s, "near-valid-bit", run, &b, &mut stats);
                }
                for v in [0x01u8, 0x0F, 0x7F, 0x80, 0xFF] {
                    if !thorough && name != "ATAT" && pos % 4 != 0 {
                        continue;
                    }
                    let mut b = banks.clone();
                    b[bi].1[pos] = v;
                    add(s, "near-valid-byte", run, &b, &mut stats);
                }
            }
        }
        // the same inside a PWB packet, with the chunk CRCs recomputed so that the change
        // reaches the packet decoder and the event builder
        if let Some(p) = base.pads.first() {
            let boards = c10::pwb_boards();
            let (bname, mac, dev) = (&boards[p.board].0, boards[p.board].1, boards[p.board].2);
            let payload = c10::pwb_payload(&mut rng, mac, b'A' + p.chip, p.req, &p.sent);
            for pos in (0..56.min(payload.len())).chain((payload.len().saturating_sub(6))..payload.len()) {
                for v in [payload[pos] ^ 1, payload[pos] ^ 0x80, 0x00, 0xFF] {
                    let mut pl = payload.clone();
                    pl[pos] = v;
                    let mut b: Banks = banks.iter().filter(|(n, _)| !n.starts_with("PC")).cloned().collect();
                    b.extend(c10::chunk_banks(&mut rng, &c10::pc_name(bname), &pl, p.chunk_size, dev, p.chip));
                    add(s, "near-valid-pwb-payload", run, &b, &mut stats);
                }
            }
        }
    }
    // (v) plateaus and exact ties: adjacent pads (and wires) carrying exactly the same waveform at
    // the time a wire fires. The pad centroid divides by ln(middle^2 / (first*last)): equal
    // amplitudes must never reach it (a NaN z would make the drift lookup in vertex() panic).
    if let Some(g) = Geometry::new(u32::MAX) {
        let run = u32::MAX;
        let dw = hooks::wire_delay(run).unwrap_or(100);
        let dp = hooks::pad_delay(run).unwrap_or(100);
        let clip = |x: f64| x.round().clamp(-32768.0, 32767.0) as i16;
        let shapes: [&[f64]; 8] = [
            &[1.0, 1.0, 1.0], &[1.0, 1.0, 0.5], &[0.5, 1.0, 1.0], &[1.0, 1.0, 1.0, 1.0], &[0.5, 1.0, 1.0, 0.5],
            &[1.0, 1.0], &[0.25, 1.0, 0.25, 1.0, 0.25], &[1.0, 0.5, 1.0],
        ];
        for (k, shape) in shapes.iter().enumerate() {
            for rep in 0..(if thorough { 12 } else { 3 }) {
                let wire = rng.below(256) as usize;
                let col = hooks::verif_wire_to_pad_column(wire);
                let row0 = rng.range(1, 560) as usize;
                let bin = rng.range(5, 200) as usize;
                let a = [200.0, 800.0, 3000.0][rep % 3];
                let mut wires = Vec::new();
                for (j, dwire) in [0usize, 1].iter().enumerate() {
                    // one wire, or two adjacent wires with exactly equal amplitudes
                    if j == 1 && k % 2 == 0 {
                        continue;
                    }
                    let w = (wire + dwire) % 256;
                    if hooks::verif_wire_to_pad_column(w) != col {
                        continue;
                    }
                    let pos = TpcWirePosition::try_from(w).unwrap();
                    let bl = hooks::wire_baseline(run, pos).unwrap_or(0) as f64;
                    let gn = hooks::wire_gain(run, pos).unwrap_or(1.0);
                    let mut sig = vec![0.0; 400];
                    for (i, x) in g.wire_resp.iter().enumerate() {
                        if dw + bin + i < sig.len() {
                            sig[dw + bin + i] += a * x;
                        }
                    }
                    let (board, ch) = g.wire_src[w];
                    wires.push(WireSpec { board, ch, wave: sig.iter().map(|x| clip(bl + x / gn)).collect() });
                }
                let mut chips: BTreeMap<(usize, u8), Vec<(u16, Vec<i16>)>> = BTreeMap::new();
                for (d, f) in shape.iter().enumerate() {
                    let r = row0 + d;
                    if r >= 576 {
                        continue;
                    }
                    let Some(&(board, chip, readout)) = g.pad_src.get(&(col, r)) else { continue };
                    let pos = TpcPadPosition { column: col.try_into().unwrap(), row: r.try_into().unwrap() };
                    let bl = hooks::pad_baseline(run, pos).unwrap_or(0) as f64;
                    let gn = hooks::pad_gain(run, pos).unwrap_or(1.0);
                    let mut sig = vec![0.0; 400];
                    for (i, x) in g.pad_resp.iter().enumerate() {
                        if dp + bin + i < sig.len() {
                            sig[dp + bin + i] += 2.0 * a * f * x;
                        }
                    }
                    chips.entry((board, chip)).or_default().push((readout, sig.iter().map(|x| clip(bl + x / gn)).collect()));
                }
                let mut pads = Vec::new();
                for ((board, chip), mut sent) in chips {
                    sent.sort_by_key(|x| x.0);
                    pads.push(PwbSpec { board, chip, req: 400, sent, chunk_size: 1400 });
                }
                let spec = Spec { run, ts: rng.next() as u32, wires, pads };
                let banks = c10::spec_banks(&mut rng, &spec);
                add(s, "plateau-and-ties", run, &banks, &mut stats);
            }
        }
    }
    // (v-b) occupancy extremes of the anode ring: every wire with data (a run without data
    // suppression), all but one, and blocks that wrap over the 255/0 seam - quiet and with pulses
    // (seed C09-4: the ring-merge of contiguous_ranges popped its only block when the ring was full)
    for run in [u32::MAX, 11084] {
        let Some(g) = Geometry::new(run) else { continue };
        let dw = hooks::wire_delay(run).unwrap_or(100);
        let clip = |x: f64| x.round().clamp(-32768.0, 32767.0) as i16;
        for kind in 0..6usize {
            let holes: Vec<usize> = match kind {
                0 | 1 => vec![],
                2 => vec![rng.below(256) as usize],
                3 => (8..248).collect(),                 // one block 248..=255,0..=7 over the seam
                4 => (0..256).filter(|w| w % 16 >= 12).collect(),
                _ => vec![0],
            };
            let mut wires = Vec::new();
            for w in 0..256usize {
                if holes.contains(&w) {
                    continue;
                }
                let pos = TpcWirePosition::try_from(w).unwrap();
                let bl = hooks::wire_baseline(run, pos).unwrap_or(0) as f64;
                let gn = hooks::wire_gain(run, pos).unwrap_or(1.0);
                let n = 300 + 10 * (w % 7);
                let mut sig = vec![0.0; n];
                if kind != 0 && (w % 5 == 0 || rng.below(6) == 0) {
                    let bin = rng.range(5, 120) as usize;
                    let a = 300.0 + 200.0 * rng.below(10) as f64;
                    for (i, x) in g.wire_resp.iter().enumerate() {
                        if dw + bin + i < sig.len() {
                            sig[dw + bin + i] += a * x;
                        }
                    }
                }
                let (board, ch) = g.wire_src[w];
                wires.push(WireSpec { board, ch, wave: sig.iter().map(|x| clip(bl + x / gn)).collect() });
            }
            let spec = Spec { run, ts: rng.next() as u32, wires, pads: vec![] };
            let banks = c10::spec_banks(&mut rng, &spec);
            add(s, "ring-occupancy", run, &banks, &mut stats);
        }
    }
    // (vi) events of the independent forward model (harness/src/sim.rs): 2-4 helical tracks from a
    // common vertex, which the library reconstructs to a vertex
    #[cfg(feature = "sim")]
    {
        let mut with_vertex = 0usize;
        let n = if thorough { 60 } else { 8 };
        for i in 0..n {
            let mut cfg = crate::sim::SimConfig::default();
            if i % 4 == 3 {
                cfg.noise_adc = 3.0;
            }
            let ev = crate::sim::simulate_event(&mut crate::sim::event_rng(s.seed, i), &cfg);
            let banks: Banks = ev.banks.clone();
            let before = *stats.get("events with a vertex").unwrap_or(&0);
            add(s, "forward-model-event", crate::sim::SIM_RUN, &banks, &mut stats);
            if *stats.get("events with a vertex").unwrap_or(&0) > before {
                with_vertex += 1;
            }
        }
        s.notes.insert("forward_model_events_with_vertex".into(), serde_json::json!(format!("{with_vertex}/{n}")));
    }
    for (k, v) in stats {
        s.notes.insert(k.to_string(), serde_json::json!(v));
    }
    // several groups may fail for different reasons and `HashMap::into_values()` decides which
    // error is reported: error kinds are not compared strictly here
    false
}
