//! C20: alpha-g-chronobox-timestamps driven as a real process on streams produced by an
//! independent model of the hardware FIFO, cut arbitrarily into CBFn banks, events and files.
//! The CSV is compared (a) with the Lean row model (`cbrows` request per board) and (b) by an
//! oracle that knows the true tick of every edge.
use crate::midasw::*;
use crate::{Rng, Session};
use std::path::PathBuf;

#[derive(Clone, Debug)]
enum Item {
    /// edge at true tick `t` (before clearing bit 0), channel, leading?
    Edge { t: u64, ch: u8, leading: bool },
    Marker { counter: u32, top: bool },
    Scalers(Vec<u8>),
    /// a raw 4-byte word that is neither a timestamp, a marker nor a block start
    Junk([u8; 4]),
}

fn item_bytes(it: &Item) -> Vec<u8> {
    match it {
        Item::Edge { t, ch, leading } => {
            let low = ((*t & 0xFF_FFFE) as u32) | if *leading { 0 } else { 1 };
            let mut v = low.to_le_bytes()[..3].to_vec();
            v.push(0x80 | ch);
            v
        }
        Item::Marker { counter, top } => {
            let w = (counter & 0x7F_FFFF) | ((*top as u32) << 23);
            let mut v = w.to_le_bytes()[..3].to_vec();
            v.push(0xFF);
            v
        }
        Item::Scalers(b) => b.clone(),
        Item::Junk(w) => w.to_vec(),
    }
}

fn scalers_block(rng: &mut Rng) -> Vec<u8> {
    let mut v = vec![0x3C, 0x00, 0x00, 0xFE];
    // payload deliberately looks like timestamp words, markers and tags
    for _ in 0..60 {
        match rng.below(4) {
            0 => v.extend([rng.next() as u8, rng.next() as u8, rng.next() as u8, 0x80 | (rng.below(59) as u8)]),
            1 => v.extend([0, 0, 0, 0xFF]),
            2 => v.extend([0x3C, 0, 0, 0xFE]),
            _ => v.extend(rng.bytes(4)),
        }
    }
    assert_eq!(v.len(), 244);
    v
}

#[derive(Clone, Copy, Debug, PartialEq)]
enum Fault {
    None,
    DropMarker,
    DupMarker,
    TruncatedTail,
    Junk,
    NoEpoch0,
    FirstMarkerTop,
    LeftoverBlock,
    /// one marker's counter with one of its low four bits flipped (it may then read 0, or k+2 before k+1)
    FlipMarkerBit,
}

/// One board's stream from the hardware model. Returns the items in FIFO order.
fn board_stream(rng: &mut Rng, wraps: u64, fault: Fault) -> Vec<Item> {
    let half = 1u64 << 23;
    let t_end = wraps * 2 * half + rng.below(2 * half);
    let n_markers = t_end / half; // marker c at (c+1)*half <= t_end  <=> c < t_end/half
    // edges: random ticks, a share of them within a few ticks of a marker
    let n_edges = 10 + rng.below(120);
    let mut edges: Vec<(u64, u8, bool, i64)> = Vec::new(); // (tick, ch, leading, displacement in intervals)
    for _ in 0..n_edges {
        let near = rng.below(3) == 0 && n_markers > 0;
        let t = if near {
            let m = (1 + rng.below(n_markers)) * half;
            let d = rng.below(6) as i64 - 3;
            (m as i64 + d).max(0) as u64
        } else {
            rng.below(t_end.max(1))
        };
        // FIFO arbitration: an edge very close to a marker may end up on the other side
        let disp = if near && rng.below(3) == 0 { if t % half < half / 2 { -1 } else { 1 } } else { 0 };
        edges.push((t, rng.below(59) as u8, rng.bool(), disp));
    }
    edges.sort();
    // place edges into marker intervals: interval index = t / half + displacement
    let mut by_interval: Vec<Vec<Item>> = vec![Vec::new(); n_markers as usize + 2];
    for (t, ch, leading, disp) in edges {
        let k = ((t / half) as i64 + disp).clamp(0, n_markers as i64) as usize;
        by_interval[k].push(Item::Edge { t, ch, leading });
    }
    let mut items = Vec::new();
    let first_counter = if fault == Fault::NoEpoch0 { 1 } else { 0 };
    let drop_at = if fault == Fault::DropMarker && n_markers > 2 { Some(1 + rng.below(n_markers - 2)) } else { None };
    let dup_at = if fault == Fault::DupMarker && n_markers > 1 { Some(rng.below(n_markers)) } else { None };
    for c in 0..=n_markers {
        for it in by_interval[c as usize].drain(..) {
            if rng.below(15) == 0 {
                items.push(Item::Scalers(scalers_block(rng)));
            }
            items.push(it);
        }
        if c < n_markers && c >= first_counter && Some(c) != drop_at {
            let mut top = c % 2 == 1;
            if fault == Fault::FirstMarkerTop && c == 0 {
                top = true;
            }
            items.push(Item::Marker { counter: c as u32, top });
            if Some(c) == dup_at {
                items.push(Item::Marker { counter: c as u32, top });
            }
        }
    }
    if fault == Fault::FlipMarkerBit {
        let marks: Vec<usize> = items.iter().enumerate().filter(|(_, i)| matches!(i, Item::Marker { .. })).map(|(k, _)| k).collect();
        if !marks.is_empty() {
            // half of the time: a later marker whose counter is a power of two, made to read 0 (a second
            // "counter-0 marker" in the stream: everything in front of it still counts; seed C20-12)
            let pow2: Vec<usize> = marks
                .iter()
                .copied()
                .filter(|&k| matches!(items[k], Item::Marker { counter, .. } if counter != 0 && counter & (counter - 1) == 0 && counter < 16))
                .collect();
            if !pow2.is_empty() && rng.bool() {
                let k = pow2[rng.below(pow2.len() as u64) as usize];
                if let Item::Marker { counter, .. } = &mut items[k] {
                    *counter = 0;
                }
            } else {
                let k = marks[rng.below(marks.len() as u64) as usize];
                if let Item::Marker { counter, .. } = &mut items[k] {
                    *counter ^= 1 << rng.below(4);
                }
            }
        }
    }
    if fault == Fault::Junk {
        let mut pos = rng.below(items.len() as u64 + 1) as usize;
        let w = match rng.below(5) {
            0 => [rng.next() as u8, rng.next() as u8, rng.next() as u8, 0x80 | (59 + rng.below(68) as u8)],
            1 => [1, 2, 3, 0x7F & (rng.next() as u8)],
            2 => [0x3D, 0, 0, 0xFE],
            _ => {
                // a scalers-like header 0xFE0000nn whose nn (> 60) is exactly the number of words of the
                // next whole items, placed after the second marker: a parser that took the block length
                // from the header would swallow them and carry on (seed C20-5)
                let second_marker = items.iter().enumerate().filter(|(_, i)| matches!(i, Item::Marker { .. })).map(|(k, _)| k).nth(1);
                let start = second_marker.map(|k| k + 1).unwrap_or(0).min(items.len());
                pos = start + rng.below((items.len() - start) as u64 / 2 + 1) as usize;
                let mut words = 0usize;
                for it in &items[pos..] {
                    if words > 60 {
                        break;
                    }
                    words += item_bytes(it).len() / 4;
                }
                if words > 60 && words < (1 << 24) {
                    [words as u8, (words >> 8) as u8, (words >> 16) as u8, 0xFE]
                } else {
                    [0x3D, 0, 0, 0xFE]
                }
            }
        };
        items.insert(pos, Item::Junk(w));
    }
    items
}

/// What the oracle expects for one board: rows (channel, leading, expected time in ticks or
/// None), or the reason the program must fail.
fn expected(items: &[Item], remainder_empty: bool) -> Result<Vec<(u8, bool, Option<u64>)>, &'static str> {
    if !remainder_empty || items.iter().any(|i| matches!(i, Item::Junk(_))) {
        return Err("BadFifo");
    }
    let half = 1u64 << 23;
    let Some(start) = items.iter().position(|i| matches!(i, Item::Marker { counter: 0, .. })) else {
        return Err("MissingEpoch0");
    };
    if let Item::Marker { top: true, .. } = items[start] {
        return Err("BadFirstMarker");
    }
    let mut rows = Vec::new();
    let seq: Vec<&Item> = items[start..].iter().filter(|i| !matches!(i, Item::Scalers(_))).collect();
    for (idx, it) in seq.iter().enumerate() {
        if let Item::Edge { t, ch, leading } = it {
            let prev = seq[..idx].iter().rev().find_map(|i| if let Item::Marker { counter, .. } = i { Some(*counter) } else { None });
            let next = seq[idx + 1..].iter().find_map(|i| if let Item::Marker { counter, .. } = i { Some(*counter) } else { None });
            let time = match (prev, next) {
                // enclosed by two consecutive markers, and on the right side of them
                (Some(p), Some(n)) if n == p + 1 && t / half == u64::from(p) + 1 => Some(t & !1),
                _ => None,
            };
            rows.push((*ch, *leading, time));
        }
    }
    Ok(rows)
}

fn model_entries(items: &[Item]) -> String {
    items
        .iter()
        .filter_map(|it| match it {
            Item::Edge { t, ch, leading } => Some(format!("t:{}:{}:{}", ch, *leading as u8, t & 0xFF_FFFE)),
            Item::Marker { counter, top } => Some(format!("m:{}:{}", *top as u8, counter)),
            _ => None,
        })
        .collect::<Vec<_>>()
        .join(" ")
}

pub fn generate(s: &mut Session, thorough: bool) -> bool {
    let mut rng = Rng::new(s.seed);
    let nruns = if thorough { 4000 } else { 200 };
    let root = scratch_dir("c20");
    let faults = [Fault::None, Fault::None, Fault::None, Fault::DropMarker, Fault::DupMarker, Fault::TruncatedTail,
        Fault::Junk, Fault::NoEpoch0, Fault::FirstMarkerTop, Fault::LeftoverBlock, Fault::Junk, Fault::None, Fault::Junk,
        Fault::FlipMarkerBit, Fault::FlipMarkerBit];
    let mut n_rows = 0usize;
    let mut n_times = 0usize;
    for r in 0..nruns {
        let fault = faults[r % faults.len()];
        let nboards = rng.range(1, 4) as usize;
        // 0..=8 wraps as the property quantifies; one run in 25 lasts 257..=600 wraps (epoch counters
        // beyond 8 and 9 bits: a time computed in 32 bits loses them)
        let wraps = if r % 25 == 7 { 257 + rng.below(344) } else { rng.below(9) };
        let faulty_board = rng.below(nboards as u64) as usize;
        let mut streams: Vec<(String, Vec<Item>, Vec<u8>, Fault)> = Vec::new();
        for b in 0..nboards {
            let f = if b == faulty_board { fault } else { Fault::None };
            // at least one full half wrap is needed for a counter-0 marker to exist
            let w = if f == Fault::None && rng.below(6) == 0 { 0 } else { wraps.max(1) };
            let items = board_stream(&mut rng, w, f);
            let mut bytes: Vec<u8> = items.iter().flat_map(item_bytes).collect();
            if f == Fault::TruncatedTail {
                let cut = 1 + rng.below(3) as usize;
                bytes.truncate(bytes.len().saturating_sub(cut));
            }
            if f == Fault::LeftoverBlock {
                let blk = scalers_block(&mut rng);
                let keep = 4 + rng.below(239) as usize;
                bytes.extend(&blk[..keep]);
            }
            streams.push((format!("CBF{}", b + 1), items, bytes, f));
        }
        // cut every board's stream into pieces, spread the pieces over events and files
        let nfiles = rng.range(1, 3) as usize;
        let mut file_events: Vec<Vec<Event>> = vec![Vec::new(); nfiles];
        let mut cursors = vec![0usize; nboards];
        let mut serial = 0u32;
        let total: usize = streams.iter().map(|s| s.2.len()).sum();
        let mut done = 0usize;
        while cursors.iter().zip(streams.iter()).any(|(c, s)| *c < s.2.len()) {
            let mut banks = Vec::new();
            for (b, (name, _, bytes, _)) in streams.iter().enumerate() {
                if cursors[b] >= bytes.len() || rng.below(4) == 0 {
                    continue;
                }
                let max = (bytes.len() - cursors[b]) as u64;
                let n = match rng.below(4) {
                    0 => rng.range(1, 7).min(max),
                    1 => rng.range(1, 300).min(max),
                    _ => rng.range(1, 2000).min(max),
                } as usize;
                banks.push(Bank { name: name.clone(), data: bytes[cursors[b]..cursors[b] + n].to_vec() });
                cursors[b] += n;
                done += n;
                if rng.below(5) == 0 {
                    // an empty bank and an unrelated bank in the same event
                    banks.push(Bank { name: name.clone(), data: vec![] });
                    banks.push(Bank { name: "ABCD".into(), data: rng.bytes(6) });
                }
            }
            let fidx = (done * nfiles / (total + 1)).min(nfiles - 1);
            // other event types interleaved: their banks must be ignored even if named CBFn
            if rng.below(6) == 0 {
                file_events[fidx].push(Event { id: 1, serial, ts: 0, banks: vec![Bank { name: "CBF1".into(), data: rng.bytes(8) }] });
                serial += 1;
            }
            file_events[fidx].push(Event { id: 4, serial, ts: 0, banks });
            serial += 1;
        }
        let dir = root.join(format!("r{r}"));
        std::fs::create_dir_all(&dir).unwrap();
        let mut paths: Vec<PathBuf> = Vec::new();
        let mut t = 1_700_000_000u32;
        for (i, evs) in file_events.iter().enumerate() {
            let ext = if rng.below(3) == 0 { "mid.lz4" } else { "mid" };
            let p = dir.join(format!("run00077sub{i:03}.{ext}"));
            write_midas(&p, &file_bytes(77, t, t + 2, evs));
            t += 3;
            paths.push(p);
        }
        rng.shuffle(&mut paths);
        let res = run_binary("alpha-g-chronobox-timestamps", &paths, &dir.join("out"), 1);
        let rem_empty = |f: &Fault| !matches!(f, Fault::TruncatedTail | Fault::LeftoverBlock);
        let exps: Vec<Result<Vec<(u8, bool, Option<u64>)>, &'static str>> =
            streams.iter().map(|(_, items, _, f)| expected(items, rem_empty(f))).collect();
        // the program handles boards in name order and stops at the first failing one
        let first_fail = exps.iter().position(|e| e.is_err());
        let any_fail = first_fail.is_some();
        // group CSV rows by board
        let csv_rows_by_board = |csv: &str| -> std::collections::BTreeMap<String, Vec<Vec<String>>> {
            let mut m: std::collections::BTreeMap<String, Vec<Vec<String>>> = Default::default();
            for row in csv_rows(csv) {
                m.entry(row[0].clone()).or_default().push(row);
            }
            m
        };
        let ok = res.status_ok && res.csv.is_some();
        let by_board = res.csv.as_deref().map(csv_rows_by_board).unwrap_or_default();
        // board order in the CSV must be cb01..cb04 (grouped, sorted)
        let mut order_ok = true;
        if let Some(csv) = &res.csv {
            let names: Vec<String> = csv_rows(csv).iter().map(|r| r[0].clone()).collect();
            let mut dedup = names.clone();
            dedup.dedup();
            let mut sorted = dedup.clone();
            sorted.sort();
            sorted.dedup();
            order_ok = dedup == sorted;
        }
        for (b, (_, items, _, f)) in streams.iter().enumerate() {
            let board = format!("cb0{}", b + 1);
            let remainder_empty = rem_empty(f) && !items.iter().any(|i| matches!(i, Item::Junk(_)));
            let req = format!("cbrows {} {}", remainder_empty as u8, model_entries(items));
            let mut why: Option<String> = None;
            let imp: String;
            if any_fail {
                // the whole program must fail without writing a CSV
                if Some(b) != first_fail {
                    continue; // this board's outcome cannot be observed
                }
                if ok || res.csv.is_some() {
                    why = Some(format!("a stream that must be refused ({}, fault {:?}) did not make the program fail without a CSV",
                        exps[b].as_ref().err().unwrap(), fault));
                }
                imp = if res.stderr.contains("bad FIFO data") {
                    "err BadFifo".to_string()
                } else if res.stderr.contains("missing epoch 0") {
                    "err MissingEpoch0".to_string()
                } else if res.stderr.contains("bad first marker") {
                    "err BadFirstMarker".to_string()
                } else if ok {
                    "ok".to_string()
                } else {
                    format!("failed {}", res.stderr.chars().take(120).collect::<String>().replace(' ', "_"))
                };
            } else if !ok {
                why = Some(format!("program failed on a legal stream (fault {:?}): {}", fault, res.stderr));
                imp = "failed".into();
            } else {
                let rows = by_board.get(&board).cloned().unwrap_or_default();
                let exp = exps[b].clone().unwrap();
                if !order_ok {
                    why = Some("rows are not grouped by board in board order".into());
                }
                if rows.len() != exp.len() {
                    why = Some(format!("board {board}: {} rows for {} timestamps after the counter-0 marker", rows.len(), exp.len()));
                }
                for (row, (ch, leading, time)) in rows.iter().zip(exp.iter()) {
                    let t_csv = row[3].parse::<f64>().ok();
                    let t_exp = time.map(|t| t as f64 / 10e6);
                    let same = row[1] == ch.to_string() && row[2] == leading.to_string()
                        && t_csv.map(f64::to_bits) == t_exp.map(f64::to_bits);
                    if !same && why.is_none() {
                        why = Some(format!("board {board}: row {:?} but the edge is ch {ch} leading {leading} true time {:?} s", row, t_exp));
                    }
                    if t_csv.is_some() {
                        n_times += 1;
                    }
                }
                n_rows += rows.len();
                imp = format!(
                    "ok {}",
                    rows.iter()
                        .map(|r| format!("{}:{}:{}", r[1], (r[2] == "true") as u8,
                            r[3].parse::<f64>().ok().map(|t| ((t * 10e6).round() as u64).to_string()).unwrap_or("-".into())))
                        .collect::<Vec<_>>()
                        .join(" ")
                );
            }
            let gen: &'static str = match f {
                Fault::None => "legal-stream",
                Fault::DropMarker => "dropped-marker",
                Fault::DupMarker => "duplicated-marker",
                Fault::TruncatedTail => "truncated-tail",
                Fault::Junk => "corrupted-word",
                Fault::NoEpoch0 => "no-epoch0-marker",
                Fault::FirstMarkerTop => "first-marker-top-bit",
                Fault::LeftoverBlock => "incomplete-scalers-block",
                Fault::FlipMarkerBit => "marker-counter-bit-flip",
            };
            s.push_oracle(gen, req, imp.trim_end().to_string(), why.map(|w| format!("{w} [seed {} run {r} board {board}]", s.seed)));
        }
        let _ = std::fs::remove_dir_all(&dir);
    }
    let _ = std::fs::remove_dir_all(&root);
    s.notes.insert("csv_rows_checked".into(), serde_json::json!(n_rows));
    s.notes.insert("non_empty_times_checked".into(), serde_json::json!(n_times));
    true
}

pub fn run_request(_cmd: &str, _args: &[&str]) -> Option<String> {
    None
}
