//! C02: ADC (Alpha16) v3 packet decoding, and the ADC part of C01 (decoder and id-conversion
//! totality). Requests: `adc <hex>`, `a16id module|adc16|adc32 <n>`, `a16id mac <hex6>`,
//! `a16id name <hex of utf-8>`.
use crate::{guarded, hex, Rng, Session};
use alpha_g_detector::alpha16::{
    Adc16ChannelId, Adc32ChannelId, AdcPacket, AdcV3Packet, BoardId, ChannelId, ModuleId,
    TryAdcPacketFromSliceError as E,
};

pub fn err_name(e: &E) -> &'static str {
    match e {
        E::IncompleteSlice { .. } => "IncompleteSlice",
        E::UnknownType { .. } => "UnknownType",
        E::UnknownVersion { .. } => "UnknownVersion",
        E::UnknownModuleId(_) => "UnknownModuleId",
        E::UnknownChannelId(_) => "UnknownChannelId",
        E::ZeroMismatch { .. } => "ZeroMismatch",
        E::UnknownMac(_) => "UnknownMac",
        E::BaselineMismatch { .. } => "BaselineMismatch",
        E::BadKeepLast { .. } => "BadKeepLast",
        E::KeepBitMismatch { .. } => "KeepBitMismatch",
        E::BadNumberOfSamples { .. } => "BadNumberOfSamples",
    }
}

/// The eight Alpha16 MAC addresses are obtained from the crate by name (the names are part
/// of the bank-name grammar); used by the valid builder only.
pub fn known_macs() -> Vec<[u8; 6]> {
    let mut v = Vec::new();
    for i in 0..100 {
        if let Ok(b) = BoardId::try_from(format!("{i:02}").as_str()) {
            v.push(b.mac_address());
        }
    }
    v
}

/// Accessor values of a packet (also the input of the valid builder).
#[derive(Clone, Debug, PartialEq)]
pub struct Fields {
    pub trig: u16,
    pub module: u8,
    /// wire value of the channel byte: 0..=15 (A16) or 128..=159 (A32)
    pub chan: u8,
    pub req: u16,
    pub ts: u64,
    /// `None`: short (16-byte) form
    pub mac: Option<[u8; 6]>,
    pub trig_off: i32,
    pub build: u32,
    pub wave: Vec<i16>,
    pub baseline: i16,
    pub keep_last: u16,
    pub keep_bit: bool,
    pub supp: bool,
}

/// Independent encoder written from the documentation table (not from the decoder).
pub fn encode(f: &Fields) -> Vec<u8> {
    let mut v = Vec::with_capacity(36 + 2 * f.wave.len());
    v.push(1);
    v.push(3);
    v.extend(f.trig.to_be_bytes());
    v.push(f.module);
    v.push(f.chan);
    v.extend(f.req.to_be_bytes());
    v.extend(((f.ts & 0xFFFF_FFFF) as u32).to_be_bytes());
    if let Some(mac) = f.mac {
        v.extend([0u8, 0u8]);
        v.extend(mac);
        v.extend(((f.ts >> 32) as u32).to_be_bytes());
        v.extend(f.trig_off.to_be_bytes());
        v.extend(f.build.to_be_bytes());
        for s in &f.wave {
            v.extend(s.to_be_bytes());
        }
    }
    let footer: u16 = (f.keep_last & 0x0FFF) | ((f.keep_bit as u16) << 12) | ((f.supp as u16) << 13);
    v.extend(footer.to_be_bytes());
    v.extend(f.baseline.to_be_bytes());
    v
}

/// floor(mean of the first 64 samples), computed in i64 with Euclidean division.
pub fn floor_baseline(w: &[i16]) -> i64 {
    let s: i64 = w.iter().take(64).map(|x| *x as i64).sum();
    s.div_euclid(64)
}

/// Independent statement of the property text: is this byte string a well-formed packet?
/// (The MAC table is the crate's: its content is tied by the generated Lean table.)
pub fn well_formed(b: &[u8]) -> bool {
    let len = b.len();
    if len < 16 || b[0] != 1 || b[1] != 3 || b[4] > 7 {
        return false;
    }
    if !(b[5] <= 15 || (128..=159).contains(&b[5])) {
        return false;
    }
    let footer = ((b[len - 4] as u32) << 8) | b[len - 3] as u32;
    let kl = (footer % 4096) as usize;
    let kb = (footer / 4096) % 2 == 1;
    let supp = (footer / 8192) % 2 == 1;
    let base = i16::from_be_bytes([b[len - 2], b[len - 1]]) as i64;
    if len == 16 {
        return supp && !kb && kl == 0;
    }
    if len < 36 || b[12] != 0 || b[13] != 0 {
        return false;
    }
    let mac: [u8; 6] = [b[14], b[15], b[16], b[17], b[18], b[19]];
    if BoardId::try_from(mac).is_err() {
        return false;
    }
    if (len - 36) % 2 != 0 {
        return false;
    }
    let n = (len - 36) / 2;
    if n < 64 {
        return false;
    }
    let w: Vec<i16> = (0..64).map(|i| i16::from_be_bytes([b[32 + 2 * i], b[33 + 2 * i]])).collect();
    if floor_baseline(&w) != base {
        return false;
    }
    let req = (((b[6] as u32) << 8) | b[7] as u32) as usize;
    if req < 2 {
        return false;
    }
    if supp && !kb {
        return false;
    }
    if !kb && kl != 0 {
        return false;
    }
    // keep_last = (index + 2) / 2 + 1 for some sample index after the 64 baseline samples
    if kb && !(64..n).any(|i| (i + 2) / 2 + 1 == kl) {
        return false;
    }
    if supp {
        n <= req - 2
    } else {
        n == req - 2
    }
}

fn inner_number(dbg: String) -> String {
    // `ModuleId(5)` -> `5`
    dbg.split('(').nth(1).and_then(|s| s.strip_suffix(')')).unwrap_or("?").to_string()
}

fn chan_byte(c: ChannelId) -> (String, Option<u8>) {
    match c {
        ChannelId::A16(x) => {
            let n = inner_number(format!("{x:?}"));
            let k = (0u8..=255).find(|k| Adc16ChannelId::try_from(*k).ok() == Some(x));
            (format!("a16:{n}"), k)
        }
        ChannelId::A32(x) => {
            let n = inner_number(format!("{x:?}"));
            let k = (0u8..=255).find(|k| Adc32ChannelId::try_from(*k).ok() == Some(x));
            (format!("a32:{n}"), k.map(|k| k + 128))
        }
    }
}

/// Canonical answer of the implementation for `adc <hex>`, plus the oracle verdict.
pub fn run_impl(bytes: &[u8]) -> (String, Option<String>) {
    let res = guarded(|| (AdcV3Packet::try_from(bytes), AdcPacket::try_from(bytes)));
    let wf = well_formed(bytes);
    match res {
        Err(msg) => (format!("panic {msg}"), Some(format!("decoder panicked: {msg}"))),
        Ok((Err(e), w)) => {
            let mut why = None;
            match w {
                Err(e2) if err_name(&e2) == err_name(&e) => {}
                _ => why = Some("AdcPacket::try_from disagrees with AdcV3Packet::try_from".to_string()),
            }
            if wf {
                why = Some(format!("well-formed packet rejected with {}", err_name(&e)));
            }
            (format!("err {}", err_name(&e)), why)
        }
        Ok((Ok(p), w)) => {
            let mut why: Option<String> = None;
            let (chan_txt, chan) = chan_byte(p.channel_id());
            let module_txt = inner_number(format!("{:?}", p.module_id()));
            let module = (0u8..=255).find(|k| ModuleId::try_from(*k).ok() == Some(p.module_id()));
            let f = Fields {
                trig: p.accepted_trigger(),
                module: module.unwrap_or(255),
                chan: chan.unwrap_or(255),
                req: p.requested_samples() as u16,
                ts: p.event_timestamp(),
                mac: p.board_id().map(|b| b.mac_address()),
                trig_off: p.trigger_offset().unwrap_or(0),
                build: p.build_timestamp().unwrap_or(0),
                wave: p.waveform().to_vec(),
                baseline: p.suppression_baseline(),
                keep_last: p.keep_last() as u16,
                keep_bit: p.keep_bit(),
                supp: p.is_suppression_enabled(),
            };
            let re = encode(&f);
            let mut expect = bytes.to_vec();
            let l = expect.len();
            if l >= 4 {
                expect[l - 4] &= 0x3F; // the two unused footer bits 14, 15
            }
            if re != expect {
                why = Some("re-encoding the accessors does not reproduce the input (mod footer bits 14-15)".into());
            } else if p.requested_samples() > 0xFFFF || p.keep_last() > 0xFFF || module.is_none() || chan.is_none() {
                why = Some("accessor out of its documented range".into());
            } else if p.packet_type() != 1 || p.packet_version() != 3 {
                why = Some("packet_type/packet_version".into());
            } else if p.board_id().is_some() != p.trigger_offset().is_some()
                || p.board_id().is_some() != p.build_timestamp().is_some()
                || (p.board_id().is_none() && !p.waveform().is_empty())
            {
                why = Some("optional accessors inconsistent".into());
            } else if !wf {
                why = Some("accepted packet is not well-formed according to the property text".into());
            }
            // the AdcPacket wrapper forwards every accessor
            match w {
                Ok(q) => {
                    let same = q.is_v3()
                        && q.packet_type() == p.packet_type()
                        && q.packet_version() == p.packet_version()
                        && q.accepted_trigger() == p.accepted_trigger()
                        && q.module_id() == p.module_id()
                        && chan_byte(q.channel_id()) == chan_byte(p.channel_id())
                        && q.requested_samples() == p.requested_samples()
                        && q.event_timestamp() == p.event_timestamp()
                        && q.board_id() == p.board_id()
                        && q.trigger_offset() == p.trigger_offset()
                        && q.build_timestamp() == p.build_timestamp()
                        && q.waveform() == p.waveform()
                        && q.suppression_baseline() == Some(p.suppression_baseline())
                        && q.keep_last() == Some(p.keep_last())
                        && q.keep_bit() == Some(p.keep_bit())
                        && q.is_suppression_enabled() == Some(p.is_suppression_enabled());
                    if !same && why.is_none() {
                        why = Some("AdcPacket accessors differ from AdcV3Packet accessors".into());
                    }
                }
                Err(_) => why = Some("AdcPacket::try_from rejects what AdcV3Packet::try_from accepts".into()),
            }
            let board = match p.board_id() {
                None => "none none".to_string(),
                Some(b) => format!("{} {}", b.name(), hex(&b.mac_address())),
            };
            let opt = |o: Option<String>| o.unwrap_or_else(|| "none".to_string());
            let wave = if f.wave.is_empty() {
                "-".to_string()
            } else {
                f.wave.iter().map(|x| x.to_string()).collect::<Vec<_>>().join(",")
            };
            (
                format!(
                    "ok {} {} {} {} {} {} {} {} {} {} {} {} {} {} {}",
                    p.accepted_trigger(),
                    module_txt,
                    chan_txt,
                    p.requested_samples(),
                    p.event_timestamp(),
                    board,
                    opt(p.trigger_offset().map(|v| v.to_string())),
                    opt(p.build_timestamp().map(|v| v.to_string())),
                    p.suppression_baseline(),
                    p.keep_last(),
                    p.keep_bit() as u8,
                    p.is_suppression_enabled() as u8,
                    p.waveform().len(),
                    wave,
                    hex(&re)
                ),
                why,
            )
        }
    }
}

fn show_board(r: Result<BoardId, ()>) -> String {
    match r {
        Ok(b) => format!("ok {} {}", b.name(), hex(&b.mac_address())),
        Err(()) => "err".to_string(),
    }
}

/// Implementation answer of the id conversions; the oracle: never a panic, accept iff in the
/// documented range, value preserved.
pub fn run_id(kind: &str, arg: &str) -> Option<(String, Option<String>)> {
    let num = |f: &dyn Fn(u8) -> Option<String>, max: u8| -> Option<(String, Option<String>)> {
        let n: u32 = arg.parse().ok()?;
        if n > 255 {
            return None;
        }
        let n = n as u8;
        Some(match guarded(|| f(n)) {
            Err(msg) => (format!("panic {msg}"), Some(format!("id conversion panicked: {msg}"))),
            Ok(Some(d)) => {
                let v = inner_number(d);
                let why = if n > max || v != n.to_string() { Some("wrong acceptance/value".to_string()) } else { None };
                (format!("ok {v}"), why)
            }
            Ok(None) => ("err".to_string(), if n <= max { Some("valid id rejected".to_string()) } else { None }),
        })
    };
    match kind {
        "module" => num(&|n| ModuleId::try_from(n).ok().map(|m| format!("{m:?}")), 7),
        "adc16" => num(&|n| Adc16ChannelId::try_from(n).ok().map(|m| format!("{m:?}")), 15),
        "adc32" => num(&|n| Adc32ChannelId::try_from(n).ok().map(|m| format!("{m:?}")), 31),
        "mac" => {
            let b = crate::unhex(arg)?;
            let mac: [u8; 6] = b.as_slice().try_into().ok()?;
            Some(match guarded(|| BoardId::try_from(mac).map_err(|_| ())) {
                Err(msg) => (format!("panic {msg}"), Some(format!("id conversion panicked: {msg}"))),
                Ok(r) => {
                    let why = match &r {
                        Ok(bd) if bd.mac_address() != mac => Some("BoardId has another MAC".to_string()),
                        _ => None,
                    };
                    (show_board(r), why)
                }
            })
        }
        "name" => {
            let b = crate::unhex(arg)?;
            let s = String::from_utf8(b).ok()?;
            Some(match guarded(|| BoardId::try_from(s.as_str()).map_err(|_| ())) {
                Err(msg) => (format!("panic {msg}"), Some(format!("id conversion panicked: {msg}"))),
                Ok(r) => {
                    let why = match &r {
                        Ok(bd) if bd.name() != s => Some("BoardId has another name".to_string()),
                        _ => None,
                    };
                    (show_board(r), why)
                }
            })
        }
        _ => None,
    }
}

/// Replay entry: answer one request line of this module (`None`: not this module's command).
pub fn run_request(cmd: &str, args: &[&str]) -> Option<String> {
    match (cmd, args) {
        ("adc", [h]) => crate::unhex(h).map(|b| run_impl(&b).0),
        ("a16id", [kind, arg]) => run_id(kind, arg).map(|r| r.0),
        _ => None,
    }
}

fn add(s: &mut Session, gen: &'static str, bytes: &[u8]) {
    let (imp, why) = run_impl(bytes);
    if imp.starts_with("ok ") {
        // which accepting leaf of the decoder was taken (coverage note in the report)
        let l = bytes.len();
        let leaf = if l == 16 {
            "accepted:short"
        } else {
            match (bytes[l - 4] & 0x20 != 0, bytes[l - 4] & 0x10 != 0) {
                (true, _) => "accepted:long,suppression-on,keep-bit",
                (false, true) => "accepted:long,suppression-off,keep-bit",
                (false, false) => "accepted:long,suppression-off,no-keep-bit",
            }
        };
        let e = s.notes.entry(leaf.to_string()).or_insert(serde_json::json!(0));
        *e = serde_json::json!(e.as_u64().unwrap_or(0) + 1);
    }
    s.push_oracle(gen, format!("adc {}", hex(bytes)), imp, why);
}

fn add_id(s: &mut Session, gen: &'static str, kind: &str, arg: &str) {
    if let Some((imp, why)) = run_id(kind, arg) {
        s.push_oracle(gen, format!("a16id {kind} {arg}"), imp, why);
    }
}

/// Sample contents of the decision table.
#[derive(Clone, Copy, Debug)]
pub enum Content {
    Random,
    Min,
    Max,
    /// sum of the first 64 samples ≡ 32 (mod 64), positive
    HalfPos,
    /// sum of the first 64 samples ≡ 32 (mod 64), negative
    HalfNeg,
    /// sum of the first 64 samples = -1 (floor -1, truncation 0)
    MinusOne,
    /// small random values of both signs, negative sum
    NegSum,
    Zero,
}
pub const CONTENTS: [Content; 8] = [
    Content::Random,
    Content::Min,
    Content::Max,
    Content::HalfPos,
    Content::HalfNeg,
    Content::MinusOne,
    Content::NegSum,
    Content::Zero,
];

pub fn samples(rng: &mut Rng, n: usize, c: Content) -> Vec<i16> {
    let mut w: Vec<i16> = match c {
        Content::Random => (0..n).map(|_| rng.next() as i16).collect(),
        Content::Min => vec![i16::MIN; n],
        Content::Max => vec![i16::MAX; n],
        Content::Zero => vec![0; n],
        Content::HalfPos => (0..n).map(|i| if i < 32 { 1001 } else { 1000 }).collect(),
        Content::HalfNeg => (0..n).map(|i| if i < 32 { -1000 } else { -1001 }).collect(),
        Content::MinusOne => (0..n).map(|i| if i == 7 { -1 } else { 0 }).collect(),
        Content::NegSum => (0..n).map(|_| (rng.below(41) as i16) - 23).collect(),
    };
    if matches!(c, Content::Random) && n > 70 && rng.bool() {
        // extremes after the baseline region as well
        w[n - 1] = i16::MIN;
        w[n - 2] = i16::MAX;
    }
    w
}

/// `keep_last` that the firmware would report for a last-over-threshold sample `index`.
fn keep_last_of(index: usize) -> u16 {
    ((index + 2) / 2 + 1) as u16
}

/// A random *valid* long packet (fields), `n` samples.
pub fn valid_long(rng: &mut Rng, macs: &[[u8; 6]], n: usize, supp: bool, keep_bit: bool, c: Content) -> Fields {
    assert!(n >= 64 && (n >= 65 || !keep_bit) && n <= 65533);
    let wave = samples(rng, n, c);
    let keep_bit = keep_bit || supp;
    let keep_last = if keep_bit { keep_last_of(rng.range(64, n as u64 - 1) as usize).min(4095) } else { 0 };
    let req = if supp && rng.bool() { rng.range(n as u64 + 2, 65535) as u16 } else { (n + 2) as u16 };
    Fields {
        trig: rng.next() as u16,
        module: rng.below(8) as u8,
        chan: if rng.bool() { rng.below(16) as u8 } else { 128 + rng.below(32) as u8 },
        req,
        ts: rng.next(),
        mac: Some(*rng.pick(macs)),
        trig_off: match rng.below(5) {
            0 => i32::MIN,
            1 => i32::MAX,
            2 => -1,
            3 => 0,
            _ => rng.next() as i32,
        },
        build: rng.next() as u32,
        baseline: floor_baseline(&wave) as i16,
        wave,
        keep_last,
        keep_bit,
        supp,
    }
}

pub fn valid_short(rng: &mut Rng) -> Fields {
    Fields {
        trig: rng.next() as u16,
        module: rng.below(8) as u8,
        chan: if rng.bool() { rng.below(16) as u8 } else { 128 + rng.below(32) as u8 },
        req: rng.next() as u16,
        ts: rng.next() & 0xFFFF_FFFF,
        mac: None,
        trig_off: 0,
        build: 0,
        wave: Vec::new(),
        baseline: rng.next() as i16,
        keep_last: 0,
        keep_bit: false,
        supp: true,
    }
}

/// Raw long packet with every footer/length parameter free (cells of the decision table).
#[allow(clippy::too_many_arguments)]
fn cell(rng: &mut Rng, macs: &[[u8; 6]], n: usize, supp: bool, kb: bool, kl: u16, req: u16, c: Content, hi: u8, base_delta: i32) -> Vec<u8> {
    let wave = samples(rng, n, c);
    let f = Fields {
        trig: rng.next() as u16,
        module: rng.below(8) as u8,
        chan: if rng.bool() { rng.below(16) as u8 } else { 128 + rng.below(32) as u8 },
        req,
        ts: rng.next(),
        mac: Some(*rng.pick(macs)),
        trig_off: rng.next() as i32,
        build: rng.next() as u32,
        baseline: (floor_baseline(&wave) as i32 + base_delta) as i16,
        wave,
        keep_last: kl,
        keep_bit: kb,
        supp,
    };
    let mut b = encode(&f);
    let l = b.len();
    b[l - 4] |= hi << 6;
    b
}

pub fn generate(s: &mut Session, thorough: bool) -> bool {
    let mut rng = Rng::new(s.seed);
    let scale: usize = if thorough { 60 } else { 1 };
    let table_reps = if thorough { 15 } else { 1 };
    let macs = known_macs();
    s.notes.insert("known_macs".into(), serde_json::json!(macs.len()));

    // (i) valid packets from the builder: short form, long form in its three flag flavours
    let mut small_valid: Vec<Vec<u8>> = Vec::new();
    for i in 0..400 * scale {
        let mut b = encode(&valid_short(&mut rng));
        b[12] |= (rng.below(4) as u8) << 6;
        add(s, "valid-short", &b);
        if i < 3 {
            small_valid.push(b);
        }
    }
    for i in 0..600 * scale {
        let (supp, kb) = [(true, true), (false, true), (false, false)][i % 3];
        let n = match rng.below(6) {
            0 => 64 + kb as usize,
            1 => 65 + kb as usize,
            2 => rng.range(66, 80) as usize,
            _ => rng.range(66, 700) as usize,
        };
        let c = CONTENTS[(i / 3) % CONTENTS.len()];
        let f = valid_long(&mut rng, &macs, n, supp, kb, c);
        let mut b = encode(&f);
        let l = b.len();
        b[l - 4] |= (rng.below(4) as u8) << 6;
        add(s, "valid-long", &b);
        if n <= 66 && small_valid.len() < 3 + 6 * scale.min(3) {
            small_valid.push(b);
        }
    }
    // big packets up to the u16 limit of requested_samples (and beyond 65 KiB)
    for n in [8190usize, 32767, 32768, 65533] {
        for (supp, kb) in [(true, true), (false, false)] {
            if !thorough && n > 40000 && supp {
                continue;
            }
            let f = valid_long(&mut rng, &macs, n, supp, kb, Content::Random);
            add(s, "valid-big", &encode(&f));
        }
    }

    // (ii) decision table: supp x keep_bit x keep_last x requested x n x contents
    let table_contents: &[Content] = if thorough { &CONTENTS } else { &CONTENTS[..5] };
    for supp in [false, true] {
        for kb in [false, true] {
            for kl_sel in 0..10usize {
                // n candidates depend on keep_last through last_index = (kl-1)*2-2
                let base_ns: [usize; 5] = [63, 64, 65, 66, 67];
                let kls: Vec<u16> = match kl_sel {
                    0 => vec![0],
                    1 => vec![1],
                    2 => vec![2],
                    3 => vec![33],
                    4 => vec![34],
                    5 => vec![35],
                    6 => vec![36],
                    7 => vec![60],
                    8 => vec![4094],
                    _ => vec![4095],
                };
                for kl in kls {
                    let mut ns: Vec<usize> = base_ns.to_vec();
                    if kl >= 34 {
                        let li = (kl as usize - 1) * 2 - 2;
                        ns.extend([li - 1, li, li + 1, li + 2, li + 3]);
                    }
                    ns.sort();
                    ns.dedup();
                    for n in ns {
                        let big = n > 1000;
                        let reqs: Vec<i64> = vec![0, 1, 2, 3, n as i64, n as i64 + 1, n as i64 + 2, n as i64 + 3, 65535, 65, 66];
                        for req in reqs {
                            if !(0..=65535).contains(&req) {
                                continue;
                            }
                            let cs: &[Content] = if big { &CONTENTS[..1] } else { table_contents };
                            for c in cs {
                                for _ in 0..(if big { 1 } else { table_reps }) {
                                    let hi = rng.below(4) as u8;
                                    let b = cell(&mut rng, &macs, n, supp, kb, kl, req as u16, *c, hi, 0);
                                    add(s, "decision-table", &b);
                                }
                            }
                        }
                    }
                }
            }
        }
    }

    // (iii) baseline arithmetic: every residue of the sum mod 64 on both sides of zero, footer
    // baseline off by -2..=2, truncated instead of floored, i16 extremes
    for k in -130i32..=130 {
        for delta in [-1i32, 0, 1] {
            let n = 64 + rng.below(3) as usize;
            let mut wave = vec![0i16; n];
            // distribute k over the first 64 samples
            let mut rest = k;
            let mut i = 0;
            while rest != 0 {
                let step = rest.signum();
                wave[(i * 7) % 64] += step as i16;
                rest -= step;
                i += 1;
            }
            for x in wave.iter_mut().skip(64) {
                *x = rng.next() as i16;
            }
            let f = Fields {
                trig: 1, module: 2, chan: 3, req: (n + 2) as u16, ts: rng.next(), mac: Some(macs[0]),
                trig_off: -5, build: 9, baseline: (floor_baseline(&wave) as i32 + delta) as i16,
                wave, keep_last: 0, keep_bit: false, supp: false,
            };
            add(s, "baseline-residues", &encode(&f));
        }
    }
    for _ in 0..300 * scale {
        let n = 64 + rng.below(4) as usize;
        let c = *rng.pick(&CONTENTS);
        let mut wave = samples(&mut rng, n, c);
        if rng.bool() {
            // push the mean close to the i16 limits
            let v = if rng.bool() { i16::MIN } else { i16::MAX };
            let k = rng.range(50, 64) as usize;
            for x in wave.iter_mut().take(k) {
                *x = v;
            }
        }
        let sum: i64 = wave.iter().take(64).map(|x| *x as i64).sum();
        let base = match rng.below(5) {
            0 => (sum / 64) as i16,                    // truncation toward zero
            1 => ((sum + 32).div_euclid(64)) as i16,  // rounding to nearest
            2 => (floor_baseline(&wave) + 1) as i16,
            3 => (floor_baseline(&wave) - 1) as i16,
            _ => floor_baseline(&wave) as i16,
        };
        let f = Fields {
            trig: 1, module: 2, chan: 130, req: (n + 2) as u16, ts: rng.next(), mac: Some(*rng.pick(&macs)),
            trig_off: 5, build: 9, baseline: base, wave, keep_last: 0, keep_bit: false, supp: false,
        };
        add(s, "baseline-variants", &encode(&f));
    }

    // (iv) short form: all 16 values of the four top footer bits x keep_last, every length class
    let kl_short: Vec<u16> = if thorough { (0..4096).collect() } else { vec![0, 1, 2, 33, 34, 35, 2048, 4094, 4095] };
    for top in 0..16u8 {
        for kl in &kl_short {
            let mut b = encode(&valid_short(&mut rng));
            b[12] = (top << 4) | ((kl >> 8) as u8);
            b[13] = *kl as u8;
            add(s, "short-footer", &b);
        }
    }

    // (v) every MAC byte perturbed, foreign and degenerate MACs
    let base_long = encode(&valid_long(&mut rng, &macs, 64, false, false, Content::Random));
    for mac in &macs {
        for i in 0..6 {
            for d in [1u8, 255, 0x80, 0x01 ^ 0x03] {
                let mut b = base_long.clone();
                b[14..20].copy_from_slice(mac);
                b[14 + i] = b[14 + i].wrapping_add(d);
                add(s, "mac-perturbed", &b);
            }
            for bit in 0..8 {
                let mut b = base_long.clone();
                b[14..20].copy_from_slice(mac);
                b[14 + i] ^= 1 << bit;
                add(s, "mac-perturbed", &b);
            }
        }
        let mut b = base_long.clone();
        b[14..20].copy_from_slice(mac);
        add(s, "mac-perturbed", &b);
        let mut r = *mac;
        r.reverse();
        b[14..20].copy_from_slice(&r);
        add(s, "mac-perturbed", &b);
    }
    for mac in [[0u8; 6], [255; 6], [236, 40, 255, 135, 84, 2], [216, 128, 57, 104, 0, 0]] {
        let mut b = base_long.clone();
        b[14..20].copy_from_slice(&mac);
        add(s, "mac-perturbed", &b);
    }

    // (vi) every header byte (and the footer bytes) of valid packets at boundary values
    let edges: [u8; 20] = [0, 1, 2, 3, 4, 7, 8, 9, 15, 16, 17, 31, 32, 127, 128, 129, 159, 160, 254, 255];
    for base in small_valid.iter() {
        let l = base.len();
        let mut positions: Vec<usize> = (0..l.min(36)).collect();
        positions.extend(l.saturating_sub(4)..l);
        positions.sort();
        positions.dedup();
        for pos in positions {
            for e in edges {
                let mut b = base.clone();
                b[pos] = e;
                add(s, "byte-boundary", &b);
            }
        }
    }
    // all 256 values of type, version, module, channel
    for pos in [0usize, 1, 4, 5] {
        for v in 0..=255u8 {
            let mut b = small_valid[pos % small_valid.len()].clone();
            b[pos] = v;
            add(s, "byte-all-values", &b);
            let mut b = base_long.clone();
            b[pos] = v;
            add(s, "byte-all-values", &b);
        }
    }

    // (vii) every single-bit flip of small valid packets
    for base in small_valid.iter() {
        for bit in 0..base.len() * 8 {
            let mut b = base.clone();
            b[bit / 8] ^= 1 << (bit % 8);
            add(s, "bit-flip", &b);
        }
    }

    // (viii) every truncation and small extensions of small valid packets; zeros of every length
    for base in small_valid.iter() {
        for len in 0..=base.len() + 9 {
            let mut b = base.clone();
            b.resize(len, 0);
            add(s, "length", &b);
        }
        // keep the footer, drop bytes in front of it (sample count changes, footer intact)
        if base.len() > 36 {
            for drop in 1..=12usize {
                let l = base.len();
                let mut b = base[..l - 4 - drop].to_vec();
                b.extend(&base[l - 4..]);
                add(s, "length", &b);
                let mut b = base[..l - 4].to_vec();
                b.extend(std::iter::repeat(0u8).take(drop));
                b.extend(&base[l - 4..]);
                add(s, "length", &b);
            }
        }
    }
    // lengths that equal a valid length modulo 2^8 / 2^16 (a length or count compared after a narrowing
    // cast): bytes inserted in front of the footer and appended behind it
    for base in small_valid.iter().take(3) {
        for extra in [256usize, 65536, 2 * 65536] {
            let l = base.len();
            let mut b = base.clone();
            b.resize(l + extra, 0);
            add(s, "length-wrap", &b);
            if l > 36 {
                let mut b = base[..l - 4].to_vec();
                b.extend(std::iter::repeat(0u8).take(extra));
                b.extend(&base[l - 4..]);
                add(s, "length-wrap", &b);
            }
        }
    }
    for len in 0..=180usize {
        add(s, "length", &vec![0u8; len]);
        let mut b = vec![0u8; len];
        if len >= 2 {
            b[0] = 1;
            b[1] = 3;
        }
        if len >= 4 {
            b[len - 4] = 0x20;
        }
        add(s, "length", &b);
    }

    // (ix) malformed stream: random bytes, with and without a plausible prefix/footer
    for _ in 0..3000 * scale {
        let len = match rng.below(4) {
            0 => rng.below(40) as usize,
            1 => 16,
            2 => 36 + 2 * rng.range(60, 70) as usize + rng.below(2) as usize,
            _ => rng.below(400) as usize,
        };
        let mut b = rng.bytes(len);
        let plausible = rng.below(4);
        if plausible >= 1 && len >= 6 {
            b[0] = 1;
            b[1] = 3;
            b[4] &= 7;
            b[5] = if rng.bool() { b[5] & 15 } else { 128 + (b[5] & 31) };
        }
        if plausible >= 2 && len >= 36 {
            b[12] = 0;
            b[13] = 0;
            let m = *rng.pick(&macs);
            b[14..20].copy_from_slice(&m);
        }
        if plausible >= 3 && len >= 36 + 128 && (len - 36) % 2 == 0 {
            let n = (len - 36) / 2;
            let w: Vec<i16> = (0..64).map(|i| i16::from_be_bytes([b[32 + 2 * i], b[33 + 2 * i]])).collect();
            let base = (floor_baseline(&w) as i16).to_be_bytes();
            b[len - 2] = base[0];
            b[len - 1] = base[1];
            if rng.bool() {
                b[6..8].copy_from_slice(&((n + 2) as u16).to_be_bytes());
            }
        }
        add(s, "random", &b);
    }

    // (x) id conversions: all u8, MACs and names
    for n in 0..=255u32 {
        for kind in ["module", "adc16", "adc32"] {
            add_id(s, "id-u8", kind, &n.to_string());
        }
    }
    for mac in &macs {
        add_id(s, "id-mac", "mac", &hex(mac));
        for i in 0..6 {
            for bit in 0..8 {
                let mut m = *mac;
                m[i] ^= 1 << bit;
                add_id(s, "id-mac", "mac", &hex(&m));
            }
        }
    }
    for _ in 0..200 * scale {
        add_id(s, "id-mac", "mac", &hex(&rng.bytes(6)));
    }
    add_id(s, "id-mac", "mac", &hex(&[236, 40, 255, 135, 84, 2]));
    for i in 0..100 {
        add_id(s, "id-name", "name", &hex(format!("{i:02}").as_bytes()));
        add_id(s, "id-name", "name", &hex(format!("{i}").as_bytes()));
        add_id(s, "id-name", "name", &hex(format!("0{i:02}").as_bytes()));
        add_id(s, "id-name", "name", &hex(format!("{i:02} ").as_bytes()));
    }
    for name in ["", "9", "09\0", "０９", "1０", "é9", "0\u{663}", "\u{10FFFF}", "AB", "ab", "0A", "1a", "-1", "+9", "09\n", "\t09"] {
        add_id(s, "id-name", "name", &hex(name.as_bytes()));
    }
    true
}
