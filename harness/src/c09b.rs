//! C09b: the whole of `MainEvent::vertex()` on calibrated signals against the composed Lean model
//! (`Model/VertexPipeline.lean`: avalanches → `SpacePoint::try_from` → `cluster_spacepoints` →
//! `Track::try_from` → `find_vertices` → primary position).
//!
//! Requests (the event travels exactly as in the `avalanches` request of c13b.rs):
//!   vertex <wire response> | <pad response> | <neighbour factors> | w<idx>:<samples> … |
//!          p<col>.<row>:<samples> …
//!       -> ok none pts=<n>:<digest> | ok <x> <y> <z> pts=<n>:<digest> | panic <site>
//!          (`pts`: number and FNV-1a digest of the space points handed to `cluster_spacepoints`)
//!   vertexx <pad response> | w<idx>:<deconvolved input> … | p<col>.<row>:<samples> …
//!       -> the same answer (`exact` in place of `ok`) for the chain downstream of the wire deconvolution: the w-tokens carry what
//!          `wire_range_deconvolution` returned for the event's ranges (as `avalanchesx` of c13b.rs)
//!   an `ok` answer ends in ` dust=<k>` when k > 0 avalanches have a wire amplitude below 1e-9 of
//!   the event's largest
//!   vertexstages <same> -> stages av=<n> sp=<n> cl=<n>[<sizes>] tr=<n> cand=<n> vt=<n>[ panic=<site>]
//!   vertexconsts        -> ok <8 bit patterns>: the f64 literals of the model
//!
//! Implementation side. `vertex`: `MainEvent::verif_from_signals(..).vertex()`, nothing else. The
//! digest, the stage sizes and the *name* of a panic site come from a staged replay through the
//! public stage functions (`avalanches()`, `SpacePoint::try_from`, `cluster_spacepoints`,
//! `Track::try_from`, `find_vertices`), which is also an oracle of its own: `vertex()` must be the
//! composition of its documented stages (same `Option`, same bits).
//!
//! Agreement (`Session::agree`), precisely:
//!   * `vertexx`, `vertexconsts`: exact line equality, no tolerance. Matching, drift lookup,
//!     clustering, both fits and the vertex bookkeeping are bit for bit (positions, point digest,
//!     dust count), on every generated event.
//!   * `vertex` (end to end, through the model's own textbook Cholesky): identical lines agree.
//!     faer's blocked Cholesky and the model's differ in the last bits of the wire amplitudes;
//!     downstream nothing reads the amplitudes except (1) the `> 0.0` filter of `wire_hits_at_t`
//!     — after a fitted pulse is subtracted the residual is rounding noise and inputs of
//!     1e-13…1e-20 ("dust") pass it, which of them exist depends on the last bit of the solve —
//!     and (2) the descending sort that pairs wire hits with pad hits (near-ties). A dust hit is
//!     paired with a left-over pad hit and becomes a space point like any other. The licence to
//!     differ is therefore: one of the two avalanche lists contains dust (` dust=<k>`, printed by
//!     both sides from their own lists) or the implementation's deconvolved inputs contain a
//!     near-tie (` ties=<k>`: two wire hits of one pad column and time bin within 4e-9 of the
//!     largest amplitude). Without a licence the lines must be identical. With a licence and
//!     **equal** point digests the vertex must still be equal bit for bit. With a licence and
//!     different digests the answers are accepted and classified: `none/none`, both within 1 mm
//!     per coordinate, or `moved` (anything else, class changes included); the three counts go to
//!     the log named by `VERIF_C09B_LOG` (the comparison runs after the report's notes are fixed)
//!     and are quoted in the module's documentation in DESIGN.
//!   * `vertexstages`: all fields equal; the implementation prints `cand=*` (the two filters of
//!     `find_vertices` are not observable through the public API); with a licence only the panic
//!     site must agree.
//!   * two panics agree when the model's site is one the implementation's message can stand for
//!     (`same_site`).
//!
//! Oracles independent of the model: `vertex()` returns normally on every in-domain event
//! (signals that `try_from_banks` can produce, and the synthetic finite ones); a returned vertex
//! is finite; `vertex()` equals the staged replay.
use crate::sim;
use crate::{guarded, Rng, Session};
use alpha_g_detector::alpha16::aw_map::{TpcWirePosition, TPC_ANODE_WIRES};
use alpha_g_detector::padwing::map::{TpcPadRow, TPC_PAD_COLUMNS, TPC_PAD_ROWS};
use alpha_g_physics::reconstruction::{cluster_spacepoints, find_vertices, Track};
use alpha_g_physics::verif::{
    verif_contiguous_ranges, verif_neighbor_factors, verif_pad_column_to_wires, verif_pad_response, verif_wire_range_deconvolution,
    verif_wire_response, verif_wire_to_pad_column,
};
use alpha_g_physics::{MainEvent, SpacePoint};
use std::collections::HashMap;
use std::sync::OnceLock;

type Wires = [Option<Vec<f64>>; TPC_ANODE_WIRES];
type Pads = [[Option<Vec<f64>>; TPC_PAD_ROWS]; TPC_PAD_COLUMNS];

/// Relative size of a near-tie / of dust (as in c13b.rs).
const TOL: f64 = 1e-9;
const DUST: f64 = 1e-9;
/// Per-coordinate tolerance (metres) on the vertex when the licensed avalanche lists differ.
const VERTEX_TOL: f64 = 1e-3;

fn col_of(w: usize) -> usize {
    verif_wire_to_pad_column(w) % TPC_PAD_COLUMNS
}
fn empty_wires() -> Wires {
    std::array::from_fn(|_| None)
}
fn empty_pads() -> Box<Pads> {
    let v: Vec<[Option<Vec<f64>>; TPC_PAD_ROWS]> = (0..TPC_PAD_COLUMNS).map(|_| std::array::from_fn(|_| None)).collect();
    v.into_boxed_slice().try_into().ok().unwrap()
}
fn fbits(x: f64) -> String {
    if x.is_nan() {
        "nan".to_string()
    } else {
        format!("{:016x}", x.to_bits())
    }
}
fn flist(v: &[f64]) -> String {
    let mut s = String::with_capacity(v.len() * 17);
    for (i, x) in v.iter().enumerate() {
        if i > 0 {
            s.push(',');
        }
        s.push_str(&fbits(*x));
    }
    s
}
fn parse_f(s: &str) -> Option<f64> {
    if s == "nan" {
        Some(f64::NAN)
    } else {
        u64::from_str_radix(s, 16).ok().map(f64::from_bits)
    }
}
fn parse_flist(s: &str) -> Option<Vec<f64>> {
    if s.is_empty() || s == "-" {
        return Some(Vec::new());
    }
    s.split(',').map(parse_f).collect()
}

struct Tables {
    wire_resp: Vec<f64>,
    pad_resp: Vec<f64>,
    factors: [f64; 5],
    header: String,
}
fn tables() -> &'static Tables {
    static T: OnceLock<Tables> = OnceLock::new();
    T.get_or_init(|| {
        let wire_resp = verif_wire_response();
        let pad_resp = verif_pad_response();
        let factors = verif_neighbor_factors();
        let header = format!("{} | {} | {}", flist(&wire_resp), flist(&pad_resp), flist(&factors));
        Tables { wire_resp, pad_resp, factors, header }
    })
}

fn request(cmd: &str, ws: &Wires, ps: &Pads) -> String {
    let mut s = format!("{cmd} {}", tables().header);
    push_signals(&mut s, ws, ps);
    s
}

fn push_signals(s: &mut String, ws: &Wires, ps: &Pads) {
    s.push_str(" |");
    let mut any = false;
    for (w, sig) in ws.iter().enumerate() {
        if let Some(sig) = sig {
            s.push_str(&format!(" w{w}:{}", flist(sig)));
            any = true;
        }
    }
    if !any {
        s.push_str(" -");
    }
    s.push_str(" |");
    any = false;
    for (c, col) in ps.iter().enumerate() {
        for (r, sig) in col.iter().enumerate() {
            if let Some(sig) = sig {
                s.push_str(&format!(" p{c}.{r}:{}", flist(sig)));
                any = true;
            }
        }
    }
    if !any {
        s.push_str(" -");
    }
}

// ---------------------------------------------------------------- the implementation side

fn canon_bits(x: f64) -> u64 {
    if x.is_nan() {
        0x7ff8_0000_0000_0000
    } else {
        x.to_bits()
    }
}
fn digest(points: &[SpacePoint]) -> String {
    let mut h: u64 = 0xcbf2_9ce4_8422_2325;
    for p in points {
        for x in [p.r.value, p.phi.value, p.z.value] {
            for b in canon_bits(x).to_le_bytes() {
                h ^= b as u64;
                h = h.wrapping_mul(0x0000_0100_0000_01b3);
            }
        }
    }
    format!("pts={}:{h:016x}", points.len())
}

/// The stage a panic of the staged replay belongs to, and the site names of the stage models
/// that a Rust panic message (which carries no location) can stand for.
fn site_of(stage: &str, msg: &str) -> String {
    let unwrap_none = msg.contains("Option::unwrap()");
    match stage {
        "avalanches" => {
            if msg.contains("Result::unwrap()") {
                "wires:cholesky-unwrap".into()
            } else if msg.contains("assertion failed") {
                "deconv:assert-response-negative".into()
            } else {
                format!("avalanches:{}", msg.replace(' ', "_"))
            }
        }
        "points" => {
            if unwrap_none {
                "drift:find".into()
            } else if msg.contains("subtract with overflow") || msg.contains("index is 18446744073709551615") {
                "drift:lhs_index".into()
            } else if msg.contains("index out of bounds") {
                "drift:index".into()
            } else {
                format!("points:{}", msg.replace(' ', "_"))
            }
        }
        "clusters" => {
            if unwrap_none {
                "cluster:unwrap_none".into()
            } else {
                format!("clusters:{}", msg.replace(' ', "_"))
            }
        }
        "tracks" => {
            if msg.contains("found NaN in track_fitting") {
                "track_fitting:cost_function:nan_assert".into()
            } else if msg.contains("sp.len() >= 3") {
                "fit_cluster_to_helix:assert_len".into()
            } else if msg.contains("Reached unreachable point") {
                "neldermead:unreachable_point:run_unwrap".into()
            } else if unwrap_none {
                "three_template_points:partial_cmp_unwrap".into()
            } else {
                format!("tracks:{}", msg.replace(' ', "_"))
            }
        }
        _ => {
            if msg.contains("found NaN in vertex_fitting") {
                "vertex_fitting:cost_function:nan_assert".into()
            } else if msg.contains("Reached unreachable point") {
                "neldermead:unreachable_point:run_unwrap".into()
            } else if unwrap_none {
                "vertex:unwrap_none".into()
            } else {
                format!("vertex:{}", msg.replace(' ', "_"))
            }
        }
    }
}
/// Model site names an implementation site name stands for.
fn same_site(imp: &str, model: &str) -> bool {
    imp == model
        || (imp == "cluster:unwrap_none" && ["remove_unchecked:position", "remove_unchecked:get_mut", "remainder:position"].contains(&model))
        || (imp == "vertex:unwrap_none" && ["beamline_clusters:partial_cmp", "find_vertices:partial_cmp", "find_vertices:position", "fit:best_param_unwrap"].contains(&model))
}

#[derive(Default)]
struct Staged {
    avalanches: Option<usize>,
    points: Option<Vec<SpacePoint>>,
    clusters: Option<Vec<usize>>,
    tracks: Option<usize>,
    vertex_tracks: Option<usize>,
    vertex: Option<Option<[f64; 3]>>,
    panic: Option<String>,
    dust: usize,
    ties: usize,
    /// what `wire_range_deconvolution` returned for the ranges of the event
    inputs: Option<Box<Wires>>,
}

/// The documented composition of `vertex()` through the public stage functions, stage by stage.
fn staged(ev: &MainEvent, ws: &Wires) -> Staged {
    let mut st = Staged::default();
    let av = match guarded(|| ev.avalanches()) {
        Ok(av) => av,
        Err(m) => {
            st.panic = Some(site_of("avalanches", &m));
            return st;
        }
    };
    st.avalanches = Some(av.len());
    // the licence: dust and near-ties among the implementation's own deconvolved wire inputs
    let scale = av.iter().map(|a| a.wire_amplitude).fold(0.0, f64::max);
    st.dust = av.iter().filter(|a| a.wire_amplitude <= DUST * scale).count();
    if let Ok(inputs) = guarded(|| {
        let mut wi = empty_wires();
        for range in verif_contiguous_ranges(ws) {
            for (i, input) in verif_wire_range_deconvolution(ws, range) {
                wi[i] = Some(input);
            }
        }
        wi
    }) {
        st.ties = near_ties(&inputs, scale);
        st.inputs = Some(Box::new(inputs));
    }
    let mut points = Vec::new();
    for a in av {
        match guarded(|| SpacePoint::try_from(a)) {
            Ok(Ok(p)) => points.push(p),
            Ok(Err(_)) => {}
            Err(m) => {
                st.panic = Some(site_of("points", &m));
                return st;
            }
        }
    }
    st.points = Some(points.clone());
    let clusters = match guarded(|| cluster_spacepoints(points).clusters) {
        Ok(c) => c,
        Err(m) => {
            st.panic = Some(site_of("clusters", &m));
            return st;
        }
    };
    st.clusters = Some(clusters.iter().map(|c| c.iter().count()).collect());
    let mut tracks: Vec<Track> = Vec::new();
    for c in clusters {
        match guarded(|| Track::try_from(c)) {
            Ok(Ok(t)) => tracks.push(t),
            Ok(Err(_)) => {}
            Err(m) => {
                st.panic = Some(site_of("tracks", &m));
                return st;
            }
        }
    }
    st.tracks = Some(tracks.len());
    match guarded(|| find_vertices(tracks).primary) {
        Ok(p) => {
            st.vertex_tracks = Some(p.as_ref().map(|v| v.tracks.len()).unwrap_or(0));
            st.vertex = Some(p.map(|v| [v.position.x.value, v.position.y.value, v.position.z.value]));
        }
        Err(m) => st.panic = Some(site_of("vertex", &m)),
    }
    st
}

/// Near-ties among the wire hits of one (time bin, pad column), as in c13b.rs.
fn near_ties(inputs: &Wires, scale: f64) -> usize {
    let mut out = 0;
    let tmax = inputs.iter().flatten().map(|v| v.len()).max().unwrap_or(0);
    for c in 0..TPC_PAD_COLUMNS {
        let wires: Vec<usize> = verif_pad_column_to_wires(c).filter(|w| *w < TPC_ANODE_WIRES).collect();
        for t in 0..tmax {
            let hits: Vec<f64> = wires.iter().filter_map(|&w| inputs[w].as_ref().and_then(|v| v.get(t)).copied().filter(|v| *v > 0.0)).collect();
            for i in 0..hits.len() {
                for j in i + 1..hits.len() {
                    if (hits[i] - hits[j]).abs() <= 4.0 * TOL * scale && hits[i].max(hits[j]) > DUST * scale {
                        out += 1;
                    }
                }
            }
        }
    }
    out
}

fn show_vertex(v: &Option<[f64; 3]>) -> String {
    match v {
        None => "none".into(),
        Some(p) => format!("{} {} {}", fbits(p[0]), fbits(p[1]), fbits(p[2])),
    }
}

struct Answers {
    /// end to end: `ok … pts=… [dust=k] [ties=k]` | `panic <site>`
    vertex: String,
    /// downstream of the wire deconvolution: request and answer (`None`: `avalanches()` panicked)
    exact: Option<(String, String)>,
    stages: String,
    why: Option<String>,
    st: Staged,
}

/// `in_domain`: a panic is an oracle failure.
fn impl_answers(ws: &Wires, ps: &Pads, in_domain: bool) -> Answers {
    let ev = MainEvent::verif_from_signals(ws.clone(), ps.clone(), 0);
    let res = guarded(|| ev.vertex());
    let st = staged(&ev, ws);
    let mut why = None;
    let dust = if st.dust > 0 { format!(" dust={}", st.dust) } else { String::new() };
    let ties = if st.ties > 0 { format!(" ties={}", st.ties) } else { String::new() };
    let vertex_line = match &res {
        Err(m) => {
            if in_domain {
                why = Some(format!("vertex() panicked: {m}"));
            }
            match &st.panic {
                Some(site) => format!("panic {site}"),
                None => {
                    why = Some(format!("vertex() panicked ({m}) but the staged replay of its stages did not"));
                    format!("panic unknown:{}", m.replace(' ', "_"))
                }
            }
        }
        Ok(v) => {
            let v = v.map(|c| [c.x.value, c.y.value, c.z.value]);
            if let Some(p) = v {
                if !p.iter().all(|x| x.is_finite()) {
                    why = Some(format!("vertex() returned a non-finite position {p:?}"));
                }
            }
            match (&st.vertex, &st.panic) {
                (Some(sv), None) => {
                    let same = match (sv, &v) {
                        (None, None) => true,
                        (Some(a), Some(b)) => a.iter().zip(b).all(|(x, y)| x.to_bits() == y.to_bits()),
                        _ => false,
                    };
                    if !same {
                        why = Some(format!("vertex() = {v:?} differs from the composition of its stages = {sv:?}"));
                    }
                }
                _ => why = Some(format!("vertex() returned {v:?} but the staged replay panicked at {:?}", st.panic)),
            }
            format!("ok {} {}{dust}", show_vertex(&v), digest(st.points.as_deref().unwrap_or(&[])))
        }
    };
    let exact = st.inputs.as_ref().map(|inputs| {
        let mut req = format!("vertexx {}", flist(&tables().pad_resp));
        push_signals(&mut req, inputs, ps);
        // `exact`: this line is compared without any tolerance
        (req, if let Some(rest) = vertex_line.strip_prefix("ok ") { format!("exact {rest}") } else { vertex_line.clone() })
    });
    let o = |x: Option<usize>| x.map(|n| n.to_string()).unwrap_or_else(|| "-".into());
    let sizes = st.clusters.as_ref().map(|c| c.iter().map(|n| n.to_string()).collect::<Vec<_>>().join(",")).unwrap_or_default();
    let mut stages_line = format!(
        "stages av={} sp={} cl={}[{}] tr={} cand=* vt={}",
        o(st.avalanches),
        o(st.points.as_ref().map(|p| p.len())),
        o(st.clusters.as_ref().map(|c| c.len())),
        sizes,
        o(st.tracks),
        o(st.vertex_tracks)
    );
    if let Some(site) = &st.panic {
        stages_line.push_str(&format!(" panic={site}"));
    }
    stages_line.push_str(&dust);
    stages_line.push_str(&ties);
    let vertex = if vertex_line.starts_with("ok ") { format!("{vertex_line}{ties}") } else { vertex_line };
    Answers { vertex, exact, stages: stages_line, why, st }
}

// ---------------------------------------------------------------- agreement

struct Parsed {
    vertex: Option<[f64; 3]>,
    digest: String,
    licence: bool,
    /// the line without the ` dust=` / ` ties=` flags
    core: String,
}
fn parse_vertex(s: &str) -> Option<Parsed> {
    let rest = s.strip_prefix("ok ")?;
    let toks: Vec<&str> = rest.split(' ').collect();
    let (vertex, i) = if toks.first() == Some(&"none") {
        (None, 1)
    } else {
        if toks.len() < 3 {
            return None;
        }
        (Some([parse_f(toks[0])?, parse_f(toks[1])?, parse_f(toks[2])?]), 3)
    };
    let digest = toks.get(i)?.strip_prefix("pts=")?.to_string();
    let licence = toks[i + 1..].iter().any(|t| t.starts_with("dust=") || t.starts_with("ties="));
    Some(Parsed { vertex, digest, licence, core: toks[..=i].join(" ") })
}

/// One line per licensed acceptance goes to the file named by `VERIF_C09B_LOG` (if set).
fn log_licensed(kind: &str, imp: &str, model: &str) {
    if let Ok(path) = std::env::var("VERIF_C09B_LOG") {
        use std::io::Write;
        if let Ok(mut f) = std::fs::OpenOptions::new().create(true).append(true).open(path) {
            let _ = writeln!(f, "{kind}\timpl {imp}\tmodel {model}");
        }
    }
}

/// Called only when the two lines differ textually.
fn agree(imp: &str, model: &str) -> bool {
    if let (Some(a), Some(b)) = (imp.strip_prefix("panic "), model.strip_prefix("panic ")) {
        return same_site(a, b);
    }
    if imp.starts_with("stages ") && model.starts_with("stages ") {
        let strip = |s: &str| -> (Vec<String>, bool) {
            let lic = s.contains(" dust=") || s.contains(" ties=");
            (s.split(' ').filter(|t| !t.starts_with("cand=") && !t.starts_with("dust=") && !t.starts_with("ties=")).map(|t| t.to_string()).collect(), lic)
        };
        let (a, lic_a) = strip(imp);
        let (b, lic_b) = strip(model);
        if a == b {
            return true;
        }
        // with a licence the sizes may differ (dust points); the panic site may not
        let site = |v: &Vec<String>| v.iter().find(|t| t.starts_with("panic=")).cloned();
        return (lic_a || lic_b)
            && match (site(&a), site(&b)) {
                (None, None) => true,
                (Some(x), Some(y)) => same_site(x.trim_start_matches("panic="), y.trim_start_matches("panic=")),
                _ => false,
            };
    }
    let (Some(a), Some(b)) = (parse_vertex(imp), parse_vertex(model)) else { return false };
    if a.core == b.core {
        // only the flags differ (`ties=` is printed by the implementation only; the dust counts
        // may differ when the vertex and the points do not)
        log_licensed("same", imp, model);
        return true;
    }
    if !(a.licence || b.licence) {
        return false;
    }
    if a.digest == b.digest {
        // same points: everything downstream is bit for bit, so the vertex must be equal
        return false;
    }
    let kind = match (&a.vertex, &b.vertex) {
        (None, None) => "none/none",
        (Some(x), Some(y)) if x.iter().zip(y).all(|(p, q)| (p - q).abs() <= VERTEX_TOL) => "within-1mm",
        _ => "moved",
    };
    log_licensed(kind, imp, model);
    true
}

// ---------------------------------------------------------------- event builders

fn pulse_into(sig: &mut [f64], k: usize, a: f64, resp: &[f64]) {
    for j in k..sig.len() {
        if j - k < resp.len() {
            sig[j] += a * resp[j - k];
        }
    }
}
fn block(start: usize, len: usize) -> Vec<usize> {
    (0..len).map(|j| (start + j) % TPC_ANODE_WIRES).collect()
}
/// A charge cloud on the pads of `col` around `row` in time bin `k` (copy of c13b.rs).
fn pad_cloud(rng: &mut Rng, ps: &mut Pads, col: usize, row: usize, k: usize, b: f64, len: usize, noise: f64, shape: &[f64], jitter: bool) {
    let t = tables();
    let half = shape.len() / 2;
    for (d, f) in shape.iter().enumerate() {
        let r = row as isize + d as isize - half as isize;
        if r < 0 || r >= TPC_PAD_ROWS as isize {
            continue;
        }
        let slot = &mut ps[col][r as usize];
        // `noise < 0`: a constant offset of `|noise|` on every sample instead of noise (the residual
        // of a fitted pulse then stays positive: no dust)
        let sig = slot.get_or_insert_with(|| (0..len).map(|_| if noise > 0.0 { noise * (2.0 * rng.f64_unit() - 1.0) } else { -noise }).collect());
        let a = if jitter { b * f * (0.9 + 0.2 * rng.f64_unit()) } else { b * f };
        pulse_into(sig, k, a, &t.pad_resp);
    }
}
/// Random hits on the wires `wires` (copy of c13b.rs `hit_event`).
fn hit_event(rng: &mut Rng, wires: &[usize], noise: f64, differing_lengths: bool, crosstalk: bool) -> (Wires, Box<Pads>) {
    let t = tables();
    let mut ws = empty_wires();
    let mut ps = empty_pads();
    let base_len = rng.range(50, 120) as usize;
    let mut direct: HashMap<usize, Vec<f64>> = HashMap::new();
    let mut lens: HashMap<usize, usize> = HashMap::new();
    for &w in wires {
        let len = if differing_lengths && rng.below(3) == 0 { rng.range(20, base_len as u64) as usize } else { base_len };
        lens.insert(w, len);
        let mut sig = vec![0.0; base_len];
        for _ in 0..rng.below(3) {
            let k = rng.below((base_len - 15) as u64) as usize;
            let a = 10f64.powf(1.0 + 3.0 * rng.f64_unit());
            pulse_into(&mut sig, k, a, &t.wire_resp);
            let col = col_of(w);
            let row = rng.below(TPC_PAD_ROWS as u64) as usize;
            let b = 10f64.powf(2.0 + 2.0 * rng.f64_unit());
            let shape: &[f64] = if rng.bool() { &[0.45, 1.0, 0.35] } else { &[0.1, 0.5, 1.0, 0.6, 0.15] };
            pad_cloud(rng, &mut ps, col, row, k, b, base_len, noise, shape, true);
        }
        direct.insert(w, sig);
    }
    for &w in wires {
        let mut sig = vec![0.0; base_len];
        for d in -4i64..=4 {
            if d != 0 && !crosstalk {
                continue;
            }
            let src = (w as i64 + d).rem_euclid(TPC_ANODE_WIRES as i64) as usize;
            if let Some(v) = direct.get(&src) {
                let f = t.factors[d.unsigned_abs() as usize];
                for (a, x) in sig.iter_mut().zip(v) {
                    *a += f * x;
                }
            }
        }
        if noise > 0.0 {
            for x in sig.iter_mut() {
                *x += noise * (2.0 * rng.f64_unit() - 1.0);
            }
        }
        sig.truncate(lens[&w]);
        ws[w] = Some(sig);
    }
    (ws, ps)
}

/// Straight-ish tracks from a common vertex written directly as isolated pulses: for every track
/// and every `step`-th time bin of the drift range one avalanche on the wire facing the track at
/// the radius the drift table gives for that bin (Lorentz angle added back), with a three-row pad
/// cloud at the track's height. No cross-talk, no digitisation: a cheap event that reconstructs.
/// `len` is the waveform length (the drift range is ≈ 270 bins of 16 ns).
#[allow(clippy::too_many_arguments)]
fn pulse_tracks(rng: &mut Rng, n_tracks: usize, vertex: [f64; 3], step: usize, len: usize, crosstalk: bool, equal_amplitudes: bool, noise: f64, cap: Option<usize>, dz: f64) -> (Wires, Box<Pads>) {
    let t = tables();
    let mut direct: HashMap<usize, Vec<f64>> = HashMap::new();
    let mut ps = empty_pads();
    let pitch = std::f64::consts::TAU / TPC_ANODE_WIRES as f64;
    for track in 0..n_tracks {
        // track `i` starts `i * dz` above the common vertex (`dz = 0`: one vertex)
        let vertex = [vertex[0], vertex[1], vertex[2] + track as f64 * dz];
        let dir = std::f64::consts::TAU * rng.f64_unit();
        let slope = 1.2 * (rng.f64_unit() - 0.5); // dz/dr
        let curv = 0.6 * (rng.f64_unit() - 0.5); // rad per metre of radius: a gentle bend
        let amp = if equal_amplitudes { 500.0 } else { 200.0 + 1800.0 * rng.f64_unit() };
        let mut k = 3usize;
        let mut placed = 0usize;
        while k + 20 < len && cap.map(|c| placed < c).unwrap_or(true) {
            // radius and Lorentz angle of time bin k at this height, from the library's own lookup
            let probe = |z: f64| {
                let mut a = alpha_g_physics::Avalanche { t: Default::default(), phi: Default::default(), z: Default::default(), wire_amplitude: 1.0, pad_amplitude: 1.0 };
                a.t.value = k as f64 / 62.5e6;
                a.z.value = z;
                SpacePoint::try_from(a).ok()
            };
            let Some(p0) = probe(vertex[2]) else { break };
            let r = p0.r.value;
            let z = vertex[2] + slope * r;
            let Some(p) = probe(z) else {
                k += step;
                continue;
            };
            let lorentz = -p.phi.value; // phi_out = 0 - correction
            let phi_track = dir + curv * r + (vertex[1] * dir.cos() - vertex[0] * dir.sin()) / r.max(0.05);
            let phi_wire = (phi_track + lorentz).rem_euclid(std::f64::consts::TAU);
            // wire whose phi() is nearest: phi(w) = pitch * (((w - 8) & 0xff) + 0.5)
            let shifted = ((phi_wire / pitch - 0.5).round() as i64).rem_euclid(TPC_ANODE_WIRES as i64) as usize;
            let w = (shifted + 8) % TPC_ANODE_WIRES;
            debug_assert!((TpcWirePosition::try_from(w).unwrap().phi() - phi_wire).abs() <= pitch);
            let sig = direct.entry(w).or_insert_with(|| vec![0.0; len]);
            pulse_into(sig, k, amp, &t.wire_resp);
            // pad row facing z
            let row = (((z + 1.152) / 0.004).floor() as i64).clamp(1, TPC_PAD_ROWS as i64 - 2) as usize;
            let zc = TpcPadRow::try_from(row).unwrap().z();
            let frac = ((z - zc) / 0.004).clamp(-0.5, 0.5);
            let shape = [0.45 - 0.3 * frac, 1.0, 0.45 + 0.3 * frac];
            pad_cloud(rng, &mut ps, col_of(w), row, k, 5.0 * amp, len, noise, &shape, false);
            placed += 1;
            k += step;
        }
    }
    let mut ws = empty_wires();
    let wires: Vec<usize> = direct.keys().copied().collect();
    let mut targets: Vec<usize> = wires.clone();
    if crosstalk {
        for &w in &wires {
            for d in -4i64..=4 {
                targets.push((w as i64 + d).rem_euclid(TPC_ANODE_WIRES as i64) as usize);
            }
        }
    }
    targets.sort();
    targets.dedup();
    for &w in &targets {
        let mut sig = vec![0.0; len];
        for d in -4i64..=4 {
            if d != 0 && !crosstalk {
                continue;
            }
            let src = (w as i64 + d).rem_euclid(TPC_ANODE_WIRES as i64) as usize;
            if let Some(v) = direct.get(&src) {
                let f = t.factors[d.unsigned_abs() as usize];
                for (a, x) in sig.iter_mut().zip(v) {
                    *a += f * x;
                }
            }
        }
        if noise > 0.0 {
            for x in sig.iter_mut() {
                *x += noise * (2.0 * rng.f64_unit() - 1.0);
            }
        } else if noise < 0.0 {
            for x in sig.iter_mut() {
                *x -= noise;
            }
        }
        ws[w] = Some(sig);
    }
    (ws, ps)
}

#[derive(Default)]
struct Stats {
    events: usize,
    with_points: usize,
    with_clusters: usize,
    with_tracks: usize,
    with_vertex: usize,
    licensed: usize,
    impl_ms: f64,
}

fn add_event(s: &mut Session, gen: &'static str, ws: &Wires, ps: &Pads, in_domain: bool, with_stages: bool, stats: &mut Stats) {
    let t0 = std::time::Instant::now();
    let a = impl_answers(ws, ps, in_domain);
    stats.impl_ms += t0.elapsed().as_secs_f64() * 1e3;
    stats.events += 1;
    let st = &a.st;
    if st.points.as_ref().map(|p| !p.is_empty()).unwrap_or(false) {
        stats.with_points += 1;
    }
    if st.clusters.as_ref().map(|c| !c.is_empty()).unwrap_or(false) {
        stats.with_clusters += 1;
    }
    if st.tracks.unwrap_or(0) > 0 {
        stats.with_tracks += 1;
    }
    if matches!(st.vertex, Some(Some(_))) {
        stats.with_vertex += 1;
    }
    if st.dust > 0 || st.ties > 0 {
        stats.licensed += 1;
    }
    // the exact comparison downstream of the wire deconvolution carries the oracle verdict
    match a.exact {
        Some((req, line)) => {
            s.push_oracle(gen, req, line, a.why);
            s.push_oracle(gen, request("vertex", ws, ps), a.vertex, None);
        }
        None => s.push_oracle(gen, request("vertex", ws, ps), a.vertex, a.why),
    }
    if with_stages {
        s.push_oracle(gen, request("vertexstages", ws, ps), a.stages, None);
    }
}

fn consts_line() -> String {
    use uom::si::f64::Length;
    use uom::si::length::centimeter;
    let cm = |v: f64| Length::new::<centimeter>(v).value;
    let pitch = TpcWirePosition::try_from(8).unwrap().phi() * 2.0; // phi(w = 8) = pitch * 0.5
    format!(
        "ok {}",
        [alpha_g_detector::alpha16::ADC32_RATE, pitch, cm(3.0), f64::EPSILON, 0.05, cm(3.5), cm(5.3), cm(3.4)].iter().map(|x| fbits(*x)).collect::<Vec<_>>().join(" ")
    )
}

pub fn generate(s: &mut Session, thorough: bool) -> bool {
    s.agree = Some(agree);
    let mut rng = Rng::new(s.seed);
    let n = TPC_ANODE_WIRES;
    let mut stats = Stats::default();
    let mult = if thorough { 10 } else { 1 };

    // (0) the f64 literals of the model against the units library / detector constants of the build
    s.push_oracle("consts", "vertexconsts".into(), consts_line(), None);

    // (i) the forward model of sim.rs through the real decoder: 2–4 tracks from a common vertex
    let mut sim_decoded = 0usize;
    for i in 0..(2 * mult) {
        let mut cfg = sim::SimConfig::default();
        if i % 2 == 1 {
            cfg.noise_adc = 3.0;
        }
        if i % 4 >= 2 {
            cfg.n_tracks = (2, 2);
        }
        let mut r = sim::event_rng(s.seed ^ 0xC09B, i);
        let ev = match guarded(|| sim::simulate_event(&mut r, &cfg)) {
            Ok(ev) => ev,
            Err(m) => {
                s.push_oracle("sim-tracks", "vertexconsts".into(), consts_line(), Some(format!("the forward model rejects the library's geometry: {m}")));
                continue;
            }
        };
        match guarded(|| MainEvent::try_from_banks(sim::SIM_RUN, ev.bank_refs())) {
            Ok(Ok(me)) => {
                sim_decoded += 1;
                let (ws, ps) = me.verif_signals();
                let ws = ws.clone();
                let ps: Box<Pads> = Box::new(ps.clone());
                add_event(s, "sim-tracks", &ws, &ps, true, thorough && i % 5 == 0, &mut stats);
            }
            Ok(Err(e)) => s.push_oracle("sim-tracks", "vertexconsts".into(), consts_line(), Some(format!("simulated event {i} rejected by try_from_banks: {e}"))),
            Err(m) => s.push_oracle("sim-tracks", "vertexconsts".into(), consts_line(), Some(format!("try_from_banks panicked on simulated event {i}: {m}"))),
        }
    }
    s.notes.insert("sim_events_decoded".into(), sim_decoded.into());

    // (i') cheap reconstructing events: isolated pulses along 1–4 tracks from a common vertex
    for i in 0..(10 * mult) {
        let n_tracks = 1 + i % 4;
        let vertex = [0.01 * (rng.f64_unit() - 0.5), 0.01 * (rng.f64_unit() - 0.5), 1.2 * (rng.f64_unit() - 0.5)];
        let step = *rng.pick(&[6usize, 8, 10, 14]);
        // noise-free pulses leave a residual of pure rounding noise (much dust); a little noise
        // on every channel gives the residual a sign
        let noise = [0.0, 0.3, 1.0][(i / 4) % 3];
        let (ws, ps) = pulse_tracks(&mut rng, n_tracks, vertex, step, 300, i % 2 == 1, false, noise, None, 0.0);
        add_event(s, "pulse-tracks", &ws, &ps, true, i % 3 == 0, &mut stats);
    }
    // (i'') the minimum cluster size: two tracks of exactly 12, 13, 14 avalanches each (a constant
    // offset of +1e-3 on every sample instead of noise, so that no dust point joins them)
    for rep in 0..mult {
        for cap in [9usize, 10, 11, 12, 13, 14] {
            let vertex = [0.0, 0.0, 0.6 * (rng.f64_unit() - 0.5)];
            let (ws, ps) = pulse_tracks(&mut rng, 2, vertex, 14, 300, rep % 2 == 1, false, 0.0, Some(cap), 0.0);
            add_event(s, "min-cluster", &ws, &ps, true, true, &mut stats);
        }
    }
    // (ii) the random / degenerate signal generators of c13b.rs
    for len in [1usize, 2, 5, 9, 17, 33] {
        let start = match len % 4 {
            0 => (n - rng.range(1, len as u64) as usize) % n,
            1 => n - len,
            2 => 0,
            _ => rng.below(n as u64) as usize,
        };
        let noise = *rng.pick(&[0.0, 0.5, 2.0]);
        let (dl, ct) = (rng.bool(), rng.bool());
        let (ws, ps) = hit_event(&mut rng, &block(start, len), noise, dl, ct);
        add_event(s, "block-hits", &ws, &ps, true, false, &mut stats);
    }
    for i in 0..(4 * mult) {
        let p = *rng.pick(&[0.03, 0.1, 0.3]);
        let mut wires: Vec<usize> = (0..n).filter(|_| rng.f64_unit() < p).collect();
        if i % 3 == 0 {
            wires.extend(block(n - 3, 7));
        }
        wires.sort();
        wires.dedup();
        let noise = *rng.pick(&[0.0, 0.5]);
        let ct = rng.bool();
        let (ws, ps) = hit_event(&mut rng, &wires, noise, true, ct);
        add_event(s, "multi-block", &ws, &ps, true, false, &mut stats);
    }

    // (iii) empty and single-hit events, degenerate signals
    {
        add_event(s, "degenerate", &empty_wires(), &empty_pads(), true, true, &mut stats);
        // one wire pulse with one pad cloud
        let t = tables();
        let mut ws = empty_wires();
        let mut ps = empty_pads();
        let mut v = vec![0.0; 120];
        pulse_into(&mut v, 40, 700.0, &t.wire_resp);
        ws[77] = Some(v);
        pad_cloud(&mut rng, &mut ps, col_of(77), 300, 40, 3000.0, 120, 0.0, &[0.45, 1.0, 0.35], false);
        add_event(s, "degenerate", &ws, &ps, true, true, &mut stats);
        // peaks on the first / last pad rows (rows 0..=2 and 573..=575), hits in the first and last
        // time bins of the waveform
        {
            let mut ws = empty_wires();
            let mut ps = empty_pads();
            let len = 64;
            let w = (verif_pad_column_to_wires(31).start + 7) % TPC_ANODE_WIRES;
            let mut v = vec![0.0; len];
            pulse_into(&mut v, 2, 300.0, &t.wire_resp);
            pulse_into(&mut v, 30, 500.0, &t.wire_resp);
            pulse_into(&mut v, len - 6, 800.0, &t.wire_resp);
            ws[w] = Some(v);
            for (row, k) in [(1usize, 2usize), (TPC_PAD_ROWS - 2, 30), (TPC_PAD_ROWS - 2, len - 6)] {
                pad_cloud(&mut rng, &mut ps, 31, row, k, 2000.0, len, 0.0, &[0.4, 1.0, 0.3], false);
            }
            add_event(s, "degenerate", &ws, &ps, true, true, &mut stats);
        }
        // wires without pads, pads without wires
        let (w2, _) = hit_event(&mut rng, &block(10, 6), 0.0, false, true);
        add_event(s, "degenerate", &w2, &empty_pads(), true, false, &mut stats);
        let (_, p2) = hit_event(&mut rng, &block(10, 6), 0.0, false, true);
        add_event(s, "degenerate", &empty_wires(), &p2, true, false, &mut stats);
        // empty and very short signals
        let mut ws = empty_wires();
        let mut ps = empty_pads();
        ws[5] = Some(vec![]);
        ws[6] = Some(vec![-3.0]);
        ws[7] = Some(vec![-1.0, -2.0]);
        ws[100] = Some(vec![]);
        ps[col_of(6)][10] = Some(vec![]);
        ps[col_of(6)][11] = Some(vec![5.0, 4.0]);
        add_event(s, "degenerate", &ws, &ps, true, false, &mut stats);
    }

    // (iv) out of the domain of `try_from_banks` (no panic oracle; the model must follow):
    // non-finite samples, and pad amplitudes so small that the interpolated z is NaN
    for bad in [f64::NAN, f64::INFINITY, f64::NEG_INFINITY] {
        let (mut ws, mut ps) = hit_event(&mut rng, &block(60, 5), 0.5, false, true);
        if let Some(v) = ws[62].as_mut() {
            v[10] = bad;
        }
        if let Some(v) = ps[col_of(62)].iter_mut().flatten().next() {
            v[12] = bad;
        }
        add_event(s, "non-finite", &ws, &ps, false, true, &mut stats);
    }
    {
        let t = tables();
        let mut ws = empty_wires();
        let mut ps = empty_pads();
        let mut v = vec![0.0; 120];
        pulse_into(&mut v, 40, 700.0, &t.wire_resp);
        ws[77] = Some(v);
        for (row, a) in [(299usize, 1e-318), (300, 100.0), (301, 1.0)] {
            let mut p = vec![0.0; 120];
            pulse_into(&mut p, 40, a, &t.pad_resp);
            ps[col_of(77)][row] = Some(p);
        }
        add_event(s, "nan-z", &ws, &ps, false, true, &mut stats);
    }

    s.notes.insert(
        "events".into(),
        serde_json::json!({
            "total": stats.events, "with_space_points": stats.with_points, "with_clusters": stats.with_clusters,
            "with_tracks": stats.with_tracks, "with_vertex": stats.with_vertex,
            "with_dust_or_near_ties (licensed to differ)": stats.licensed,
            "implementation_ms_total": stats.impl_ms,
        }),
    );
    s.notes.insert(
        "agreement".into(),
        serde_json::json!("vertexx: exact line equality (bit patterns). vertex: exact unless one of the avalanche lists contains dust or the implementation declares a near-tie; then equal point digests still require equal vertex bits and different digests are accepted and classified (log VERIF_C09B_LOG); see the header of c09b.rs"),
    );
    true
}

/// Replay entry: answer one request line of this module on the implementation.
pub fn run_request(cmd: &str, args: &[&str]) -> Option<String> {
    match cmd {
        "vertexconsts" => Some(consts_line()),
        // the deconvolved wire inputs cannot be fed to the built code: replay the `vertex` request
        "vertexx" => Some("unsupported-request".into()),
        "vertex" | "vertexstages" => {
            let groups: Vec<Vec<&str>> = args.split(|a| *a == "|").map(|g| g.iter().copied().filter(|x| !x.is_empty() && *x != "-").collect()).collect();
            if groups.len() != 5 {
                return Some("unsupported-request".into());
            }
            let t = tables();
            let same = |g: &Vec<&str>, v: &[f64]| g.len() == 1 && parse_flist(g[0]).map(|x| x.iter().map(|y| y.to_bits()).eq(v.iter().map(|y| y.to_bits()))).unwrap_or(false);
            if !(same(&groups[0], &t.wire_resp) && same(&groups[1], &t.pad_resp) && same(&groups[2], &t.factors)) {
                return Some("unsupported-request".into());
            }
            let mut ws = empty_wires();
            let mut ps = empty_pads();
            for tok in &groups[3] {
                let (h, v) = tok.split_once(':')?;
                let w: usize = h.strip_prefix('w')?.parse().ok()?;
                if w >= TPC_ANODE_WIRES {
                    return Some("unsupported-request".into());
                }
                ws[w] = Some(parse_flist(v)?);
            }
            for tok in &groups[4] {
                let (h, v) = tok.split_once(':')?;
                let (c, r) = h.strip_prefix('p')?.split_once('.')?;
                let (c, r): (usize, usize) = (c.parse().ok()?, r.parse().ok()?);
                if c >= TPC_PAD_COLUMNS || r >= TPC_PAD_ROWS {
                    return Some("unsupported-request".into());
                }
                ps[c][r] = Some(parse_flist(v)?);
            }
            let a = impl_answers(&ws, &ps, false);
            Some(if cmd == "vertex" { a.vertex } else { a.stages })
        }
        _ => None,
    }
}
