//! C10: event assembly (`MainEvent::try_from_banks`) puts each waveform on its detector element,
//! calibrated, or fails. Also the shared event machinery of C09 and C11.
//!
//! Request: `event <run> <name>=<hex> <name>=<hex> …`
//!   → `ok <ts> w<idx>:<bits,…> … p<col>.<row>:<bits,…> …` | `err <Variant>` | `panic <msg>`
//! (occupied slots in index order; samples as f64 bit patterns; a bank name that is not purely
//! ASCII alphanumeric is written `~<hex of its UTF-8 bytes>`).
//!
//! The oracle is written from the property text and never looks at the Lean model: it knows the
//! *intended* content of each event (`Spec`), obtains the element of each (board, channel) /
//! (board, chip, channel) from the crate's public maps and the calibration values from the hooks
//! `alpha_g_physics::verif::*`, and demands slot = (raw − baseline)·gain after the delay on the
//! mapped element, nothing elsewhere, ts = TRG timestamp, and rejection of every injected
//! inconsistency.
use crate::{c02, c04, c05, c06, guarded, hex, unhex, Rng, Session};
use alpha_g_detector::alpha16::aw_map::TpcWirePosition;
use alpha_g_detector::alpha16::{self, Adc32ChannelId};
use alpha_g_detector::padwing::map::TpcPadPosition;
use alpha_g_detector::padwing::{self, AfterId};
use alpha_g_physics::verif as hooks;
use alpha_g_physics::{MainEvent, TryMainEventFromDataBanksError as E};

pub type Banks = Vec<(String, Vec<u8>)>;

// ------------------------------------------------------------------------------------------
// line protocol

pub fn name_token(name: &str) -> String {
    if !name.is_empty() && name.bytes().all(|b| b.is_ascii_alphanumeric()) {
        name.to_string()
    } else {
        format!("~{}", if name.is_empty() { String::new() } else { hex(name.as_bytes()) })
    }
}

pub fn request_line(run: u32, banks: &Banks) -> String {
    let mut s = format!("event {run}");
    for (n, d) in banks {
        s.push(' ');
        s.push_str(&name_token(n));
        s.push('=');
        s.push_str(&hex(d));
    }
    s
}

pub fn parse_args(args: &[&str]) -> Option<(u32, Banks)> {
    let run: u32 = args.first()?.parse().ok()?;
    let mut banks = Vec::new();
    for a in &args[1..] {
        let (n, h) = a.split_once('=')?;
        let name = if let Some(x) = n.strip_prefix('~') {
            String::from_utf8(if x.is_empty() { Vec::new() } else { unhex(x)? }).ok()?
        } else {
            n.to_string()
        };
        banks.push((name, unhex(h)?));
    }
    Some((run, banks))
}

pub fn err_name(e: &E) -> &'static str {
    match e {
        E::UnknownBank(_) => "UnknownBank",
        E::BadAlpha16(_) => "BadAlpha16",
        E::Alpha16IdMismatch { .. } => "Alpha16IdMismatch",
        E::WireBankWithBvChannel { .. } => "WireBankWithBvChannel",
        E::DuplicateWireBank { .. } => "DuplicateWireBank",
        E::BadPadwingChunk(_) => "BadPadwingChunk",
        E::PadwingBoardIdMismatch { .. } => "PadwingBoardIdMismatch",
        E::BadPadwing(_) => "BadPadwing",
        E::DuplicatePadSignal { .. } => "DuplicatePadSignal",
        E::BadTrg(_) => "BadTrg",
        E::DuplicateTrgBank => "DuplicateTrgBank",
        E::MissingTrgBank => "MissingTrgBank",
        E::WirePositionError(_) => "WirePositionError",
        E::PadPositionError(_) => "PadPositionError",
        E::WireBaselineError(_) => "WireBaselineError",
        E::WireDelayError(_) => "WireDelayError",
        E::WireGainError(_) => "WireGainError",
        E::PadBaselineError(_) => "PadBaselineError",
        E::PadDelayError(_) => "PadDelayError",
        E::PadGainError(_) => "PadGainError",
    }
}

fn push_samples(out: &mut String, s: &[f64]) {
    if s.is_empty() {
        out.push('-');
    }
    for (i, x) in s.iter().enumerate() {
        if i > 0 {
            out.push(',');
        }
        out.push_str(&format!("{:016x}", x.to_bits()));
    }
}

pub fn show_event(ev: &MainEvent) -> String {
    let (w, p) = ev.verif_signals();
    let mut out = format!("ok {}", ev.timestamp());
    for (i, s) in w.iter().enumerate() {
        if let Some(s) = s {
            out.push_str(&format!(" w{i}:"));
            push_samples(&mut out, s);
        }
    }
    for (c, col) in p.iter().enumerate() {
        for (r, s) in col.iter().enumerate() {
            if let Some(s) = s {
                out.push_str(&format!(" p{c}.{r}:"));
                push_samples(&mut out, s);
            }
        }
    }
    out
}

pub fn build(run: u32, banks: &Banks) -> Result<Result<MainEvent, E>, String> {
    guarded(|| MainEvent::try_from_banks(run, banks.iter().map(|(n, d)| (n.as_str(), d.as_slice()))))
}

/// Canonical answer of the implementation and the event (when built).
pub fn run_impl(run: u32, banks: &Banks) -> (String, Option<MainEvent>) {
    match build(run, banks) {
        Err(msg) => (format!("panic {msg}"), None),
        Ok(Err(e)) => (format!("err {}", err_name(&e)), None),
        Ok(Ok(ev)) => (show_event(&ev), Some(ev)),
    }
}

pub fn run_request(cmd: &str, args: &[&str]) -> Option<String> {
    match cmd {
        "event" => {
            let (run, banks) = parse_args(args)?;
            Some(run_impl(run, &banks).0)
        }
        _ => None,
    }
}

// ------------------------------------------------------------------------------------------
// boards and names

/// Alpha16 boards (name, MAC), discovered through the public `BoardId::try_from(&str)`.
pub fn a16_boards() -> &'static Vec<(String, [u8; 6])> {
    static B: std::sync::OnceLock<Vec<(String, [u8; 6])>> = std::sync::OnceLock::new();
    B.get_or_init(|| {
        let mut v = Vec::new();
        for i in 0..100 {
            let name = format!("{i:02}");
            if let Ok(b) = alpha16::BoardId::try_from(name.as_str()) {
                v.push((name, b.mac_address()));
            }
        }
        v
    })
}

pub fn pwb_boards() -> &'static Vec<(String, [u8; 6], u32)> {
    c05::boards_cached()
}

const B32: &[u8; 32] = b"0123456789ABCDEFGHIJKLMNOPQRSTUV";

/// Documented name of the anode-wire bank of (board, channel): `C` + board + channel in base 32.
pub fn c_name(board: &str, ch: u8) -> String {
    format!("C{board}{}", B32[ch as usize] as char)
}
/// Documented name of the barrel-veto bank of (board, channel): `B` + board + channel in base 16.
pub fn b_name(board: &str, ch: u8) -> String {
    format!("B{board}{:X}", ch)
}
pub fn pc_name(board: &str) -> String {
    format!("PC{board}")
}

// ------------------------------------------------------------------------------------------
// packet builders (all through the independent encoders of c02 / c04 / c05 / c06)

pub fn trg_bytes(rng: &mut Rng, ts: u32) -> Vec<u8> {
    let mut f = c06::random_fields(rng);
    f.ts = ts;
    c06::encode(&f)
}

/// Long, unsuppressed ADC packet with the given channel byte (128 + ch: anode wire, < 16: BV).
pub fn adc_bytes(rng: &mut Rng, mac: [u8; 6], chan_byte: u8, wave: &[i16]) -> Vec<u8> {
    assert!(wave.len() >= 64);
    let f = c02::Fields {
        trig: rng.next() as u16,
        module: rng.below(8) as u8,
        chan: chan_byte,
        req: (wave.len() + 2) as u16,
        ts: rng.next(),
        mac: Some(mac),
        trig_off: rng.next() as i32,
        build: rng.next() as u32,
        wave: wave.to_vec(),
        baseline: c02::floor_baseline(wave) as i16,
        keep_last: 0,
        keep_bit: false,
        supp: false,
    };
    c02::encode(&f)
}

/// Suppressed (16-byte) ADC packet: no board id, no waveform.
pub fn adc_short(rng: &mut Rng, chan_byte: u8) -> Vec<u8> {
    let mut f = c02::valid_short(rng);
    f.chan = chan_byte;
    c02::encode(&f)
}

/// One PWB packet of a chip; `chunk_dev`/`chunk_chip` are what the chunk headers say, `mac` and
/// `letter` what the packet inside says (equal in a consistent event).
#[derive(Clone, Debug)]
pub struct PwbSpec {
    /// index into `pwb_boards()`
    pub board: usize,
    pub chip: u8,
    pub req: u16,
    /// (readout index 1..=79, waveform of `req` samples), ascending readout index
    pub sent: Vec<(u16, Vec<i16>)>,
    pub chunk_size: usize,
}

pub fn pwb_payload(rng: &mut Rng, mac: [u8; 6], letter: u8, req: u16, sent: &[(u16, Vec<i16>)]) -> Vec<u8> {
    let mut mask = 0u128;
    for (i, w) in sent {
        assert!((1..=79).contains(i) && w.len() == req as usize);
        mask |= 1u128 << (i - 1);
    }
    let mut f = c05::random_fields(rng, 0, req);
    f.after = letter;
    f.mac = mac;
    f.sent = mask;
    // channels over threshold: any subset of the channels sent (forced channels and neighbours of a hit
    // are sent without being over threshold); every sent channel must reach its pad either way
    // (seed C10-8 iterated over the threshold mask)
    let any79 = ((rng.next() as u128) << 64 | rng.next() as u128) & ((1u128 << 79) - 1);
    f.thr = match rng.below(6) {
        0 => mask,
        1 => 0,
        2 => any79,                 // any mask, also bits of channels that were not sent
        3 => mask | (any79 & (any79 >> 3)),
        _ => mask & any79,
    };
    f.waves = sent.iter().map(|(_, w)| w.clone()).collect();
    c05::encode(&f)
}

pub fn chunk_banks(rng: &mut Rng, name: &str, payload: &[u8], size: usize, dev: u32, chip: u8) -> Banks {
    let seq = rng.next() as u32;
    c04::cut(payload, size, dev, chip)
        .iter()
        .enumerate()
        .map(|(i, cv)| (name.to_string(), c04::chunk_bytes(cv, seq, i as u16)))
        .collect()
}

pub fn pwb_banks(rng: &mut Rng, p: &PwbSpec) -> Banks {
    let (name, mac, dev) = &pwb_boards()[p.board];
    let payload = pwb_payload(rng, *mac, b'A' + p.chip, p.req, &p.sent);
    chunk_banks(rng, &pc_name(name), &payload, p.chunk_size, *dev, p.chip)
}

// ------------------------------------------------------------------------------------------
// intended content of an event and the oracle

#[derive(Clone, Debug)]
pub struct WireSpec {
    /// index into `a16_boards()`
    pub board: usize,
    pub ch: u8,
    pub wave: Vec<i16>,
}

#[derive(Clone, Debug, Default)]
pub struct Spec {
    pub run: u32,
    pub ts: u32,
    pub wires: Vec<WireSpec>,
    pub pads: Vec<PwbSpec>,
}

pub fn spec_banks(rng: &mut Rng, s: &Spec) -> Banks {
    let mut banks = Banks::new();
    for w in &s.wires {
        let (name, mac) = &a16_boards()[w.board];
        banks.push((c_name(name, w.ch), adc_bytes(rng, *mac, 128 + w.ch, &w.wave)));
    }
    for p in &s.pads {
        banks.extend(pwb_banks(rng, p));
    }
    banks.push(("ATAT".to_string(), trg_bytes(rng, s.ts)));
    banks
}

pub type Slots = (Vec<Option<Vec<f64>>>, Vec<Option<Vec<f64>>>);

/// What the property text demands of a *consistent* event with this content.
pub enum Want {
    Accept(Box<Slots>),
    /// a needed map or calibration is unavailable (the string says which)
    Reject(String),
}

pub fn pad_index(c: usize, r: usize) -> usize {
    c * 576 + r
}

/// (raw − baseline)·gain with the leading `delay` samples removed; `None` when nothing is left.
fn calibrated(wave: &[i16], baseline: i16, gain: f64, delay: usize) -> Option<Vec<f64>> {
    let v: Vec<f64> = wave.iter().skip(delay).map(|&x| (x as i64 - baseline as i64) as f64 * gain).collect();
    if v.is_empty() {
        None
    } else {
        Some(v)
    }
}

pub fn want(s: &Spec) -> Want {
    let mut wire: Vec<Option<Vec<f64>>> = vec![None; 256];
    let mut pad: Vec<Option<Vec<f64>>> = vec![None; 32 * 576];
    for w in &s.wires {
        let (name, _) = &a16_boards()[w.board];
        let b = alpha16::BoardId::try_from(name.as_str()).unwrap();
        let c = Adc32ChannelId::try_from(w.ch).unwrap();
        let Ok(pos) = TpcWirePosition::try_new(s.run, b, c) else {
            return Want::Reject(format!("no wire map for run {}", s.run));
        };
        let (Some(bl), Some(g), Some(d)) =
            (hooks::wire_baseline(s.run, pos), hooks::wire_gain(s.run, pos), hooks::wire_delay(s.run))
        else {
            return Want::Reject(format!("no wire calibration for wire {} in run {}", usize::from(pos), s.run));
        };
        let i = usize::from(pos);
        if wire[i].is_some() {
            return Want::Reject(format!("two banks for wire {i}"));
        }
        wire[i] = calibrated(&w.wave, bl, g, d);
    }
    for p in &s.pads {
        let (name, _, _) = &pwb_boards()[p.board];
        let b = padwing::BoardId::try_from(name.as_str()).unwrap();
        let a = AfterId::try_from(p.chip).unwrap();
        for (readout, wave) in &p.sent {
            let Ok(padwing::ChannelId::Pad(pc)) = padwing::ChannelId::try_from(*readout) else {
                continue; // reset / FPN channels contribute nothing
            };
            let Ok(pos) = TpcPadPosition::try_new(s.run, b, a, pc) else {
                return Want::Reject(format!("board {name} has no position in run {}", s.run));
            };
            let (Some(bl), Some(g), Some(d)) =
                (hooks::pad_baseline(s.run, pos), hooks::pad_gain(s.run, pos), hooks::pad_delay(s.run))
            else {
                return Want::Reject(format!("no pad calibration for {pos:?} in run {}", s.run));
            };
            let i = pad_index(usize::from(pos.column), usize::from(pos.row));
            if pad[i].is_some() {
                return Want::Reject(format!("two waveforms for pad {pos:?}"));
            }
            pad[i] = calibrated(wave, bl, g, d);
        }
    }
    Want::Accept(Box::new((wire, pad)))
}

fn same(a: &Option<Vec<f64>>, b: &Option<Vec<f64>>) -> bool {
    match (a, b) {
        (None, None) => true,
        (Some(x), Some(y)) => x.len() == y.len() && x.iter().zip(y).all(|(p, q)| p.to_bits() == q.to_bits()),
        _ => false,
    }
}

/// Compare a built event with the demanded slots.
pub fn check_slots(ev: &MainEvent, ts: u32, slots: &Slots) -> Option<String> {
    if ev.timestamp() != ts {
        return Some(format!("timestamp {} is not the TRG packet's {ts}", ev.timestamp()));
    }
    let (w, p) = ev.verif_signals();
    for i in 0..256 {
        if !same(&w[i], &slots.0[i]) {
            return Some(format!("wire slot {i} differs from (raw - baseline) * gain after the delay on the mapped wire"));
        }
    }
    for c in 0..32 {
        for r in 0..576 {
            if !same(&p[c][r], &slots.1[pad_index(c, r)]) {
                return Some(format!("pad slot ({c}, {r}) differs from (raw - baseline) * gain after the delay on the mapped pad"));
            }
        }
    }
    None
}

/// What is demanded of one case.
pub enum Expect<'a> {
    /// consistent event with this content
    Consistent(&'a Spec),
    /// an inconsistency was injected: the build must be rejected; the text names the cause
    MustReject(&'a str),
    /// no demand beyond "no panic"
    Free,
}

// The four input classes of the former finding F6 (repaired in /repo by commit 851d684); they
// are ordinary "must be rejected" cases now.
pub const F6A: &str = "suppressed packet with a BV channel in a C-bank";
pub const F6B: &str = "suppressed packet whose channel differs from its bank name";
pub const F6C: &str = "duplicated C-bank with suppressed packets";
pub const F6D: &str = "duplicated C-bank with waveforms not longer than the delay";

pub fn add(s: &mut Session, gen: &'static str, run: u32, banks: &Banks, expect: Expect) {
    let (imp, ev) = run_impl(run, banks);
    let mut why = None;
    if imp.starts_with("panic") {
        why = Some(format!("try_from_banks panicked: {imp}"));
    } else {
        match expect {
            Expect::Free => {}
            Expect::MustReject(cause) => {
                if ev.is_some() {
                    why = Some(format!("accepted but must be rejected: {cause}"));
                }
            }
            Expect::Consistent(spec) => match (want(spec), &ev) {
                (Want::Accept(slots), Some(ev)) => why = check_slots(ev, spec.ts, &slots),
                (Want::Accept(_), None) => why = Some(format!("consistent event rejected: {imp}")),
                (Want::Reject(cause), Some(_)) => why = Some(format!("accepted but must be rejected: {cause}")),
                (Want::Reject(_), None) => {}
            },
        }
    }
    s.push_oracle(gen, request_line(run, banks), imp, why);
}

// ------------------------------------------------------------------------------------------
// generators

/// Run numbers on both sides of every threshold of the maps and calibrations, and the
/// simulation number (the thresholds are those of `Generated/CalArms.lean` and `Generated/Maps.lean`;
/// the list is a superset, kept in step by translator/calib.py's check of the dump runs).
pub fn run_classes() -> Vec<u32> {
    RUNS.to_vec()
}
pub const RUNS: [u32; 25] = [
    0, 2723, 2724, 2940, 2941, 4417, 4418, 6999, 7000, 7025, 7026, 9276, 9277, 10417, 10418, 11083,
    11084, 11185, 11186, 11191, 11192, 20000, 1 << 31, u32::MAX - 1, u32::MAX,
];

/// Runs at which a full sweep over all elements is made in the quick tier (first run of every
/// class with complete calibration, and the simulation number).
const SWEEP_RUNS: [u32; 2] = [u32::MAX, 11084];

pub fn wave(rng: &mut Rng, n: usize) -> Vec<i16> {
    (0..n)
        .map(|_| match rng.below(16) {
            0 => i16::MIN,
            1 => i16::MAX,
            2 => 0,
            _ => (rng.next() as i16) >> rng.below(8),
        })
        .collect()
}

fn delay_of(run: u32, pad: bool) -> usize {
    let d = if pad { hooks::pad_delay(run) } else { hooks::wire_delay(run) };
    d.unwrap_or(100)
}

/// Emit a consistent event; when it must be rejected for a missing calibration, also emit the
/// event restricted to the elements that have one (so that every such element is observed on
/// its slot) and, for a few of the others, the single-element events (each must be rejected).
fn emit_split(s: &mut Session, rng: &mut Rng, gen: &'static str, spec: &Spec) {
    let banks = spec_banks(rng, spec);
    add(s, gen, spec.run, &banks, Expect::Consistent(spec));
    if let Want::Reject(_) = want(spec) {
        let ok_wire = |w: &WireSpec| matches!(want(&Spec { wires: vec![w.clone()], pads: vec![], ..spec.clone() }), Want::Accept(_));
        let ok_pad = |p: &PwbSpec, c: &(u16, Vec<i16>)| {
            let one = PwbSpec { sent: vec![c.clone()], ..p.clone() };
            matches!(want(&Spec { wires: vec![], pads: vec![one], ..spec.clone() }), Want::Accept(_))
        };
        let mut good = Spec { wires: vec![], pads: vec![], ..spec.clone() };
        let mut bad: Vec<Spec> = Vec::new();
        for w in &spec.wires {
            if ok_wire(w) {
                good.wires.push(w.clone());
            } else {
                bad.push(Spec { wires: vec![w.clone()], pads: vec![], ..spec.clone() });
            }
        }
        for p in &spec.pads {
            let mut q = PwbSpec { sent: vec![], ..p.clone() };
            for c in &p.sent {
                if ok_pad(p, c) {
                    q.sent.push(c.clone());
                } else {
                    bad.push(Spec { wires: vec![], pads: vec![PwbSpec { sent: vec![c.clone()], ..p.clone() }], ..spec.clone() });
                }
            }
            if !q.sent.is_empty() {
                good.pads.push(q);
            }
        }
        if good.wires.is_empty() && good.pads.is_empty() {
            return;
        }
        let banks = spec_banks(rng, &good);
        add(s, gen, good.run, &banks, Expect::Consistent(&good));
        rng.shuffle(&mut bad);
        for b in bad.iter().take(2) {
            let banks = spec_banks(rng, b);
            add(s, gen, b.run, &banks, Expect::Consistent(b));
        }
    }
}

/// All 32 channels of one Alpha16 board.
fn board_wires(rng: &mut Rng, run: u32, board: usize, extra: usize) -> Vec<WireSpec> {
    let d = delay_of(run, false);
    (0..32u8)
        .map(|ch| {
            let n = (d + 1 + rng.below(extra as u64 + 1) as usize).max(64);
            WireSpec { board, ch, wave: wave(rng, n) }
        })
        .collect()
}

/// One chip of a PadWing board with all 79 channels sent (72 pads + 3 reset + 4 FPN).
fn full_chip(rng: &mut Rng, run: u32, board: usize, chip: u8) -> PwbSpec {
    let req = (delay_of(run, true) + 1 + rng.below(2) as usize) as u16;
    PwbSpec {
        board,
        chip,
        req,
        sent: (1..=79u16).map(|i| (i, wave(rng, req as usize))).collect(),
        chunk_size: *rng.pick(&[1400usize, 2048, 4000, 700]),
    }
}

fn sweep(s: &mut Session, rng: &mut Rng, run: u32, boards: &[usize]) {
    for b in 0..a16_boards().len() {
        let spec = Spec { run, ts: rng.next() as u32, wires: board_wires(rng, run, b, 3), pads: vec![] };
        emit_split(s, rng, "all-wires", &spec);
    }
    for &b in boards {
        let spec = Spec { run, ts: rng.next() as u32, wires: vec![], pads: (0..4).map(|c| full_chip(rng, run, b, c)).collect() };
        emit_split(s, rng, "all-pads", &spec);
    }
}

/// A small consistent event (a few wires of different boards, one or two chips) used as the base
/// of the injections.
pub fn small_spec(rng: &mut Rng, run: u32) -> Spec {
    let dw = delay_of(run, false);
    let dp = delay_of(run, true);
    let mut wires = Vec::new();
    let mut seen = std::collections::BTreeSet::new();
    for _ in 0..rng.range(2, 5) {
        let (b, ch) = (rng.below(8) as usize, rng.below(32) as u8);
        if seen.insert((b, ch)) {
            let n = (dw + rng.range(1, 40) as usize).max(64);
            wires.push(WireSpec { board: b, ch, wave: wave(rng, n) });
        }
    }
    let mut pads = Vec::new();
    let installed = installed_boards(run);
    if !installed.is_empty() {
        let mut seen = std::collections::BTreeSet::new();
        for _ in 0..rng.range(1, 2) {
            let (b, chip) = (*rng.pick(&installed), rng.below(4) as u8);
            if !seen.insert((b, chip)) {
                continue;
            }
            let req = (dp + rng.range(1, 12) as usize) as u16;
            let mut idx: Vec<u16> = (1..=79).collect();
            rng.shuffle(&mut idx);
            let mut idx: Vec<u16> = idx[..rng.range(1, 6) as usize].to_vec();
            idx.sort();
            pads.push(PwbSpec {
                board: b,
                chip,
                req,
                sent: idx.iter().map(|&i| (i, wave(rng, req as usize))).collect(),
                chunk_size: *rng.pick(&[200usize, 512, 4000]),
            });
        }
    }
    Spec { run, ts: rng.next() as u32, wires, pads }
}

/// Indices of the PadWing boards that have a position in the run's map.
pub fn installed_boards(run: u32) -> Vec<usize> {
    use alpha_g_detector::padwing::map::TpcPwbPosition;
    pwb_boards()
        .iter()
        .enumerate()
        .filter(|(_, (n, _, _))| TpcPwbPosition::try_new(run, padwing::BoardId::try_from(n.as_str()).unwrap()).is_ok())
        .map(|(i, _)| i)
        .collect()
}

fn find_bank(banks: &Banks, pred: impl Fn(&str) -> bool) -> Option<usize> {
    banks.iter().position(|(n, _)| pred(n))
}

/// Every single inconsistency of the quantifier text injected into a consistent small event.
fn injections(s: &mut Session, rng: &mut Rng, run: u32) {
    let spec = small_spec(rng, run);
    let base = spec_banks(rng, &spec);
    add(s, "base", run, &base, Expect::Consistent(&spec));
    // The injections are only meaningful when the base event is accepted.
    let acceptable = matches!(want(&spec), Want::Accept(_));
    if !acceptable {
        // still: whatever is built from a run without maps must be rejected as a whole
        return;
    }
    let a16 = a16_boards();
    let pwb = pwb_boards();
    let is_c = |n: &str| n.starts_with('C');
    let is_pc = |n: &str| n.starts_with("PC");
    // --- renamed bank
    if let Some(i) = find_bank(&base, is_c) {
        let w = &spec.wires[i];
        let mut b = base.clone();
        b[i].0 = c_name(&a16[w.board].0, (w.ch + 1 + rng.below(31) as u8) % 32);
        add(s, "renamed-wire-bank-channel", run, &b, Expect::MustReject("wire bank name and payload disagree on the channel"));
        let mut b = base.clone();
        b[i].0 = c_name(&a16[(w.board + 1 + rng.below(7) as usize) % 8].0, w.ch);
        add(s, "renamed-wire-bank-board", run, &b, Expect::MustReject("wire bank name and payload disagree on the board"));
        let mut b = base.clone();
        b[i].0 = b_name(&a16[w.board].0, w.ch % 16);
        // a C payload under a B name: B banks are ignored by name, so the waveform is lost —
        // not an inconsistency the property lists; no demand
        add(s, "renamed-wire-bank-to-bv", run, &b, Expect::Free);
        for bad in ["C99A", "C09W", "C0900", "c09A", "XXXX", "", "C09", "ATAX", "PC9", "PCAA", "PC99", "TRBB", "MCVY", "C09é",
                    "B09G", "B99A", "B15A", "B09a", "BVXX", "B09", "B09AA", "B", "BB", "B0+0", "TRB", "MCV", "MCVXX", "ATA", "ATATA"] {
            let mut b = base.clone();
            b[i].0 = bad.to_string();
            add(s, "renamed-unknown", run, &b, Expect::MustReject("unknown bank name"));
        }
    }
    if let Some(i) = find_bank(&base, is_pc) {
        let p = &spec.pads[0];
        let mut b = base.clone();
        b[i].0 = pc_name(&pwb[(p.board + 1 + rng.below(pwb.len() as u64 - 1) as usize) % pwb.len()].0);
        add(s, "renamed-pad-bank", run, &b, Expect::MustReject("pad bank name and payload disagree on the board"));
    }
    // every single chunk bank of a multi-chunk message renamed on its own (first, middle, last chunk),
    // in the original order and with the misnamed chunk moved to the front / the back (seed C11-3:
    // only the first-arrived chunk's bank name was checked)
    {
        let pcs: Vec<usize> = (0..base.len()).filter(|&i| is_pc(&base[i].0)).collect();
        for (n, &i) in pcs.iter().enumerate() {
            if n >= 3 && n + 2 < pcs.len() {
                continue;
            }
            let mut other = base[i].0.clone();
            while other == base[i].0 {
                other = pc_name(&pwb[rng.below(pwb.len() as u64) as usize].0);
            }
            let mut b = base.clone();
            b[i].0 = other;
            add(s, "renamed-one-chunk-bank", run, &b, Expect::MustReject("one pad chunk sits in a bank named after another board"));
            let mut front = b.clone();
            let x = front.remove(i);
            front.insert(0, x);
            add(s, "renamed-one-chunk-bank", run, &front, Expect::MustReject("one pad chunk sits in a bank named after another board"));
            let mut back = b.clone();
            let x = back.remove(i);
            back.push(x);
            add(s, "renamed-one-chunk-bank", run, &back, Expect::MustReject("one pad chunk sits in a bank named after another board"));
        }
    }
    {
        let i = base.len() - 1;
        let mut b = base.clone();
        b[i].0 = "ATAX".to_string();
        add(s, "renamed-trg", run, &b, Expect::MustReject("unknown bank name"));
    }
    // --- swapped payloads
    let cs: Vec<usize> = (0..base.len()).filter(|&i| is_c(&base[i].0)).collect();
    if cs.len() >= 2 {
        let mut b = base.clone();
        let (x, y) = (cs[0], cs[1]);
        let t = b[x].1.clone();
        b[x].1 = b[y].1.clone();
        b[y].1 = t;
        add(s, "swapped-wire-payloads", run, &b, Expect::MustReject("two wire banks carry each other's payload"));
    }
    if let (Some(x), Some(y)) = (find_bank(&base, is_c), find_bank(&base, is_pc)) {
        let mut b = base.clone();
        let t = b[x].1.clone();
        b[x].1 = b[y].1.clone();
        b[y].1 = t;
        add(s, "swapped-wire-pad-payloads", run, &b, Expect::MustReject("a wire bank and a pad bank carry each other's payload"));
    }
    if let Some(x) = find_bank(&base, is_c) {
        let y = base.len() - 1;
        let mut b = base.clone();
        let t = b[x].1.clone();
        b[x].1 = b[y].1.clone();
        b[y].1 = t;
        add(s, "swapped-wire-trg-payloads", run, &b, Expect::MustReject("a wire bank and the TRG bank carry each other's payload"));
    }
    // --- duplicated bank
    if let Some(i) = find_bank(&base, is_c) {
        let mut b = base.clone();
        b.insert(rng.below(base.len() as u64 + 1) as usize, base[i].clone());
        add(s, "duplicated-wire-bank", run, &b, Expect::MustReject("duplicated wire bank"));
    }
    if let Some(i) = find_bank(&base, is_pc) {
        let mut b = base.clone();
        b.insert(rng.below(base.len() as u64 + 1) as usize, base[i].clone());
        add(s, "duplicated-pad-bank", run, &b, Expect::MustReject("duplicated pad bank (same chunk twice)"));
        // a second, complete packet of the same (board, chip): chunk ids collide
        let mut b = base.clone();
        let extra = pwb_banks(rng, &spec.pads[0]);
        for (k, e) in extra.into_iter().enumerate() {
            b.insert((i + k + 1).min(b.len()), e);
        }
        add(s, "duplicate-chunk-id", run, &b, Expect::MustReject("two packets of one (board, chip): duplicate chunk ids"));
    }
    {
        let mut b = base.clone();
        b.insert(rng.below(base.len() as u64 + 1) as usize, base[base.len() - 1].clone());
        add(s, "duplicated-trg", run, &b, Expect::MustReject("duplicated TRG bank"));
        let mut b = base.clone();
        b.push(("ATAT".to_string(), trg_bytes(rng, spec.ts ^ 1)));
        add(s, "duplicated-trg", run, &b, Expect::MustReject("two different TRG banks"));
    }
    // --- missing TRG
    {
        let mut b = base.clone();
        b.pop();
        add(s, "missing-trg", run, &b, Expect::MustReject("missing TRG bank"));
        add(s, "missing-trg", run, &Banks::new(), Expect::MustReject("missing TRG bank (no bank at all)"));
    }
    // --- BV channel in a C-bank (long packet)
    if let Some(i) = find_bank(&base, is_c) {
        let w = &spec.wires[i];
        let mut b = base.clone();
        let bv = rng.below(16) as u8;
        b[i].1 = adc_bytes(rng, a16[w.board].1, bv, &w.wave);
        add(s, "bv-channel-in-wire-bank", run, &b, Expect::MustReject("wire bank holds a barrel-veto channel"));
        // payload says another board (its MAC) than the name
        let mut b = base.clone();
        b[i].1 = adc_bytes(rng, a16[(w.board + 1) % 8].1, 128 + w.ch, &w.wave);
        add(s, "wire-payload-other-board", run, &b, Expect::MustReject("wire bank name and payload disagree on the board"));
    }
    // --- board not installed for the run
    {
        let installed = installed_boards(run);
        let missing: Vec<usize> = (0..pwb.len()).filter(|i| !installed.contains(i)).collect();
        for &m in missing.iter().take(3) {
            let chip = rng.below(4) as u8;
            let p = full_chip(rng, run, m, chip);
            let sub = Spec { pads: vec![p], wires: vec![], ..spec.clone() };
            let b = spec_banks(rng, &sub);
            add(s, "board-not-installed", run, &b, Expect::MustReject("PadWing board not installed for the run"));
        }
    }
    // --- malformed payloads
    for i in 0..base.len() {
        for kind in 0..4 {
            let mut b = base.clone();
            let n = b[i].1.len();
            match kind {
                0 => b[i].1.truncate(n - 1 - rng.below(8) as usize),
                1 => {
                    // a flipped bit that certainly breaks the packet: anywhere in a PWB chunk (two
                    // CRCs), the type/version bytes of an ADC packet, the header mark of a TRG packet
                    let k = if is_pc(&b[i].0) {
                        rng.below(n as u64) as usize
                    } else if is_c(&b[i].0) {
                        rng.below(2) as usize
                    } else {
                        7
                    };
                    let bit = if is_pc(&b[i].0) || is_c(&b[i].0) { rng.below(8) } else { 4 + rng.below(4) };
                    b[i].1[k] ^= 1 << bit;
                }
                2 => b[i].1 = rng.bytes(n),
                _ => b[i].1.clear(),
            }
            add(s, "malformed-payload", run, &b, Expect::MustReject("malformed payload"));
        }
    }
    // --- PWB chunks of a packet lost / end-of-message missing
    {
        let pcs: Vec<usize> = (0..base.len()).filter(|&k| is_pc(&base[k].0)).collect();
        if spec.pads.len() == 1 && pcs.len() >= 2 {
            let mut b = base.clone();
            b.remove(*pcs.last().unwrap());
            add(s, "pad-chunk-lost", run, &b, Expect::MustReject("last chunk of a PWB packet missing"));
            let mut b = base.clone();
            b.remove(pcs[0]);
            add(s, "pad-chunk-lost", run, &b, Expect::MustReject("first chunk of a PWB packet missing"));
        }
    }
    // --- ignored banks do not change anything
    {
        let mut b = base.clone();
        b.insert(0, (b_name(&a16[0].0, 3), rng.bytes(10)));
        b.insert(rng.below(b.len() as u64) as usize, ("TRBA".to_string(), rng.bytes(33)));
        b.push(("MCVX".to_string(), rng.bytes(24)));
        b.push((b_name(&a16[7].0, 15), adc_short(rng, 3)));
        add(s, "ignored-banks", run, &b, Expect::Consistent(&spec));
    }
    // --- suppressed wire packets and waveforms shorter than the delay leave the wire empty
    {
        let mut sp = spec.clone();
        let d = delay_of(run, false);
        sp.wires = vec![WireSpec { board: 2, ch: 7, wave: wave(rng, d.max(64)) }, WireSpec { board: 3, ch: 0, wave: wave(rng, 64) }];
        let mut b = spec_banks(rng, &sp);
        b.insert(0, (c_name(&a16[5].0, 9), adc_short(rng, 128 + 9)));
        add(s, "empty-after-delay", run, &b, Expect::Consistent(&sp));
    }
    // --- pad waveforms with exactly delay-1, delay, delay+1 and 1 samples: nothing (or one sample) is
    //     left after the delay; a pad with nothing left stays empty (seed C10-4 stored Some(empty))
    {
        let installed = installed_boards(run);
        if !installed.is_empty() {
            let dp = delay_of(run, true);
            for req in [dp.saturating_sub(1).max(1), dp.max(1), dp + 1, 1] {
                let board = *rng.pick(&installed);
                let chip = rng.below(4) as u8;
                let mut sp = spec.clone();
                sp.pads = vec![PwbSpec {
                    board,
                    chip,
                    req: req as u16,
                    sent: (1..=79u16).map(|i| (i, wave(rng, req))).collect(),
                    chunk_size: *rng.pick(&[1400usize, 2048, 700]),
                }];
                let b = spec_banks(rng, &sp);
                add(s, "pad-empty-after-delay", run, &b, Expect::Consistent(&sp));
            }
        }
    }
}

/// The four input classes of the former finding F6, their counterparts with long waveforms and
/// the mixed duplicates (all must be rejected).
fn f6_classes(s: &mut Session, rng: &mut Rng, run: u32) {
    let a16 = a16_boards();
    let d = delay_of(run, false);
    let trg = ("ATAT".to_string(), trg_bytes(rng, 77));
    let (b, ch) = (rng.below(8) as usize, rng.below(32) as u8);
    let name = c_name(&a16[b].0, ch);
    let other = (ch + 1 + rng.below(31) as u8) % 32;
    // (a) suppressed packet with a BV channel id in a C-bank
    let bv = rng.below(16) as u8;
    let banks = vec![(name.clone(), adc_short(rng, bv)), trg.clone()];
    add(s, "f6a", run, &banks, Expect::MustReject(F6A));
    // (b) suppressed packet whose wire channel differs from the name's
    let banks = vec![(name.clone(), adc_short(rng, 128 + other)), trg.clone()];
    add(s, "f6b", run, &banks, Expect::MustReject(F6B));
    // (c) the same C-bank twice with suppressed packets
    let banks = vec![(name.clone(), adc_short(rng, 128 + ch)), (name.clone(), adc_short(rng, 128 + ch)), trg.clone()];
    add(s, "f6c", run, &banks, Expect::MustReject(F6C));
    // (d) the same C-bank twice with waveforms not longer than the delay
    let n = rng.range(64, d.max(64) as u64) as usize;
    let banks = vec![
        (name.clone(), { let w_ = wave(rng, n); adc_bytes(rng, a16[b].1, 128 + ch, &w_) }),
        (name.clone(), { let w_ = wave(rng, n); adc_bytes(rng, a16[b].1, 128 + ch, &w_) }),
        trg.clone(),
    ];
    add(s, "f6d", run, &banks, Expect::MustReject(F6D));
    // the long-waveform versions of (a), (b), (d) are rejected as the property demands
    let long = d + 71;
    let banks = vec![(name.clone(), { let w_ = wave(rng, long); let bv = rng.below(16) as u8; adc_bytes(rng, a16[b].1, bv, &w_) }), trg.clone()];
    add(s, "f6-long", run, &banks, Expect::MustReject("wire bank holds a barrel-veto channel"));
    let banks = vec![(name.clone(), { let w_ = wave(rng, long); adc_bytes(rng, a16[b].1, 128 + other, &w_) }), trg.clone()];
    add(s, "f6-long", run, &banks, Expect::MustReject("wire bank name and payload disagree on the channel"));
    let banks = vec![
        (name.clone(), { let w_ = wave(rng, long); adc_bytes(rng, a16[b].1, 128 + ch, &w_) }),
        (name.clone(), { let w_ = wave(rng, long); adc_bytes(rng, a16[b].1, 128 + ch, &w_) }),
        trg.clone(),
    ];
    add(s, "f6-long", run, &banks, Expect::MustReject("duplicated wire bank"));
    // mixed duplicate: one waveform longer than the delay, one not — the answer depends on the order
    let short = { let w_ = wave(rng, n); adc_bytes(rng, a16[b].1, 128 + ch, &w_) };
    let longp = { let w_ = wave(rng, long); adc_bytes(rng, a16[b].1, 128 + ch, &w_) };
    let banks = vec![(name.clone(), longp.clone()), (name.clone(), short.clone()), trg.clone()];
    add(s, "f6-mixed", run, &banks, Expect::MustReject("duplicated wire bank (long waveform first, short second)"));
    let banks = vec![(name.clone(), short), (name.clone(), longp), trg.clone()];
    add(s, "f6-mixed", run, &banks, Expect::MustReject("duplicated wire bank (short waveform first, long second)"));
}

/// A PWB packet whose own MAC / AFTER letter differ from what its chunk headers (and the bank
/// name) say.
fn inner_identity(s: &mut Session, rng: &mut Rng, run: u32) {
    let installed = installed_boards(run);
    if installed.len() < 2 {
        return;
    }
    let pwb = pwb_boards();
    let (b1, b2) = (installed[rng.below(installed.len() as u64) as usize], installed[0]);
    let b2 = if b1 == b2 { installed[1] } else { b2 };
    let req = (delay_of(run, true) + 3) as u16;
    let sent = vec![(20u16, wave(rng, req as usize))];
    let trg = ("ATAT".to_string(), trg_bytes(rng, 5));
    // only where the consistent packet of board b1 alone is acceptable (otherwise two groups fail
    // for different reasons and the reported error depends on the HashMap order)
    let alone = Spec { run, ts: 5, wires: vec![], pads: vec![PwbSpec { board: b1, chip: 0, req, sent: sent.clone(), chunk_size: 4000 }] };
    if !matches!(want(&alone), Want::Accept(_)) {
        return;
    }
    // chunk header and name: board b1, chip 0; packet inside: board b2
    let payload = pwb_payload(rng, pwb[b2].1, b'A', req, &sent);
    let mut banks = chunk_banks(rng, &pc_name(&pwb[b1].0), &payload, 4000, pwb[b1].2, 0);
    banks.push(trg.clone());
    add(s, "pwb-inner-board", run, &banks, Expect::MustReject("PWB packet whose MAC names another board than its chunk headers and bank name (former finding F10/X1)"));
    // chunk header: chip 0; packet inside: letter C
    let payload = pwb_payload(rng, pwb[b1].1, b'C', req, &sent);
    let mut banks = chunk_banks(rng, &pc_name(&pwb[b1].0), &payload, 4000, pwb[b1].2, 0);
    banks.push(trg.clone());
    add(s, "pwb-inner-chip", run, &banks, Expect::MustReject("PWB packet whose AFTER letter differs from the chip of its chunk headers (former finding F10/X2)"));
    // two packets under different (consistent-looking) chunk headers that name the same board and
    // chip inside: the same pads twice
    let payload1 = pwb_payload(rng, pwb[b1].1, b'A', req, &sent);
    let payload2 = pwb_payload(rng, pwb[b1].1, b'A', req, &sent);
    let mut banks = chunk_banks(rng, &pc_name(&pwb[b1].0), &payload1, 4000, pwb[b1].2, 0);
    banks.extend(chunk_banks(rng, &pc_name(&pwb[b2].0), &payload2, 4000, pwb[b2].2, 0));
    banks.push(("ATAT".to_string(), trg_bytes(rng, 6)));
    add(s, "pwb-same-pad-twice", run, &banks, Expect::MustReject("two PWB packets deliver the same pad"));
}

/// Errors raised inside the loop over the (board, chip) groups of PWB chunks. The groups live in a
/// `HashMap`, whose iteration order is random per process: when two groups fail for different
/// reasons, WHICH error is reported is not determined by the input (the model fixes one order).
/// Two such errors are the same outcome for C10 ("the build is rejected").
const GROUP_LOOP_ERRORS: [&str; 7] = [
    "BadPadwing", "PadwingBoardIdMismatch", "PadPositionError", "PadBaselineError", "PadGainError", "PadDelayError",
    "DuplicatePadSignal",
];

fn agree(imp: &str, model: &str) -> bool {
    match (imp.strip_prefix("err "), model.strip_prefix("err ")) {
        (Some(a), Some(b)) => {
            let kind = |x: &str| x.split([' ', ':']).next().unwrap_or("").to_string();
            let (a, b) = (kind(a), kind(b));
            a != b && GROUP_LOOP_ERRORS.contains(&a.as_str()) && GROUP_LOOP_ERRORS.contains(&b.as_str())
        }
        _ => false,
    }
}

pub fn generate(s: &mut Session, thorough: bool) -> bool {
    s.agree = Some(agree);
    let mut rng = Rng::new(s.seed);
    let runs = run_classes();
    // (i) every (board, channel) pair and every installed (board, chip, channel) triple
    for &run in &runs {
        let installed = installed_boards(run);
        let boards: Vec<usize> = if thorough || SWEEP_RUNS.contains(&run) {
            installed.clone()
        } else if installed.is_empty() {
            // no map: one board is enough to see the rejection
            vec![0]
        } else {
            let mut v = installed.clone();
            rng.shuffle(&mut v);
            v.truncate(3);
            v
        };
        sweep(s, &mut rng, run, &boards);
    }
    // (ii) injections, F6 classes, inner identity at every run class
    let reps = if thorough { 12 } else { 2 };
    for &run in &runs {
        for _ in 0..reps {
            injections(s, &mut rng, run);
            f6_classes(s, &mut rng, run);
            inner_identity(s, &mut rng, run);
        }
    }
    // (iii) random small consistent events with ignored banks interleaved and shuffled order
    for _ in 0..(if thorough { 4000 } else { 150 }) {
        let run = *rng.pick(&runs);
        let spec = small_spec(&mut rng, run);
        let mut banks = spec_banks(&mut rng, &spec);
        if rng.bool() {
            banks.push(("TRBA".to_string(), rng.bytes(12)));
        }
        rng.shuffle(&mut banks);
        add(s, "random-consistent", run, &banks, Expect::Consistent(&spec));
    }
    true
}
