//! C14c: the track fit (`Track::try_from(Cluster)`) and the vertex fit (`find_vertices`) END TO END
//! against the Lean model `AlphaG.NelderMead` (lean/AlphaG/Model/NelderMead.lean): initial guess
//! (Model/TrackInit.lean) + argmin 0.8.1's Nelder-Mead/executor + the two cost functions +
//! `t_inner`/`t_outer` / per-track `t`.
//!
//! Request lines (every `f64` is its bit pattern, 16 lowercase hex digits; answers print `nan` for
//! any NaN):
//!   fit <r phi z per point …>              Track::try_from(cluster_from_points(points))
//!        → ok <x0 y0 z0 r phi0 h> <t_inner> <t_outer> | err NoInitialParameters | panic <site>
//!   vertexfit <8 values per track …>       find_vertices(tracks)
//!        → ok none | ok <x y z> <k> <canonical index, t per track of the vertex …> | panic <site>
//!   trackcost <6 params> <r phi z per point …>   verif_track_cost(points, EPSILON, 20, params)
//!   vertexcost <x y z> <8 values per track …>    verif_vertex_cost(tracks, EPSILON, 20, [x, y, z])
//!        → ok <cost> | panic <site>
//! Comparison is EXACT (string equality on bit patterns). `sin`, `cos`, `atan2`, `hypot`, `floor`,
//! `sqrt` are the same C functions on both sides; the order of every `+ - * /` inside argmin,
//! argmin-math and uom was read off the sources (see the header of Model/NelderMead.lean). The only
//! canonicalisation is the panic *site* (a Rust panic message carries no location), see `site_of`.
//!
//! Oracles on the real output, independent of the model:
//!   * the cost (through `verif_track_cost` / `verif_vertex_cost`) at the returned parameters is
//!     `<=` the cost at every vertex of the recorded initial simplex (in particular at the guess);
//!   * `t_inner`, `t_outer` and every per-track `t` lie in [-pi, pi];
//!   * helix parameters / vertex position are finite and no panic happens when the input is finite and
//!     inside (a widened version of) the drift volume;
//!   * the tracks of the vertex are input tracks.
//!
//! Generators: helices with and without noise (3..60 points, shuffled or not, pitch family of c14.rs),
//! random clouds, the degenerate families of c14.rs (rays, chords, repeated points, equal radii,
//! vertical lines, circles through the origin, dyadic grids, three points) and of c14b.rs (ulp-level
//! collinearity, radius ties, zero entries of the guess, theta == 0, NaN/inf coordinates, underflow
//! radii, 0..2 points); track sets of c14b.rs (near-beamline tracks, duplicates, z ties, NaN),
//! c14.rs (pitch family) and c15.rs (groups at a few heights, filters failing); cost functions at
//! simplex vertices, at perturbed and at wild parameter vectors.
use crate::{guarded, Rng, Session};
use alpha_g_physics::reconstruction::{find_vertices, Track};
use alpha_g_physics::verif::reconstruction as hook;
use alpha_g_physics::SpacePoint;
use std::f64::consts::PI;

pub fn sp(r: f64, phi: f64, z: f64) -> SpacePoint {
    let mut p = SpacePoint { r: Default::default(), phi: Default::default(), z: Default::default() };
    p.r.value = r;
    p.phi.value = phi;
    p.z.value = z;
    p
}
fn sp_xyz(x: f64, y: f64, z: f64) -> SpacePoint {
    sp(x.hypot(y), y.atan2(x), z)
}
fn bits(v: f64) -> String {
    format!("{:016x}", v.to_bits())
}
fn show(v: f64) -> String {
    if v.is_nan() {
        "nan".to_string()
    } else {
        bits(v)
    }
}
fn show_all(vs: &[f64]) -> String {
    vs.iter().map(|v| show(*v)).collect::<Vec<_>>().join(" ")
}
fn point_bits(points: &[SpacePoint]) -> String {
    let mut s = String::new();
    for p in points {
        s.push_str(&format!(" {} {} {}", bits(p.r.value), bits(p.phi.value), bits(p.z.value)));
    }
    s
}
/// Precondition of the panic / finiteness oracles (the property's domain, widened).
fn finite_points(points: &[SpacePoint]) -> bool {
    points.iter().all(|p| {
        p.r.value >= 0.01 && p.r.value <= 1.0 && p.phi.value.is_finite() && p.phi.value.abs() <= 1e3 && p.z.value.abs() <= 10.0
    })
}

/// The site a panic message belongs to. `Option::unwrap()` on `None` comes from
/// `three_template_points` (`into_option().unwrap()` for an empty slice, `partial_cmp(..).unwrap()`
/// otherwise); `res.state.best_param.unwrap()` would give the same message but needs a NaN cost,
/// which the `assert!` of the cost function excludes (Props/C14c `best_param_some`).
fn site_of(msg: &str, n_points: usize) -> String {
    if msg.contains("found NaN in track_fitting") {
        "track_fitting:cost_function:nan_assert".to_string()
    } else if msg.contains("found NaN in vertex_fitting") {
        "vertex_fitting:cost_function:nan_assert".to_string()
    } else if msg.contains("sp.len() >= 3") {
        "fit_cluster_to_helix:assert_len".to_string()
    } else if msg.contains("Reached unreachable point") {
        "neldermead:unreachable_point:run_unwrap".to_string()
    } else if msg.contains("Option::unwrap()") {
        if n_points == 0 {
            "three_template_points:minmax_unwrap".to_string()
        } else {
            "three_template_points:partial_cmp_unwrap".to_string()
        }
    } else if msg.contains("index out of bounds") {
        "cost_function:param_index".to_string()
    } else {
        format!("other:{}", msg.replace(' ', "_"))
    }
}

const EPS: f64 = f64::EPSILON;
const CT_ITERS: usize = 20;

// ------------------------------------------------------------------ fit

pub struct FitStats {
    pub improved: bool,
}

pub fn run_fit(points: &[SpacePoint]) -> (String, Option<String>, Option<FitStats>) {
    let _ = hook::verif_take_track_simplex();
    let pts = points.to_vec();
    let n = pts.len();
    let res = guarded(move || Track::try_from(hook::cluster_from_points(pts)));
    let simplex = hook::verif_take_track_simplex();
    let finite_in = finite_points(points);
    match res {
        Err(m) => {
            let why = if n >= 3 && finite_in { Some(format!("Track::try_from panicked on finite input: {m}")) } else { None };
            (format!("panic {}", site_of(&m, n)), why, None)
        }
        Ok(Err(_)) => ("err NoInitialParameters".to_string(), None, None),
        Ok(Ok(t)) => {
            let p = hook::track_params(&t);
            let mut why = None;
            let mut stats = None;
            if finite_in && p.iter().any(|v| !v.is_finite()) {
                why = Some("non-finite helix parameter for finite input".to_string());
            }
            for (name, v) in [("t_inner", t.t_inner()), ("t_outer", t.t_outer())] {
                if !(v >= -PI && v <= PI) {
                    why = Some(format!("{name} = {v:e} outside [-pi, pi]"));
                }
            }
            if simplex.len() != 7 || simplex.iter().any(|r| r.len() != 6) {
                why = Some("no 7x6 initial simplex recorded for a fit that returned Ok".to_string());
            } else {
                let pts = points.to_vec();
                let best = p;
                let rows = simplex.clone();
                match guarded(move || {
                    let cb = hook::verif_track_cost(pts.clone(), EPS, CT_ITERS, &best);
                    let cs: Vec<f64> = rows.iter().map(|r| hook::verif_track_cost(pts.clone(), EPS, CT_ITERS, r)).collect();
                    (cb, cs)
                }) {
                    Ok((cb, cs)) => {
                        for (i, c) in cs.iter().enumerate() {
                            if !(cb <= *c) {
                                why = Some(format!("cost at the returned parameters {cb:e} is not <= cost {c:e} at initial vertex {i}"));
                            }
                        }
                        stats = Some(FitStats { improved: cb < cs[0] });
                    }
                    Err(m) => why = Some(format!("cost function panicked at the returned / initial parameters: {m}")),
                }
            }
            let s = format!("ok {} {} {}", show_all(&p), show(t.t_inner()), show(t.t_outer()));
            (s, why, stats)
        }
    }
}

// ------------------------------------------------------------------ vertex fit

pub type TrackSpec = [f64; 8]; // x0 y0 z0 r phi0 h t_inner t_outer

fn build_tracks(specs: &[TrackSpec]) -> Vec<Track> {
    specs.iter().map(|t| hook::track_from_params([t[0], t[1], t[2], t[3], t[4], t[5]], t[6], t[7])).collect()
}
fn spec_bits(specs: &[TrackSpec]) -> String {
    let mut s = String::new();
    for t in specs {
        for v in t {
            s.push(' ');
            s.push_str(&bits(*v));
        }
    }
    s
}
fn spec_of(t: &Track) -> [u64; 8] {
    let p = hook::track_params(t);
    [
        p[0].to_bits(), p[1].to_bits(), p[2].to_bits(), p[3].to_bits(), p[4].to_bits(), p[5].to_bits(),
        t.t_inner().to_bits(), t.t_outer().to_bits(),
    ]
}
fn canon_index(specs: &[TrackSpec], t: &Track) -> Option<usize> {
    let b = spec_of(t);
    specs.iter().position(|s| s.iter().map(|v| v.to_bits()).collect::<Vec<_>>() == b)
}
/// Tracks are sent as the hook stores them (read back), so that the request is what the code sees.
fn normalise(specs: &[TrackSpec]) -> Vec<TrackSpec> {
    build_tracks(specs)
        .iter()
        .map(|t| {
            let b = spec_of(t);
            let mut o = [0.0; 8];
            for (k, v) in b.iter().enumerate() {
                o[k] = f64::from_bits(*v);
            }
            o
        })
        .collect()
}

pub fn run_vertexfit(specs: &[TrackSpec]) -> (String, Option<String>) {
    let _ = hook::verif_take_vertex_simplex();
    let tracks = build_tracks(specs);
    let res = guarded(move || find_vertices(tracks));
    let simplex = hook::verif_take_vertex_simplex();
    let finite_in = specs.iter().all(|t| t.iter().all(|v| v.is_finite() && v.abs() <= 1e3));
    match res {
        Err(m) => {
            let why = if finite_in { Some(format!("find_vertices panicked on finite tracks: {m}")) } else { None };
            let s = if m.contains("Option::unwrap()") { "unwrap_none".to_string() } else { site_of(&m, 1) };
            (format!("panic {s}"), why)
        }
        Ok(r) => match &r.primary {
            None => {
                let why = if simplex.is_empty() { None } else { Some("simplex recorded but no primary vertex".to_string()) };
                ("ok none".to_string(), why)
            }
            Some(v) => {
                let mut why = None;
                let pos = [v.position.x.value, v.position.y.value, v.position.z.value];
                if finite_in && pos.iter().any(|c| !c.is_finite()) {
                    why = Some("non-finite vertex position for finite tracks".to_string());
                }
                let mut s = format!("ok {} {}", show_all(&pos), v.tracks.len());
                for (t, tt) in &v.tracks {
                    if !(*tt >= -PI && *tt <= PI) {
                        why = Some(format!("closest t = {tt:e} outside [-pi, pi]"));
                    }
                    match canon_index(specs, t) {
                        Some(i) => s.push_str(&format!(" {i} {}", show(*tt))),
                        None => {
                            s.push_str(&format!(" ? {}", show(*tt)));
                            why = Some("vertex holds a track that is not in the input".to_string());
                        }
                    }
                }
                if simplex.len() != 4 || simplex.iter().any(|r| r.len() != 3) {
                    why = Some("no 4x3 initial simplex recorded for a fitted vertex".to_string());
                } else {
                    let ts: Vec<Track> = v.tracks.iter().map(|(t, _)| *t).collect();
                    let rows = simplex.clone();
                    match guarded(move || {
                        let cb = hook::verif_vertex_cost(ts.clone(), EPS, CT_ITERS, &pos);
                        let cs: Vec<f64> = rows.iter().map(|r| hook::verif_vertex_cost(ts.clone(), EPS, CT_ITERS, r)).collect();
                        (cb, cs)
                    }) {
                        Ok((cb, cs)) => {
                            for (i, c) in cs.iter().enumerate() {
                                if !(cb <= *c) {
                                    why = Some(format!("vertex cost at the returned position {cb:e} is not <= cost {c:e} at initial vertex {i}"));
                                }
                            }
                        }
                        Err(m) => why = Some(format!("vertex cost function panicked at the returned / initial position: {m}")),
                    }
                }
                (s, why)
            }
        },
    }
}

/// Exact comparison, except that the implementation's `panic unwrap_none` (no location in a Rust
/// panic message) stands for either `partial_cmp(..).unwrap()` of the vertex stage.
pub fn agree(imp: &str, model: &str) -> bool {
    imp == "panic unwrap_none" && (model == "panic beamline_clusters:partial_cmp" || model == "panic find_vertices:partial_cmp")
}

// ------------------------------------------------------------------ cost functions

pub fn run_trackcost(params: [f64; 6], points: &[SpacePoint]) -> String {
    let pts = points.to_vec();
    match guarded(move || hook::verif_track_cost(pts, EPS, CT_ITERS, &params)) {
        Ok(c) => format!("ok {}", show(c)),
        Err(m) => format!("panic {}", site_of(&m, 3)),
    }
}
pub fn run_vertexcost(pos: [f64; 3], specs: &[TrackSpec]) -> String {
    let ts = build_tracks(specs);
    match guarded(move || hook::verif_vertex_cost(ts, EPS, CT_ITERS, &pos)) {
        Ok(c) => format!("ok {}", show(c)),
        Err(m) => format!("panic {}", site_of(&m, 3)),
    }
}

// ------------------------------------------------------------------ replay

fn parse_floats(args: &[&str]) -> Option<Vec<f64>> {
    args.iter().map(|a| u64::from_str_radix(a, 16).ok().map(f64::from_bits)).collect()
}
fn to_points(f: &[f64]) -> Option<Vec<SpacePoint>> {
    if f.len() % 3 != 0 {
        return None;
    }
    Some(f.chunks(3).map(|c| sp(c[0], c[1], c[2])).collect())
}
fn to_specs(f: &[f64]) -> Option<Vec<TrackSpec>> {
    if f.len() % 8 != 0 {
        return None;
    }
    Some(f.chunks(8).map(|c| c.try_into().unwrap()).collect())
}

pub fn run_request(cmd: &str, args: &[&str]) -> Option<String> {
    match cmd {
        "fit" => Some(run_fit(&to_points(&parse_floats(args)?)?).0),
        "vertexfit" => Some(run_vertexfit(&to_specs(&parse_floats(args)?)?).0),
        "trackcost" => {
            let f = parse_floats(args)?;
            if f.len() < 6 {
                return None;
            }
            Some(run_trackcost([f[0], f[1], f[2], f[3], f[4], f[5]], &to_points(&f[6..])?))
        }
        "vertexcost" => {
            let f = parse_floats(args)?;
            if f.len() < 3 {
                return None;
            }
            Some(run_vertexcost([f[0], f[1], f[2]], &to_specs(&f[3..])?))
        }
        _ => None,
    }
}

// ------------------------------------------------------------------ generators (copied from c14.rs / c14b.rs / c15.rs)

const PERTURB: [f64; 12] = [0.0, 0.0, 1e-18, 1e-17, 1e-16, 3e-16, 1e-15, 1e-13, 1e-10, 1e-7, 1e-4, 1e-2];
const PITCH: [f64; 16] = [
    0.0, -0.0, 5e-324, -5e-324, 2.2e-308, 1e-300, 1e-17, -1e-17, 1e-16, 2.2204460492503131e-16,
    -2.3e-16, 1e-12, 1e-6, 1e-2, 1.0, 1e2,
];

fn physical(rng: &mut Rng) -> (f64, f64, f64) {
    (0.05 + 0.2 * rng.f64_unit(), (rng.f64_unit() * 2.0 - 1.0) * PI, (rng.f64_unit() * 2.0 - 1.0) * 1.3)
}
fn sign(rng: &mut Rng) -> f64 {
    if rng.bool() {
        1.0
    } else {
        -1.0
    }
}
fn ulps(v: f64, k: i64) -> f64 {
    f64::from_bits((v.to_bits() as i64 + k) as u64)
}
fn dy(rng: &mut Rng, k: u32) -> f64 {
    rng.below(1 << k) as f64 / (1u64 << k) as f64
}

fn random_cluster(rng: &mut Rng, max_n: u64) -> Vec<SpacePoint> {
    let n = match rng.below(4) {
        0 => 3,
        1 => rng.range(3, 8),
        2 => rng.range(3, 30),
        _ => rng.range(3, max_n),
    };
    (0..n).map(|_| { let (r, p, z) = physical(rng); sp(r, p, z) }).collect()
}

/// Points on a helix through the drift volume (circle close to the beamline): `n` points, pitch,
/// transverse noise amplitude, z noise amplitude.
fn helix_cluster(rng: &mut Rng, max_n: u64, noise: f64, pitch: f64) -> Vec<SpacePoint> {
    let n = rng.range(3, max_n) as usize;
    let rr = 0.08 + 2.0 * rng.f64_unit() * rng.f64_unit();
    let alpha = rng.f64_unit() * 2.0 * PI;
    let d = (rng.f64_unit() - 0.5) * 0.04;
    let (cx, cy) = ((rr + d) * alpha.cos(), (rr + d) * alpha.sin());
    let z0 = rng.f64_unit() - 0.5;
    let dir = sign(rng);
    let stride = *rng.pick(&[1u64, 2, 5, 9]);
    let mut pts = Vec::new();
    let mut k = 0u64;
    while pts.len() < n && k < 100_000 {
        let t = dir * (k as f64) * 0.2 / rr / 400.0;
        k += 1;
        let s = alpha + PI + t;
        let (x, y) = (cx + rr * s.cos(), cy + rr * s.sin());
        let r = x.hypot(y);
        if r > 0.25 {
            break;
        }
        if r >= 0.05 && k % stride == 0 {
            pts.push(sp_xyz(
                x + noise * (rng.f64_unit() - 0.5),
                y + noise * (rng.f64_unit() - 0.5),
                (z0 + pitch * t / (2.0 * PI) + noise * (rng.f64_unit() - 0.5)).clamp(-1.3, 1.3),
            ));
        }
    }
    while pts.len() < 3 {
        let (r, p, z) = physical(rng);
        pts.push(sp(r, p, z));
    }
    if rng.bool() {
        rng.shuffle(&mut pts);
    }
    pts
}

/// Degenerate point families of the C14 quantifier text (c14.rs). `fam` selects the family.
fn degenerate_points(rng: &mut Rng, fam: u64) -> Vec<SpacePoint> {
    let n = *rng.pick(&[3usize, 3, 4, 5, 13, 13, 14, 20, 40, 60]);
    let eps = *rng.pick(&PERTURB);
    let mut pts = Vec::new();
    match fam {
        0 => {
            let phi = *rng.pick(&[0.0, PI / 2.0, PI, -PI / 2.0, 0.3, 1.0, -2.5]);
            let z0 = rng.f64_unit() - 0.5;
            let slope = (rng.f64_unit() - 0.5) * 4.0;
            for k in 0..n {
                let r = 0.05 + 0.2 * (k as f64 + rng.f64_unit()) / n as f64;
                pts.push(sp(r, phi + eps * sign(rng) * rng.f64_unit(), z0 + slope * r));
            }
        }
        1 => {
            let (a, b) = (0.06 + 0.05 * rng.f64_unit(), (rng.f64_unit() - 0.5) * 0.1);
            let ang = rng.f64_unit() * PI;
            let (dx, dyv) = (ang.cos(), ang.sin());
            for k in 0..n {
                let t = 0.12 * (k as f64) / n as f64;
                let e = eps * sign(rng);
                pts.push(sp_xyz(a + t * dx - e * dyv, b + t * dyv + e * dx, 0.3 * t));
            }
        }
        2 => {
            let kinds = rng.range(1, 3) as usize;
            let base: Vec<_> = (0..kinds).map(|_| physical(rng)).collect();
            for k in 0..n {
                let (r, p, z) = base[k % kinds];
                pts.push(sp(r, p, z));
            }
        }
        3 => {
            let r = 0.05 + 0.2 * rng.f64_unit();
            for _ in 0..n {
                let (_, p, z) = physical(rng);
                pts.push(sp(r, p, z));
            }
            if rng.bool() {
                pts[0].r.value += eps;
            }
        }
        4 => {
            let (r, p, _) = physical(rng);
            for k in 0..n {
                pts.push(sp(r + eps * (k % 2) as f64, p, -1.0 + 2.0 * k as f64 / n as f64));
            }
        }
        5 => {
            let big_r = 0.08 + rng.f64_unit();
            let alpha = rng.f64_unit() * 2.0 * PI;
            let (cx, cy) = (big_r * alpha.cos(), big_r * alpha.sin());
            let pitch = *rng.pick(&PITCH) * sign(rng);
            let mut k = 0;
            let mut guard = 0;
            while pts.len() < n && guard < 100_000 {
                guard += 1;
                let s = alpha + PI + (k as f64) * 0.01;
                k += 1;
                let (x, y) = (cx + big_r * s.cos(), cy + big_r * s.sin());
                let r = x.hypot(y);
                if r > 0.25 {
                    break;
                }
                if r >= 0.05 {
                    pts.push(sp_xyz(x + eps * sign(rng), y, (pitch * (k as f64) * 0.01 / (2.0 * PI)).clamp(-1.3, 1.3)));
                }
            }
            while pts.len() < 3 {
                let (r, p, z) = physical(rng);
                pts.push(sp(r, p, z));
            }
        }
        6 => {
            let k = *rng.pick(&[1u32, 2, 3, 6]);
            for _ in 0..n {
                pts.push(sp(0.0625 + dy(rng, k) / 8.0, dy(rng, k) * 4.0 - 2.0, dy(rng, k) * 2.0 - 1.0));
            }
        }
        7 => {
            let pitch = *rng.pick(&PITCH) * sign(rng);
            let rr = 0.05 + 2.0 * rng.f64_unit() * rng.f64_unit();
            let alpha = rng.f64_unit() * 2.0 * PI;
            let d = (rng.f64_unit() - 0.5) * 0.04;
            let (cx, cy) = ((rr + d) * alpha.cos(), (rr + d) * alpha.sin());
            let z0 = rng.f64_unit() - 0.5;
            let mut k = 0;
            while pts.len() < n && k < 100_000 {
                let t = (k as f64) * 0.2 / rr.max(0.05) / 200.0;
                k += 1;
                let s = alpha + PI + t;
                let (x, y) = (cx + rr * s.cos(), cy + rr * s.sin());
                let r = x.hypot(y);
                if r > 0.25 {
                    break;
                }
                if r >= 0.05 && k % 7 == 0 {
                    pts.push(sp_xyz(x, y, (z0 + pitch * t / (2.0 * PI)).clamp(-1.3, 1.3)));
                }
            }
            while pts.len() < 3 {
                let (r, p, z) = physical(rng);
                pts.push(sp(r, p, z));
            }
        }
        8 => {
            let (r, p, z) = physical(rng);
            pts.push(sp(r, p, z));
            pts.push(sp(r + eps, p, z));
            pts.push(sp(r + 2.0 * eps, p + eps, z + eps));
        }
        _ => {
            for _ in 0..n {
                let (r, p, z) = physical(rng);
                pts.push(sp(r, p, z));
            }
        }
    }
    pts
}

/// Exactly and nearly collinear clusters at the ulp level (c14b.rs).
fn collinear_cluster(rng: &mut Rng) -> Vec<SpacePoint> {
    let n = *rng.pick(&[3usize, 3, 3, 4, 5, 13, 20]);
    let eps = *rng.pick(&PERTURB);
    let mut pts = Vec::new();
    match rng.below(4) {
        0 => {
            let phi = *rng.pick(&[0.0, -0.0, PI / 2.0, PI, -PI / 2.0, 0.3, 1.0, -2.5]);
            for k in 0..n {
                let r = 0.05 + 0.2 * (k as f64 + rng.f64_unit()) / n as f64;
                pts.push(sp(r, phi + eps * sign(rng) * rng.f64_unit(), rng.f64_unit() - 0.5));
            }
        }
        1 => {
            let m = rng.range(0, 4) as f64 - 2.0;
            let c = (rng.range(0, 64) as f64 - 32.0) / 1024.0;
            for k in 0..n {
                let x = (60.0 + 12.0 * k as f64 + rng.below(8) as f64) / 1024.0;
                pts.push(sp_xyz(x, m * x + c, rng.f64_unit() - 0.5));
            }
            let j = rng.below(n as u64) as usize;
            let k = rng.range(0, 4) as i64 - 2;
            pts[j].phi.value = ulps(pts[j].phi.value, k);
        }
        2 => {
            let r = 0.05 + 0.2 * rng.f64_unit();
            for _ in 0..n {
                let (_, p, z) = physical(rng);
                pts.push(sp(r, p, z));
            }
            if rng.bool() {
                let j = rng.below(n as u64) as usize;
                pts[j].r.value = ulps(r, rng.range(0, 2) as i64 - 1);
            }
        }
        _ => {
            let (r, p, z) = physical(rng);
            pts.push(sp(r, p, z));
            pts.push(sp(r + eps, p, z));
            pts.push(sp(r + 2.0 * eps, p + eps, z + eps));
            if rng.bool() {
                rng.shuffle(&mut pts);
            }
        }
    }
    pts
}

/// Radius ties (c14b.rs): which point becomes first / middle / last decides `t_inner`, `t_outer`.
fn tie_cluster(rng: &mut Rng) -> Vec<SpacePoint> {
    let n = rng.range(3, 12) as usize;
    let (lo, hi) = (0.0625, 0.1875);
    let mid = (lo + hi) / 2.0;
    let d = 0.015625;
    let vals = [lo, lo, hi, hi, mid - d, mid + d, mid - d, mid + d, mid, 0.09375];
    let mut pts: Vec<SpacePoint> = (0..n)
        .map(|_| {
            let (_, p, z) = physical(rng);
            sp(*rng.pick(&vals), p, z)
        })
        .collect();
    if rng.below(4) != 0 {
        let i = rng.below(n as u64) as usize;
        let mut j = rng.below(n as u64) as usize;
        if j == i {
            j = (i + 1) % n;
        }
        pts[i].r.value = lo;
        pts[j].r.value = hi;
    }
    pts
}

/// NaN / infinite coordinates and too-short inputs (panic-site comparison).
fn nan_cluster(rng: &mut Rng) -> Vec<SpacePoint> {
    let n = *rng.pick(&[0usize, 1, 2, 3, 3, 4, 5, 6, 7, 13]);
    let mut pts: Vec<SpacePoint> = (0..n).map(|_| { let (r, p, z) = physical(rng); sp(r, p, z) }).collect();
    if n == 0 {
        return pts;
    }
    let bad = [f64::NAN, f64::NAN, f64::INFINITY, f64::NEG_INFINITY, f64::MAX, -f64::MAX, 1e200, 1e155];
    let hits = rng.range(0, 2);
    for _ in 0..hits {
        let j = rng.below(n as u64) as usize;
        let v = *rng.pick(&bad);
        match rng.below(5) {
            0 | 1 => pts[j].r.value = v,
            2 | 3 => pts[j].phi.value = v,
            _ => pts[j].z.value = v,
        }
    }
    pts
}

/// Clusters that make an entry of the initial guess exactly `0.0` or `-0.0` (c14b.rs).
fn zero_entry_cluster(rng: &mut Rng) -> Vec<SpacePoint> {
    let mut pts = Vec::new();
    match rng.below(4) {
        0 => {
            let n = rng.range(3, 7) as usize;
            let base = *rng.pick(&[0.0, -0.0]);
            for k in 0..n {
                let r = 0.05 + 0.2 * (k as f64 + rng.f64_unit()) / n as f64;
                pts.push(sp(r, base, rng.f64_unit() - 0.5));
            }
            let k = rng.range(30, 90) as i32;
            let j = rng.below(n as u64) as usize;
            pts[j].phi.value = sign(rng) * (2.0f64).powi(-k);
            if rng.bool() {
                rng.shuffle(&mut pts);
            }
        }
        1 => {
            let n = rng.range(2, 6) as usize;
            for _ in 0..n {
                let (r, p, _) = physical(rng);
                let z = (rng.below(64) as f64) / 64.0;
                pts.push(sp(r, p, z));
                let (r2, p2, _) = physical(rng);
                pts.push(sp(r2, p2, -z));
            }
        }
        2 => {
            let n = rng.range(3, 9) as usize;
            let z = *rng.pick(&[0.0, -0.0, 0.25, -1.0]);
            for _ in 0..n {
                let (r, p, _) = physical(rng);
                pts.push(sp(r, p, z));
            }
        }
        _ => {
            let n = rng.range(3, 6) as usize;
            let phi = (rng.f64_unit() * 2.0 - 1.0) * PI;
            for k in 0..n {
                let r = 0.05 + 0.2 * (k as f64 + rng.f64_unit()) / n as f64;
                pts.push(sp(r, ulps(phi, rng.range(0, 6) as i64 - 3), rng.f64_unit() - 0.5));
            }
        }
    }
    pts
}

/// Radii of subnormal-square scale (outside the physical domain; comparison only).
fn underflow_cluster(rng: &mut Rng) -> Vec<SpacePoint> {
    let tiny = *rng.pick(&[1e-200, 1e-170, 1e-163, 1e-162, 1e-160, 1e-155, 1e-150]);
    let mut pts = vec![
        sp(tiny * (1.0 + rng.f64_unit()), rng.f64_unit(), rng.f64_unit() - 0.5),
        sp(*rng.pick(&[0.0, -0.0, tiny * 0.01]), rng.f64_unit(), rng.f64_unit() - 0.5),
        sp(*rng.pick(&[0.1, 0.25, tiny * 8.0, 1.0]), 1.0 + rng.f64_unit(), rng.f64_unit() - 0.5),
    ];
    if rng.bool() {
        let (r, p, z) = physical(rng);
        pts.push(sp(r * tiny, p, z));
    }
    if rng.below(3) == 0 {
        rng.shuffle(&mut pts);
    }
    pts
}

fn near_beamline_track(rng: &mut Rng, zc: f64, pitches: &[f64]) -> TrackSpec {
    let h = *rng.pick(pitches) * sign(rng);
    let r = *rng.pick(&[0.05, 0.25, 0.5, 1.0, 3.0]) * (1.0 + 0.1 * rng.f64_unit());
    let alpha = rng.f64_unit() * 2.0 * PI - PI;
    let dca = (rng.f64_unit() - 0.5) * 0.14;
    let (x0, y0) = ((r + dca) * alpha.cos(), (r + dca) * alpha.sin());
    let delta = (rng.f64_unit() - 0.5) * 0.4;
    let phi0 = (-y0).atan2(-x0) + delta;
    let z0 = zc + h * delta / (2.0 * PI);
    let t_in = (-delta + 0.1 / r).clamp(-PI, PI);
    let t_out = (t_in + (0.005 + 0.3 * rng.f64_unit()) / r).clamp(-PI, PI);
    [x0, y0, z0, r, phi0, h, t_in, t_out]
}

const PLAIN_PITCH: [f64; 8] = [0.0, -0.0, 1e-17, 1e-3, 0.1, 1.0, 5.0, 100.0];

fn track_set(rng: &mut Rng, with_nan: bool, pitches: &[f64], max_n: u64) -> Vec<TrackSpec> {
    let n = rng.range(0, max_n) as usize;
    let mut specs: Vec<TrackSpec> = Vec::new();
    let zc = rng.f64_unit() - 0.5;
    let zc2 = zc + *rng.pick(&[0.02, 0.05, 0.2, -0.3]);
    for i in 0..n {
        let t = if i > 0 && rng.below(4) == 0 {
            *rng.pick(&specs)
        } else {
            let z = match rng.below(4) {
                0 => zc,
                1 => zc + (rng.f64_unit() - 0.5) * 0.1,
                2 => zc2,
                _ => *rng.pick(&[0.0, 0.25, -0.5]),
            };
            near_beamline_track(rng, z, pitches)
        };
        specs.push(t);
    }
    if with_nan && n > 0 {
        let j = rng.below(n as u64) as usize;
        let k = *rng.pick(&[2usize, 2, 3, 3, 5, 0, 4, 1]);
        specs[j][k] = *rng.pick(&[f64::NAN, f64::INFINITY, 1e200]);
    }
    normalise(&specs)
}

/// c15.rs `good_track` / `vertex_case`: groups at a few heights, equal radii, duplicates, tracks
/// failing the filters.
fn good_track(rng: &mut Rng, zc: f64, r: f64, h: f64) -> TrackSpec {
    let alpha = rng.f64_unit() * 2.0 * PI - PI;
    let dca = (rng.f64_unit() - 0.5) * 0.06;
    let (x0, y0) = ((r + dca) * alpha.cos(), (r + dca) * alpha.sin());
    let to_origin = (-y0).atan2(-x0);
    let delta = (rng.f64_unit() - 0.5) * 0.4;
    let phi0 = to_origin + delta;
    let z0 = zc + h * delta / (2.0 * PI);
    let t_in = -delta + 0.1 / r.max(0.05);
    let t_out = t_in + (0.05 + 0.2 * rng.f64_unit()) / r.max(0.05);
    [x0, y0, z0, r, phi0, h, t_in.clamp(-PI, PI), t_out.clamp(-PI, PI)]
}
fn vertex_case(rng: &mut Rng) -> Vec<TrackSpec> {
    let n = rng.range(0, 8) as usize;
    let mut v: Vec<TrackSpec> = Vec::new();
    let zs = [-0.3, -0.3 + 0.02, 0.0, 0.01, 0.033, 0.0345, 0.4, 0.4];
    let radii = [0.25, 0.25, 0.5, 0.5, 1.0, 0.125, 2.0, 0.75];
    let mode = rng.below(5);
    for i in 0..n {
        let zc = *rng.pick(&zs);
        let rr = *rng.pick(&radii);
        let hh = *rng.pick(&[0.5, -0.5, 2.0, 0.0]);
        let coin = rng.bool();
        let coin2 = rng.bool();
        let (u1, u2, u3) = (rng.f64_unit(), rng.f64_unit(), rng.f64_unit());
        let t = match mode {
            0 => good_track(rng, zc, rr, hh),
            1 if i > 0 && coin => *rng.pick(&v),
            2 => good_track(rng, 0.1, rr, 1.0),
            3 if coin => {
                let mut t = good_track(rng, 0.0, 0.5, 1.0);
                if coin2 {
                    t[7] = t[6];
                } else {
                    t[0] += 0.5;
                }
                t
            }
            _ => good_track(rng, u1 * 2.0 - 1.0, 0.1 + 2.0 * u2, (u3 - 0.5) * 4.0),
        };
        v.push(t);
    }
    normalise(&v)
}

/// Parameter vectors at which the track cost is compared: rows of the recorded simplex (when the fit
/// got that far), a helix fitted by eye, small and wild perturbations, zero / tiny pitch.
fn cost_params(rng: &mut Rng, simplex: &[Vec<f64>]) -> [f64; 6] {
    let mut p = [0.0; 6];
    if !simplex.is_empty() && rng.below(3) != 0 {
        let row = rng.pick(simplex);
        for i in 0..6 {
            p[i] = row[i];
        }
    } else {
        p = [
            (rng.f64_unit() - 0.5) * 2.0,
            (rng.f64_unit() - 0.5) * 2.0,
            rng.f64_unit() - 0.5,
            0.05 + 2.0 * rng.f64_unit(),
            (rng.f64_unit() * 2.0 - 1.0) * PI,
            (rng.f64_unit() - 0.5) * 10.0,
        ];
    }
    match rng.below(6) {
        0 => p[5] = *rng.pick(&PITCH) * sign(rng),
        1 => {
            let i = rng.below(6) as usize;
            p[i] *= 1.0 + (rng.f64_unit() - 0.5) * 0.2;
        }
        2 => {
            let i = rng.below(6) as usize;
            p[i] = *rng.pick(&[0.0, -0.0, 1e300, -1e300, f64::INFINITY, f64::NAN, 1e-300, 1e160]);
        }
        _ => {}
    }
    p
}

pub fn generate(s: &mut Session, thorough: bool) -> bool {
    let mut rng = Rng::new(s.seed);
    let scale = if thorough { 10 } else { 1 };
    s.agree = Some(agree);

    // ---- track fit, end to end
    type Gen = fn(&mut Rng) -> Vec<SpacePoint>;
    let fit_gens: [(&'static str, Gen, usize); 22] = [
        ("fit-helix-exact", |r| { let p = *r.pick(&[0.0, 1e-3, 0.1, 1.0, 5.0, -0.1, -1.0, -5.0]); helix_cluster(r, 60, 0.0, p) }, 200),
        ("fit-helix-noise", |r| { let p = *r.pick(&[0.0, 0.1, 1.0, 5.0, -1.0]); let e = *r.pick(&[1e-6, 1e-4, 1e-3, 5e-3]); helix_cluster(r, 60, e, p) }, 250),
        ("fit-helix-pitch-family", |r| { let p = *r.pick(&PITCH) * sign(r); let e = *r.pick(&[0.0, 1e-4]); helix_cluster(r, 30, e, p) }, 150),
        ("fit-helix-3-points", |r| { let p = *r.pick(&[0.0, 1.0, -5.0]); helix_cluster(r, 3, 0.0, p) }, 80),
        ("fit-random", |r| random_cluster(r, 24), 120),
        ("fit-random-60", |r| { (0..60).map(|_| { let (a, b, c) = physical(r); sp(a, b, c) }).collect() }, 10),
        ("fit-ray-collinear", |r| degenerate_points(r, 0), 60),
        ("fit-chord-collinear", |r| degenerate_points(r, 1), 60),
        ("fit-repeated", |r| degenerate_points(r, 2), 40),
        ("fit-equal-radii", |r| degenerate_points(r, 3), 60),
        ("fit-vertical", |r| degenerate_points(r, 4), 40),
        ("fit-circle-through-origin", |r| degenerate_points(r, 5), 80),
        ("fit-dyadic", |r| degenerate_points(r, 6), 60),
        ("fit-helix-c14", |r| degenerate_points(r, 7), 80),
        ("fit-three-points", |r| degenerate_points(r, 8), 60),
        ("fit-collinear-ulp", collinear_cluster, 150),
        ("fit-ties", tie_cluster, 80),
        ("fit-zero-entry", zero_entry_cluster, 120),
        ("fit-nan", nan_cluster, 150),
        ("fit-underflow", underflow_cluster, 50),
        ("fit-short", |r| { let n = r.below(3) as usize; (0..n).map(|_| { let (a, b, c) = physical(r); sp(a, b, c) }).collect() }, 20),
        ("fit-two-values", |r| { let (a, b) = (physical(r), physical(r)); (0..r.range(3, 9)).map(|k| if k % 2 == 0 { sp(a.0, a.1, a.2) } else { sp(b.0, b.1, b.2) }).collect() }, 20),
    ];
    let mut improved = 0usize;
    let mut fitted = 0usize;
    for (name, g, count) in fit_gens {
        for _ in 0..count * scale {
            let pts = g(&mut rng);
            let (imp, why, stats) = run_fit(&pts);
            if let Some(st) = stats {
                fitted += 1;
                if st.improved {
                    improved += 1;
                }
            }
            s.push_oracle(name, format!("fit{}", point_bits(&pts)), imp, why);
        }
    }
    s.notes.insert("fits_returning_ok".into(), serde_json::json!(fitted));
    s.notes.insert("fits_with_cost_strictly_below_initial_guess".into(), serde_json::json!(improved));

    // ---- the track cost function alone
    for _ in 0..600 * scale {
        let pts = match rng.below(5) {
            0 => random_cluster(&mut rng, 24),
            1 => { let f = rng.below(9); degenerate_points(&mut rng, f) }
            2 => nan_cluster(&mut rng),
            _ => { let p = *rng.pick(&PITCH) * sign(&mut rng); let e = *rng.pick(&[0.0, 1e-4]); helix_cluster(&mut rng, 30, e, p) }
        };
        let _ = hook::verif_take_track_simplex();
        let pts2 = pts.clone();
        let _ = guarded(move || Track::try_from(hook::cluster_from_points(pts2)));
        let simplex = hook::verif_take_track_simplex();
        let p = cost_params(&mut rng, &simplex);
        let imp = run_trackcost(p, &pts);
        let req = format!("trackcost {}{}", p.iter().map(|v| bits(*v)).collect::<Vec<_>>().join(" "), point_bits(&pts));
        s.push_oracle("trackcost", req, imp, None);
    }

    // ---- vertex fit, end to end
    type VGen = fn(&mut Rng) -> Vec<TrackSpec>;
    let vertex_gens: [(&'static str, VGen, usize); 6] = [
        ("vertexfit-near-beamline", |r| track_set(r, false, &PLAIN_PITCH, 8), 500),
        ("vertexfit-pitch-family", |r| track_set(r, false, &PITCH, 8), 300),
        ("vertexfit-nan", |r| track_set(r, true, &PLAIN_PITCH, 8), 150),
        ("vertexfit-groups", vertex_case, 500),
        ("vertexfit-many", |r| track_set(r, false, &PLAIN_PITCH, 16), 60),
        ("vertexfit-pairs", |r| { let z = r.f64_unit() - 0.5; let a = near_beamline_track(r, z, &PLAIN_PITCH); let b = near_beamline_track(r, z + 0.01, &PLAIN_PITCH); normalise(&[a, b]) }, 120),
    ];
    let mut vertex_fits = 0usize;
    for (name, g, count) in vertex_gens {
        for _ in 0..count * scale {
            let specs = g(&mut rng);
            let (imp, why) = run_vertexfit(&specs);
            if imp.starts_with("ok ") && imp != "ok none" {
                vertex_fits += 1;
            }
            s.push_oracle(name, format!("vertexfit{}", spec_bits(&specs)), imp, why);
        }
    }
    s.notes.insert("vertex_fits_run".into(), serde_json::json!(vertex_fits));

    // ---- the vertex cost function alone
    for _ in 0..600 * scale {
        let nan = rng.below(10) == 0;
        let pitches: &[f64] = if rng.bool() { &PITCH } else { &PLAIN_PITCH };
        let mut specs = track_set(&mut rng, nan, pitches, 8);
        if specs.is_empty() {
            specs = normalise(&[near_beamline_track(&mut rng, 0.0, &PLAIN_PITCH)]);
        }
        let mut pos = [(rng.f64_unit() - 0.5) * 0.1, (rng.f64_unit() - 0.5) * 0.1, rng.f64_unit() - 0.5];
        match rng.below(8) {
            0 => pos = [0.0, 0.0, pos[2]],
            1 => pos = [0.00025, 0.0, pos[2]],
            2 => pos = [-0.0, 0.00025, pos[2]],
            3 => { let i = rng.below(3) as usize; pos[i] = *rng.pick(&[f64::NAN, f64::INFINITY, 1e300, -1e160, 1e-300]); }
            _ => {}
        }
        let imp = run_vertexcost(pos, &specs);
        let req = format!("vertexcost {}{}", pos.iter().map(|v| bits(*v)).collect::<Vec<_>>().join(" "), spec_bits(&specs));
        s.push_oracle("vertexcost", req, imp, None);
    }

    let mut sites: std::collections::BTreeMap<String, usize> = Default::default();
    for c in &s.cases {
        if let Some(site) = c.imp.strip_prefix("panic ") {
            *sites.entry(format!("{} {}", c.req.split(' ').next().unwrap_or(""), site)).or_default() += 1;
        }
    }
    s.notes.insert("impl_panic_sites".into(), serde_json::json!(sites));
    s.notes.insert(
        "comparison".into(),
        serde_json::json!("exact string equality on bit patterns (NaN printed as nan); panic sites canonicalised as documented in c14c.rs"),
    );
    true
}
