//! C15: clustering and vertexing conserve their inputs and honour the size and distance rules.
//!
//! `cluster <min> <n> <bins> <near> <classes>`: the harness runs the real
//! `cluster_spacepoints` on real points, computes every point's Hough bins with the real
//! `get_bins` and the adjacency with the real `distance <= max_distance`, and the Lean model
//! replays the combinatorial algorithm on those; clusters and remainder must agree **in
//! order** (points are printed as the smallest input index holding an `==` point).
//! Independent oracles (union-find, multiset counts) judge the real output by itself.
//!
//! `impl-only vertices <8 f64 bit patterns per track> => <answer>`: `find_vertices` runs on
//! the implementation only (the minimiser is not modelled); the driver echoes the recorded
//! answer, so these cases never count as disagreements, only the oracle verdict matters.
use crate::{guarded, Rng, Session};
use alpha_g_physics::reconstruction::{cluster_spacepoints, find_vertices, Track};
use alpha_g_physics::verif::reconstruction as hook;
use alpha_g_physics::SpacePoint;
use std::collections::HashMap;
use std::f64::consts::PI;

pub fn sp(r: f64, phi: f64, z: f64) -> SpacePoint {
    // uom quantities in SI base units through `Default` + the public `value` field.
    let mut p = SpacePoint { r: Default::default(), phi: Default::default(), z: Default::default() };
    p.r.value = r;
    p.phi.value = phi;
    p.z.value = z;
    p
}

pub fn sp_xyz(x: f64, y: f64, z: f64) -> SpacePoint {
    sp(x.hypot(y), y.atan2(x), z)
}

/// Key identifying a point up to `==` (NaN-free points: `-0.0 == 0.0` is the only
/// non-bitwise equality).
fn key(p: &SpacePoint) -> (u64, u64, u64) {
    ((p.r.value + 0.0).to_bits(), (p.phi.value + 0.0).to_bits(), (p.z.value + 0.0).to_bits())
}

#[derive(Clone, Copy, Debug)]
pub struct Config {
    pub min: usize,
    pub rho_bins: u32,
    pub theta_bins: u32,
    pub max_distance: f64,
    /// `true`: call the public `cluster_spacepoints` (13, 250, 230, 3 cm).
    pub public_api: bool,
}

pub const PUBLIC: Config = Config { min: 13, rho_bins: 250, theta_bins: 230, max_distance: 0.03, public_api: true };

fn show(l: &[usize]) -> String {
    if l.is_empty() {
        "-".to_string()
    } else {
        l.iter().map(|x| x.to_string()).collect::<Vec<_>>().join(",")
    }
}

struct Uf(Vec<usize>);
impl Uf {
    fn find(&mut self, i: usize) -> usize {
        let mut r = i;
        while self.0[r] != r {
            r = self.0[r];
        }
        let mut c = i;
        while self.0[c] != r {
            let n = self.0[c];
            self.0[c] = r;
            c = n;
        }
        r
    }
    fn union(&mut self, a: usize, b: usize) {
        let (ra, rb) = (self.find(a), self.find(b));
        if ra != rb {
            self.0[ra] = rb;
        }
    }
}

/// Build the request line, the implementation's canonical answer and the oracle verdict.
pub fn run_cloud(points: &[SpacePoint], cfg: Config) -> (String, String, Option<String>) {
    let n = points.len();
    let mut max_d: alpha_g_physics::reconstruction::Coordinate =
        hook::helix_at([0.0; 6], 0.0);
    max_d.x.value = cfg.max_distance;
    let max_distance = max_d.x;
    // class representative of every input point
    let mut first: HashMap<(u64, u64, u64), usize> = HashMap::new();
    let mut cls = Vec::with_capacity(n);
    for (i, p) in points.iter().enumerate() {
        cls.push(*first.entry(key(p)).or_insert(i));
    }
    let mut why: Option<String> = None;
    let fail = |w: &mut Option<String>, msg: String| {
        if w.is_none() {
            *w = Some(msg);
        }
    };
    // bins by the real get_bins
    let mut bins_s = String::new();
    let mut all_bins: Vec<Vec<u64>> = Vec::with_capacity(n);
    for (i, p) in points.iter().enumerate() {
        let b = match guarded(|| hook::verif_get_bins(*p, cfg.rho_bins, cfg.theta_bins)) {
            Ok(b) => b,
            Err(m) => {
                fail(&mut why, format!("get_bins panicked: {m}"));
                Vec::new()
            }
        };
        let codes: Vec<u64> = b.iter().map(|(t, r)| ((*t as u64) << 32) | *r as u64).collect();
        let mut sorted = codes.clone();
        sorted.sort_unstable();
        sorted.dedup();
        if sorted.len() != codes.len() {
            fail(&mut why, format!("hypothesis violated: get_bins of point {i} repeats a bin"));
        }
        if cls[i] != i && all_bins[cls[i]] != codes {
            fail(&mut why, format!("hypothesis violated: == points {} and {i} have different bins", cls[i]));
        }
        if i > 0 {
            bins_s.push(';');
        }
        if codes.is_empty() {
            bins_s.push('-');
        } else {
            bins_s.push_str(&codes.iter().map(|c| c.to_string()).collect::<Vec<_>>().join(","));
        }
        all_bins.push(codes);
    }
    if n == 0 {
        bins_s.push('-');
    }
    // adjacency by the real distance
    let words = n.div_ceil(4).max(1);
    let mut near = vec![false; n * n];
    for i in 0..n {
        for j in 0..n {
            near[i * n + j] = points[i].distance(points[j]) <= max_distance;
        }
    }
    for i in 0..n {
        for j in 0..i {
            if near[i * n + j] != near[j * n + i] {
                fail(&mut why, format!("hypothesis violated: distance<=max not symmetric for {i},{j}"));
            }
        }
        if cls[i] != i && near[i * n..(i + 1) * n] != near[cls[i] * n..(cls[i] + 1) * n] {
            fail(&mut why, format!("hypothesis violated: == points {} and {i} have different neighbours", cls[i]));
        }
    }
    let mut near_s = String::from("m:");
    if n == 0 {
        near_s.push('-');
    }
    for i in 0..n {
        if i > 0 {
            near_s.push(',');
        }
        // hex number whose bit j is near[i][j]: most significant digit first
        let mut row = String::with_capacity(words);
        for w in (0..words).rev() {
            let mut d = 0u32;
            for b in 0..4 {
                let j = 4 * w + b;
                if j < n && near[i * n + j] {
                    d |= 1 << b;
                }
            }
            row.push(std::char::from_digit(d, 16).unwrap());
        }
        near_s.push_str(&row);
    }
    let pts_s = if n == 0 {
        "-".to_string()
    } else {
        points
            .iter()
            .map(|p| format!("{:x}:{:x}:{:x}", p.r.value.to_bits(), p.phi.value.to_bits(), p.z.value.to_bits()))
            .collect::<Vec<_>>()
            .join(",")
    };
    let cfg_s = if cfg.public_api {
        "pub".to_string()
    } else {
        format!("{}:{}:{:x}", cfg.rho_bins, cfg.theta_bins, cfg.max_distance.to_bits())
    };
    let req = format!("cluster {} {} {} {} {} {} {}", cfg.min, n, bins_s, near_s, show(&cls), pts_s, cfg_s);

    // the real code
    let pts = points.to_vec();
    let res = guarded(move || {
        if cfg.public_api {
            cluster_spacepoints(pts)
        } else {
            hook::verif_cluster_spacepoints(pts, cfg.min, cfg.rho_bins, cfg.theta_bins, max_distance)
        }
    });
    let res = match res {
        Ok(r) => r,
        Err(m) => {
            return (req, format!("panic {m}"), Some(format!("cluster_spacepoints panicked: {m}")));
        }
    };
    let rep = |p: &SpacePoint, w: &mut Option<String>| -> usize {
        match first.get(&key(p)) {
            Some(i) => *i,
            None => {
                if w.is_none() {
                    *w = Some("output contains a point that is not an input point".to_string());
                }
                usize::MAX
            }
        }
    };
    let clusters: Vec<Vec<usize>> =
        res.clusters.iter().map(|c| c.iter().map(|p| rep(p, &mut why)).collect()).collect();
    let remainder: Vec<usize> = res.remainder.iter().map(|p| rep(p, &mut why)).collect();
    let imp = format!(
        "ok c={} r={}",
        if clusters.is_empty() { "-".to_string() } else { clusters.iter().map(|c| show(c)).collect::<Vec<_>>().join("|") },
        show(&remainder)
    );

    // ---- oracles on the real output, independent of the model ----
    // partition as multisets of == classes
    let mut count_in: HashMap<usize, i64> = HashMap::new();
    for c in &cls {
        *count_in.entry(*c).or_default() += 1;
    }
    let mut count_cl: HashMap<usize, i64> = HashMap::new();
    for c in clusters.iter().flatten() {
        *count_cl.entry(*c).or_default() += 1;
    }
    let mut count_out = count_cl.clone();
    for c in &remainder {
        *count_out.entry(*c).or_default() += 1;
    }
    if count_out != count_in {
        fail(&mut why, "partition violated: clusters + remainder is not the input multiset".to_string());
    }
    // disjointness: no class is used by the clusters more often than the input holds it
    for (c, k) in &count_cl {
        if *k > *count_in.get(c).unwrap_or(&0) {
            fail(&mut why, format!("clusters not disjoint: point {c} used {k} times"));
        }
    }
    // minimum size
    for c in &clusters {
        if c.len() < cfg.min {
            fail(&mut why, format!("cluster with {} < {} points", c.len(), cfg.min));
        }
    }
    // connectedness under single linkage, from the real distance between the output points
    for (ci, c) in res.clusters.iter().enumerate() {
        let pts: Vec<SpacePoint> = c.iter().copied().collect();
        let mut uf = Uf((0..pts.len()).collect());
        for a in 0..pts.len() {
            for b in 0..a {
                if pts[a].distance(pts[b]) <= max_distance {
                    uf.union(a, b);
                }
            }
        }
        let root = if pts.is_empty() { 0 } else { uf.find(0) };
        for a in 0..pts.len() {
            if uf.find(a) != root {
                fail(&mut why, format!("cluster {ci} is not connected under single linkage"));
                break;
            }
        }
    }
    (req, imp, why)
}

// ---------------------------------------------------------------- generators

const R_MIN: f64 = 0.109;
const R_MAX: f64 = 0.19;

fn random_point(rng: &mut Rng) -> SpacePoint {
    sp(
        R_MIN + (R_MAX - R_MIN) * rng.f64_unit(),
        (rng.f64_unit() * 2.0 - 1.0) * PI,
        (rng.f64_unit() * 2.0 - 1.0) * 1.152,
    )
}

fn gauss(rng: &mut Rng) -> f64 {
    let u1 = rng.f64_unit().max(1e-300);
    let u2 = rng.f64_unit();
    (-2.0 * u1.ln()).sqrt() * (2.0 * PI * u2).cos()
}

/// Points of one helical track leaving the beamline region, sampled inside the drift volume.
pub fn helix_points(rng: &mut Rng, n: usize, noise: f64) -> Vec<SpacePoint> {
    let big_r = 0.12 + 1.5 * rng.f64_unit() * rng.f64_unit();
    let alpha = rng.f64_unit() * 2.0 * PI;
    let d0 = (rng.f64_unit() - 0.5) * 0.02;
    let (cx, cy) = ((big_r + d0) * alpha.cos(), (big_r + d0) * alpha.sin());
    let z0 = (rng.f64_unit() * 2.0 - 1.0) * 0.9;
    let slope = (rng.f64_unit() * 2.0 - 1.0) * 1.5; // dz per unit arc length
    let dir = if rng.bool() { 1.0 } else { -1.0 };
    // walk along the circle from the point closest to the origin
    let start = alpha + PI;
    let mut cand = Vec::new();
    let steps = 4000;
    for k in 0..steps {
        let s = dir * (k as f64) * (PI / steps as f64);
        let x = cx + big_r * (start + s).cos();
        let y = cy + big_r * (start + s).sin();
        let r = x.hypot(y);
        if r > R_MAX {
            break;
        }
        if r >= R_MIN {
            cand.push((x, y, z0 + slope * big_r * s.abs()));
        }
    }
    let mut out = Vec::new();
    if cand.is_empty() {
        return out;
    }
    for k in 0..n {
        let (x, y, z) = cand[(k * cand.len()) / n.max(1)];
        out.push(sp_xyz(x + noise * gauss(rng), y + noise * gauss(rng), (z + noise * gauss(rng)).clamp(-1.152, 1.152)));
    }
    out
}

pub fn cloud(rng: &mut Rng, max_points: usize) -> Vec<SpacePoint> {
    let mut pts = Vec::new();
    let kind = rng.below(6);
    let tracks = match kind {
        0 => 0,
        _ => rng.range(1, 5) as usize,
    };
    for _ in 0..tracks {
        let n = rng.range(5, 70) as usize;
        let noise = *rng.pick(&[0.0, 0.0005, 0.002, 0.006]);
        pts.extend(helix_points(rng, n, noise));
    }
    let bg = match kind {
        0 => rng.range(0, max_points as u64) as usize,
        1 => 0,
        2 => rng.range(0, 20) as usize,
        _ => rng.range(0, (max_points as u64) / 2) as usize,
    };
    for _ in 0..bg {
        pts.push(random_point(rng));
    }
    // exact duplicates (and -0.0 / 0.0 twins) of existing points
    if !pts.is_empty() && rng.below(3) == 0 {
        let k = rng.range(1, (pts.len() as u64 / 3).max(1)) as usize;
        for _ in 0..k {
            let mut p = *rng.pick(&pts);
            if p.z.value == 0.0 && rng.bool() {
                p.z.value = -p.z.value;
            }
            pts.push(p);
        }
    }
    if rng.below(8) == 0 && !pts.is_empty() {
        // a pile of copies of one point
        let p = *rng.pick(&pts);
        for _ in 0..rng.range(2, 40) {
            pts.push(p);
        }
    }
    rng.shuffle(&mut pts);
    pts.truncate(max_points);
    pts
}

/// Small clouds on a coarse Hough grid: many points per bucket, long `best_cluster` chains,
/// frequent re-adding of `prev_best`.
fn small_cloud(rng: &mut Rng) -> (Vec<SpacePoint>, Config) {
    let n = rng.range(0, 40) as usize;
    let mut pts = Vec::new();
    let dyadic = rng.below(4) == 0;
    let spread = *rng.pick(&[0.01, 0.03, 0.08, 0.3]);
    let (cr, cphi, cz) = (0.11 + 0.07 * rng.f64_unit(), rng.f64_unit() * 6.0 - 3.0, rng.f64_unit() - 0.5);
    for _ in 0..n {
        if dyadic {
            let g = |rng: &mut Rng| rng.below(5) as f64 / 64.0;
            pts.push(sp(0.125 + g(rng), g(rng) * 4.0, g(rng)));
        } else if rng.below(4) == 0 && !pts.is_empty() {
            let p = *rng.pick(&pts);
            pts.push(p);
        } else {
            pts.push(sp(
                (cr + spread * 0.3 * (rng.f64_unit() - 0.5)).clamp(0.05, 0.25),
                cphi + spread * 8.0 * (rng.f64_unit() - 0.5),
                cz + spread * 2.0 * (rng.f64_unit() - 0.5),
            ));
        }
    }
    let cfg = Config {
        min: *rng.pick(&[1usize, 1, 2, 3, 4, 5, 8, 13]),
        rho_bins: *rng.pick(&[1u32, 2, 3, 5, 10, 25]),
        theta_bins: *rng.pick(&[1u32, 2, 3, 4, 8, 16, 23]),
        max_distance: *rng.pick(&[0.0, 0.005, 0.01, 0.03, 0.06, 0.2, 10.0]),
        public_api: false,
    };
    (pts, cfg)
}

/// Degenerate point families of C14's quantifier text (clustering stage): r in [0.05, 0.25] m,
/// |z| <= 1.3 m; collinear rays/chords with perturbations, repeated points, equal radii,
/// vertical lines, circles through the origin, dyadic grids.
fn degenerate_cloud(rng: &mut Rng, max_points: usize) -> Vec<SpacePoint> {
    let n = rng.range(0, max_points as u64) as usize;
    let eps = *rng.pick(&[0.0, 1e-18, 1e-16, 1e-13, 1e-10, 1e-7, 1e-4, 1e-2]);
    let fam = rng.below(7);
    let mut pts = Vec::with_capacity(n);
    let pm = |rng: &mut Rng| if rng.bool() { 1.0 } else { -1.0 };
    let (r0, p0, z0) = (0.05 + 0.2 * rng.f64_unit(), (rng.f64_unit() * 2.0 - 1.0) * PI, (rng.f64_unit() * 2.0 - 1.0) * 1.3);
    let big_r = 0.08 + rng.f64_unit();
    let alpha = rng.f64_unit() * 2.0 * PI;
    for k in 0..n {
        let f = k as f64 / n.max(1) as f64;
        let p = match fam {
            0 => sp(0.05 + 0.2 * f, p0 + eps * pm(rng) * rng.f64_unit(), z0 * f),
            1 => sp_xyz(0.06 + 0.12 * f * alpha.cos() - eps * pm(rng), 0.02 + 0.12 * f * alpha.sin(), 0.5 * f),
            2 => {
                let kinds = 1 + (n % 3);
                sp(r0 + 0.01 * (k % kinds) as f64, p0, z0)
            }
            3 => sp(r0, (rng.f64_unit() * 2.0 - 1.0) * PI, (rng.f64_unit() * 2.0 - 1.0) * 1.3),
            4 => sp(r0 + eps * (k % 2) as f64, p0, -1.3 + 2.6 * f),
            5 => {
                let s = alpha + PI + 0.25 * f / big_r;
                let (x, y) = (big_r * alpha.cos() + big_r * s.cos(), big_r * alpha.sin() + big_r * s.sin());
                let q = sp_xyz(x + eps * pm(rng), y, z0 * f);
                sp(q.r.value.clamp(0.05, 0.25), q.phi.value, q.z.value)
            }
            _ => {
                let g = |rng: &mut Rng| rng.below(8) as f64 / 8.0;
                sp(0.0625 + g(rng) / 8.0, g(rng) * 4.0 - 2.0, g(rng) * 2.0 - 1.0)
            }
        };
        pts.push(p);
    }
    pts
}

// ---------------------------------------------------------------- vertices

pub type TrackSpec = [f64; 8]; // x0 y0 z0 r phi0 h t_inner t_outer

fn track(t: &TrackSpec) -> Track {
    hook::track_from_params([t[0], t[1], t[2], t[3], t[4], t[5]], t[6], t[7])
}

fn track_key(t: &Track) -> [u64; 8] {
    let p = hook::track_params(t);
    let mut k = [0u64; 8];
    for i in 0..6 {
        k[i] = (p[i] + 0.0).to_bits();
    }
    k[6] = (t.t_inner() + 0.0).to_bits();
    k[7] = (t.t_outer() + 0.0).to_bits();
    k
}

pub fn run_vertices(specs: &[TrackSpec]) -> (String, Option<String>) {
    let (a, b, _) = run_vertices_full(specs);
    (a, b)
}

/// Quantities of `find_vertices`' selection logic recomputed from the helix parameters with the
/// same `f64` operations as the code (`helix_at` is the real `Helix::at`): both seed filters,
/// z of the closest approach to the beamline, helix radius.
pub fn selection_inputs(t: &TrackSpec) -> (bool, f64, f64) {
    let p = [t[0], t[1], t[2], t[3], t[4], t[5]];
    let (x0, y0, r) = (t[0], t[1], t[3]);
    let (t1, t2) = (t[6], t[7]);
    // arc_length(t_inner, t_outer) > 3.5 cm
    let delta_t = (t2 - t1).abs();
    let s = r * delta_t;
    let delta_z = (hook::helix_at(p, t2).z.value - hook::helix_at(p, t1).z.value).abs();
    let long_enough = s.hypot(delta_z) > 3.5 * 0.01;
    // |r - hypot(x0, y0)| < 5.3 cm
    let near_beam = (r - x0.hypot(y0)).abs() < 5.3 * 0.01;
    // closest_to_beamline().z
    let c = hook::helix_at(p, 0.0);
    let v1 = (c.x.value - x0, c.y.value - y0);
    let v2 = (-x0, -y0);
    let dot = v1.0 * v2.0 + v1.1 * v2.1;
    let det = v1.0 * v2.1 - v1.1 * v2.0;
    let tc = det.atan2(dot);
    (long_enough && near_beam, hook::helix_at(p, tc).z.value, r)
}

/// `vertexsel` request for the model replay; `None` when two kept, non-`==` tracks have the
/// same z (the order `sort_unstable_by` gives them is not determined by the source).
pub fn vertexsel_request(specs: &[TrackSpec]) -> Option<String> {
    let n = specs.len();
    let tracks: Vec<Track> = specs.iter().map(track).collect();
    let mut first: HashMap<[u64; 8], usize> = HashMap::new();
    let cls: Vec<usize> = tracks.iter().enumerate().map(|(i, t)| *first.entry(track_key(t)).or_insert(i)).collect();
    let sel: Vec<(bool, f64, f64)> = specs.iter().map(selection_inputs).collect();
    for i in 0..n {
        for j in 0..i {
            if sel[i].0 && sel[j].0 && cls[i] != cls[j] && sel[i].1 == sel[j].1 {
                return None;
            }
        }
        if sel[i].1.is_nan() || sel[i].2.is_nan() {
            return None;
        }
    }
    let keep: String = if n == 0 { "-".into() } else { sel.iter().map(|s| if s.0 { '1' } else { '0' }).collect() };
    let list = |f: &dyn Fn(&(bool, f64, f64)) -> f64| -> String {
        if n == 0 {
            "-".to_string()
        } else {
            sel.iter().map(|s| format!("{:016x}", f(s).to_bits())).collect::<Vec<_>>().join(",")
        }
    };
    let tr = if n == 0 {
        "-".to_string()
    } else {
        specs
            .iter()
            .map(|t| t.iter().map(|v| format!("{:x}", v.to_bits())).collect::<Vec<_>>().join(":"))
            .collect::<Vec<_>>()
            .join(",")
    };
    Some(format!("vertexsel {} {} {} {} {} {}", n, keep, list(&|s| s.1), list(&|s| s.2), show(&cls), tr))
}

/// (implementation-only answer, oracle verdict, answer in the `vertexsel` syntax)
pub fn run_vertices_full(specs: &[TrackSpec]) -> (String, Option<String>, String) {
    let tracks: Vec<Track> = specs.iter().map(track).collect();
    let input = tracks.clone();
    let mut first: HashMap<[u64; 8], usize> = HashMap::new();
    for (i, t) in input.iter().enumerate() {
        first.entry(track_key(t)).or_insert(i);
    }
    let res = match guarded(move || find_vertices(tracks)) {
        Ok(r) => r,
        Err(m) => {
            return (format!("panic {m}"), Some(format!("find_vertices panicked: {m}")), format!("panic {m}"))
        }
    };
    let rep = |t: &Track| first.get(&track_key(t)).copied().unwrap_or(usize::MAX);
    let sel_answer = format!(
        "ok p={} r={}",
        match &res.primary {
            None => "none".to_string(),
            Some(v) => show(&v.tracks.iter().map(|(t, _)| rep(t)).collect::<Vec<_>>()),
        },
        show(&res.remainder.iter().map(rep).collect::<Vec<_>>())
    );
    let mut why = None;
    let mut count: HashMap<[u64; 8], i64> = HashMap::new();
    for t in &input {
        *count.entry(track_key(t)).or_default() += 1;
    }
    let mut out = String::from("ok");
    match &res.primary {
        None => out.push_str(" primary=none"),
        Some(v) => {
            out.push_str(&format!(
                " primary={:016x},{:016x},{:016x}/{}",
                v.position.x.value.to_bits(),
                v.position.y.value.to_bits(),
                v.position.z.value.to_bits(),
                v.tracks.len()
            ));
            if v.tracks.len() < 2 {
                why = Some(format!("primary vertex with {} < 2 tracks", v.tracks.len()));
            }
            if !(v.position.x.value.is_finite() && v.position.y.value.is_finite() && v.position.z.value.is_finite()) {
                why = Some("non-finite primary vertex position".to_string());
            }
            for (t, tt) in &v.tracks {
                *count.entry(track_key(t)).or_default() -= 1;
                if !tt.is_finite() {
                    why = Some("non-finite closest-approach parameter".to_string());
                }
            }
        }
    }
    for t in &res.remainder {
        *count.entry(track_key(t)).or_default() -= 1;
    }
    out.push_str(&format!(" secondaries={} remainder={}", res.secondaries.len(), res.remainder.len()));
    if count.values().any(|c| *c != 0) {
        why = Some("partition violated: primary tracks + remainder is not the input multiset".to_string());
    }
    if !res.secondaries.is_empty() {
        why = Some("secondaries not empty".to_string());
    }
    (out, why, sel_answer)
}

pub fn vertices_request(specs: &[TrackSpec], imp: &str) -> String {
    let mut s = String::from("impl-only vertices");
    for t in specs {
        for v in t {
            s.push_str(&format!(" {:016x}", v.to_bits()));
        }
    }
    s.push_str(" => ");
    s.push_str(imp);
    s
}

/// A track that passes both primary-seed filters, with its closest approach to the beamline
/// at height `zc` (approximately), curvature radius `r`.
fn good_track(rng: &mut Rng, zc: f64, r: f64, h: f64) -> TrackSpec {
    let alpha = rng.f64_unit() * 2.0 * PI - PI;
    let dca = (rng.f64_unit() - 0.5) * 0.06;
    let (x0, y0) = ((r + dca) * alpha.cos(), (r + dca) * alpha.sin());
    // direction from the centre towards the beamline
    let to_origin = (-y0).atan2(-x0);
    let delta = (rng.f64_unit() - 0.5) * 0.4;
    let phi0 = to_origin + delta; // closest approach at t = -delta
    let z0 = zc + h * delta / (2.0 * PI);
    let t_in = -delta + 0.1 / r.max(0.05);
    let t_out = t_in + (0.05 + 0.2 * rng.f64_unit()) / r.max(0.05);
    [x0, y0, z0, r, phi0, h, t_in.clamp(-PI, PI), t_out.clamp(-PI, PI)]
}

fn vertex_case(rng: &mut Rng) -> Vec<TrackSpec> {
    let n = rng.range(0, 8) as usize;
    let mut v: Vec<TrackSpec> = Vec::new();
    let zs = [-0.3, -0.3 + 0.02, 0.0, 0.01, 0.033, 0.0345, 0.4, 0.4];
    let radii = [0.25, 0.25, 0.5, 0.5, 1.0, 0.125, 2.0, 0.75];
    let mode = rng.below(7);
    for i in 0..n {
        let zc = *rng.pick(&zs);
        let rr = *rng.pick(&radii);
        let hh = *rng.pick(&[0.5, -0.5, 2.0, 0.0]);
        let coin = rng.bool();
        let coin2 = rng.bool();
        let u1 = rng.f64_unit();
        let u2 = rng.f64_unit();
        let u3 = rng.f64_unit();
        let t = match mode {
            // groups at a few heights, equal radii: ties in cluster size and in the sum of radii
            0 => good_track(rng, zc, rr, hh),
            // exact duplicates of earlier tracks
            1 if i > 0 && coin => *rng.pick(&v),
            // tracks meeting beyond the detector half length (a vertex fitted at |z| > 1.152 m is still a
            // vertex for the bookkeeping: its tracks belong to it, not nowhere)
            6 => {
                let zc6 = [1.2, -1.2, 1.3, -1.3, 1.16, -1.16][(u1 * 6.0) as usize % 6];
                good_track(rng, zc6, rr, hh)
            }
            // twins: the helix of an earlier track bit for bit, another t range (a short one that fails
            // the length cut, a longer one, a reversed one) - a track is its helix AND its range (seed C15-5)
            5 if i > 0 && coin => {
                let mut t = *rng.pick(&v);
                match rng.below(4) {
                    0 => t[7] = t[6] + 0.01,
                    1 => t[7] += 0.4,
                    2 => t[6] -= 0.3,
                    _ => {
                        let (a, b) = (t[6], t[7]);
                        t[6] = b;
                        t[7] = a;
                    }
                }
                t
            }
            5 => {
                let zc5 = [0.0, 0.01, 0.3][(u1 * 3.0) as usize % 3];
                good_track(rng, zc5, rr, hh)
            }
            // everything at one height
            2 => good_track(rng, 0.1, rr, 1.0),
            // tracks failing the filters (too short / far from the beamline)
            3 if coin => {
                let mut t = good_track(rng, 0.0, 0.5, 1.0);
                if coin2 {
                    t[7] = t[6];
                } else {
                    t[0] += 0.5;
                }
                t
            }
            _ => good_track(rng, u1 * 2.0 - 1.0, 0.1 + 2.0 * u2, (u3 - 0.5) * 4.0),
        };
        v.push(t);
    }
    // symmetric pairs: same |z| clusters of equal size and equal radius sums
    if mode == 0 && v.len() >= 2 && rng.bool() {
        let k = v.len() / 2;
        for i in 0..k {
            let mut t = v[i];
            t[2] += 0.5;
            v[k + i] = t;
        }
    }
    v
}

// ---------------------------------------------------------------- entry points

pub fn run_request(cmd: &str, args: &[&str]) -> Option<String> {
    match cmd {
        "impl-only" if args.first() == Some(&"vertices") => {
            let mut vals = Vec::new();
            for a in &args[1..] {
                if *a == "=>" {
                    break;
                }
                vals.push(f64::from_bits(u64::from_str_radix(a, 16).ok()?));
            }
            if vals.len() % 8 != 0 {
                return None;
            }
            let specs: Vec<TrackSpec> = vals.chunks(8).map(|c| c.try_into().unwrap()).collect();
            Some(run_vertices(&specs).0)
        }
        // `cluster … <points> <params>`: rebuild the points and parameters, re-run the real code;
        // the bins/adjacency of the line must be the ones the real code computes now.
        "cluster" if args.len() == 7 => {
            let min: usize = args[0].parse().ok()?;
            let mut pts = Vec::new();
            if args[5] != "-" {
                for t in args[5].split(',') {
                    let v: Vec<u64> = t.split(':').filter_map(|x| u64::from_str_radix(x, 16).ok()).collect();
                    if v.len() != 3 {
                        return None;
                    }
                    pts.push(sp(f64::from_bits(v[0]), f64::from_bits(v[1]), f64::from_bits(v[2])));
                }
            }
            let cfg = if args[6] == "pub" {
                PUBLIC
            } else {
                let v: Vec<&str> = args[6].split(':').collect();
                if v.len() != 3 {
                    return None;
                }
                Config {
                    min,
                    rho_bins: v[0].parse().ok()?,
                    theta_bins: v[1].parse().ok()?,
                    max_distance: f64::from_bits(u64::from_str_radix(v[2], 16).ok()?),
                    public_api: false,
                }
            };
            let (req, imp, _) = run_cloud(&pts, cfg);
            let same = req.split(' ').skip(1).take(5).eq(args.iter().take(5).copied());
            Some(if same { imp } else { format!("{imp} (bins/adjacency of the request differ from the recomputed ones)") })
        }
        "vertexsel" if args.len() == 6 => {
            let mut specs: Vec<TrackSpec> = Vec::new();
            if args[5] != "-" {
                for t in args[5].split(',') {
                    let v: Vec<f64> =
                        t.split(':').filter_map(|x| u64::from_str_radix(x, 16).ok()).map(f64::from_bits).collect();
                    specs.push(v.try_into().ok()?);
                }
            }
            Some(run_vertices_full(&specs).2)
        }
        _ => None,
    }
}

pub fn generate(s: &mut Session, thorough: bool) -> bool {
    let mut rng = Rng::new(s.seed);
    // (i) realistic clouds through the public API
    let (n_clouds, cap) = if thorough { (150, 2000) } else { (60, 400) };
    for k in 0..n_clouds {
        let max_points = if k % 10 == 0 { cap } else { cap.min(50 + 30 * (k % 40)) };
        let pts = cloud(&mut rng, max_points);
        let (req, imp, why) = run_cloud(&pts, PUBLIC);
        s.push_oracle("cloud-public", req, imp, why);
    }
    // (ii) the same kind of clouds with other `min` values / coarser grids
    for k in 0..(if thorough { 200 } else { 60 }) {
        let pts = cloud(&mut rng, if thorough { 600 } else { 200 });
        let cfg = Config {
            min: *rng.pick(&[1usize, 2, 3, 5, 13, 14, 20, 40]),
            rho_bins: *rng.pick(&[250u32, 50, 10]),
            theta_bins: *rng.pick(&[230u32, 46, 8]),
            max_distance: *rng.pick(&[0.03, 0.03, 0.01, 0.1]),
            public_api: false,
        };
        let _ = k;
        let (req, imp, why) = run_cloud(&pts, cfg);
        s.push_oracle("cloud-params", req, imp, why);
    }
    // (iii) small clouds on coarse grids
    for _ in 0..(if thorough { 60_000 } else { 4000 }) {
        let (pts, cfg) = small_cloud(&mut rng);
        let (req, imp, why) = run_cloud(&pts, cfg);
        s.push_oracle("small-coarse", req, imp, why);
    }
    // (iv) boundary sizes around `min = 13` through the public API: one clean track of k points
    for k in 0..=30usize {
        for noise in [0.0, 0.001] {
            let mut pts = helix_points(&mut rng, k, noise);
            if k % 3 == 0 {
                for _ in 0..5 {
                    pts.push(random_point(&mut rng));
                }
            }
            let (req, imp, why) = run_cloud(&pts, PUBLIC);
            s.push_oracle("size-boundary", req, imp, why);
        }
    }
    // (iv') C14 clustering stage on the degenerate families (public API and other parameters)
    for k in 0..(if thorough { 600 } else { 150 }) {
        let cap = if thorough { if k % 50 == 0 { 2000 } else { 300 } } else { if k % 30 == 0 { 400 } else { 60 } };
        let pts = degenerate_cloud(&mut rng, cap);
        let cfg = if k % 2 == 0 {
            PUBLIC
        } else {
            Config {
                min: *rng.pick(&[1usize, 3, 13]),
                rho_bins: *rng.pick(&[250u32, 20]),
                theta_bins: *rng.pick(&[230u32, 12]),
                max_distance: *rng.pick(&[0.03, 0.1]),
                public_api: false,
            }
        };
        let (req, imp, why) = run_cloud(&pts, cfg);
        s.push_oracle("degenerate", req, imp, why);
    }
    // (iv-b) clouds slightly around the drift volume, as the property quantifies: tracks that reach
    // |z| up to 1.3 m (either sign), and points whose azimuth is given outside (-pi, pi] (phi is any
    // real number for a SpacePoint; the output must be the INPUT points, bit for bit)
    for k in 0..(if thorough { 300 } else { 40 }) {
        let npts = rng.range(13, 40) as usize;
        let mut pts = helix_points(&mut rng, npts, 0.0005);
        if pts.is_empty() {
            continue;
        }
        if k % 2 == 0 {
            let zmax = pts.iter().map(|p| p.z.value).fold(f64::MIN, f64::max);
            let zmin = pts.iter().map(|p| p.z.value).fold(f64::MAX, f64::min);
            let target = 1.15 + 0.15 * rng.f64_unit();
            let (shift, _) = if rng.bool() { (target - zmax, 0) } else { (-target - zmin, 0) };
            for p in pts.iter_mut() {
                *p = sp(p.r.value, p.phi.value, p.z.value + shift);
            }
        } else {
            for (i, p) in pts.iter_mut().enumerate() {
                let turn = match (i + k) % 3 { 0 => 2.0 * PI, 1 => -2.0 * PI, _ => 0.0 };
                *p = sp(p.r.value, p.phi.value + turn, p.z.value);
            }
        }
        for _ in 0..rng.below(6) {
            pts.push(random_point(&mut rng));
        }
        let (req, imp, why) = run_cloud(&pts, PUBLIC);
        s.push_oracle("around-the-volume", req, imp, why);
    }
    // (v) find_vertices bookkeeping on track lists of size 0..=8 with ties
    let mut ambiguous = 0u64;
    for _ in 0..(if thorough { 30_000 } else { 3000 }) {
        let specs = vertex_case(&mut rng);
        let (imp, why, sel) = run_vertices_full(&specs);
        s.push_oracle("vertices", vertices_request(&specs, &imp), imp, why);
        match vertexsel_request(&specs) {
            Some(req) => s.push("vertexsel", req, sel),
            None => ambiguous += 1,
        }
    }
    s.notes.insert("vertexsel_skipped_ambiguous_z_ties".into(), serde_json::json!(ambiguous));
    // coverage statistics of the implementation's answers
    let mut hist: std::collections::BTreeMap<String, u64> = Default::default();
    for c in &s.cases {
        if c.req.starts_with("cluster ") {
            let k = match c.imp.split(' ').nth(1) {
                Some("c=-") => 0,
                Some(cs) => cs.matches('|').count() + 1,
                None => 0,
            };
            *hist.entry(format!("clouds_with_{}_clusters", k.min(6))).or_default() += 1;
            if c.imp.ends_with("r=-") {
                *hist.entry("clouds_with_empty_remainder".into()).or_default() += 1;
            }
        } else if c.req.starts_with("vertexsel ") {
            let k = if c.imp.contains("p=none") { "vertexsel_primary_none" } else { "vertexsel_primary_some" };
            *hist.entry(k.into()).or_default() += 1;
        }
    }
    s.notes.insert("coverage".into(), serde_json::json!(hist));
    true
}
