//! C11: event results do not depend on bank order and are bit-for-bit reproducible.
//!
//! For each event: the build under every adjacent transposition of its bank list, the reversal
//! and 50 random permutations must succeed or fail alike and, on success, give the same signals,
//! timestamp, avalanche list and vertex bit for bit; the computation repeated on 4 threads and in
//! 3 fresh child processes (fresh `RandomState` seeds of the `HashMap` that groups PWB chunks) must
//! give the same bits. Permuted events are also sent to the Lean model (`event …` requests of
//! C10) when they are small; for large simulated events only a few permutations are sent, the
//! others are checked on the implementation only (counted in the report's notes).
//!
//! Hidden request used for the child processes (`corr replay --file F --driver /bin/cat`):
//!   `c11res <run> <name>=<hex> …`  →  `res ok <timestamp/avalanches/vertex bits> <signal hash>` | `res err`
use crate::c09;
use crate::c10::{self, Banks, PwbSpec, Spec, WireSpec};
use crate::{Rng, Session};
use alpha_g_physics::verif as hooks;
use std::collections::BTreeMap;

fn fnv(s: &str) -> u64 {
    let mut h: u64 = 0xcbf29ce484222325;
    for b in s.bytes() {
        h ^= b as u64;
        h = h.wrapping_mul(0x100000001b3);
    }
    h
}

/// Everything observable of an event, as one line: `ok <results> sig=<hash of all slots>`,
/// `err` (which error is reported may legitimately depend on the order), or `panic …`.
pub fn outcome(run: u32, banks: &Banks, with_results: bool) -> (String, String) {
    let (imp, ev) = c10::run_impl(run, banks);
    let line = if imp.starts_with("panic") {
        imp.clone()
    } else {
        match &ev {
            None => "err".to_string(),
            Some(ev) => {
                let r = if with_results {
                    c09::results(ev).unwrap_or_else(|m| format!("panic {m}"))
                } else {
                    format!("ts={}", ev.timestamp())
                };
                format!("ok {r} sig={:016x}", fnv(&imp))
            }
        }
    };
    (imp, line)
}

pub fn run_request(cmd: &str, args: &[&str]) -> Option<String> {
    match cmd {
        "c11res" => {
            let (run, banks) = c10::parse_args(args)?;
            Some(format!("res {}", outcome(run, &banks, true).1))
        }
        "event" => c10::run_request(cmd, args),
        "eventorders" => {
            let (run, banks) = c10::parse_args(args)?;
            let mut seen = std::collections::BTreeSet::new();
            for _ in 0..24 {
                seen.insert(c10::run_impl(run, &banks).0);
            }
            Some(seen.into_iter().collect::<Vec<_>>().join(" | "))
        }
        _ => None,
    }
}

pub const X3: &str = "the build of one and the same input succeeds or fails depending on the HashMap iteration order (two PWB packets name the same chip inside, one of them empty after the delay; former finding F10/X3)";

fn thread_stack() -> usize {
    std::env::var("VERIF_C11_THREAD_STACK").ok().and_then(|v| v.parse().ok()).unwrap_or(8 << 20)
}

fn permute(banks: &Banks, idx: &[usize]) -> Banks {
    idx.iter().map(|&i| banks[i].clone()).collect()
}

struct Ctx {
    notes: BTreeMap<&'static str, usize>,
    /// `c11res` lines and the in-process answers, for the child processes
    child_lines: Vec<(String, String)>,
}

/// All order checks of one event.
fn check_event(s: &mut Session, rng: &mut Rng, cx: &mut Ctx, gen: &'static str, run: u32, banks: &Banks) {
    let n = banks.len();
    let small = n <= 14 && banks.iter().map(|b| b.1.len()).sum::<usize>() < 40_000;
    let (imp0, base) = outcome(run, banks, true);
    let mut why0 = None;
    if base.starts_with("panic") || base.contains("panic") {
        why0 = Some(format!("panic: {base}"));
    }
    // repeated in 4 threads
    // (a `MainEvent` is ~450 kB and `try_from_banks` holds several on its stack: the threads get
    // the main thread's 8 MiB instead of the 2 MiB default, which overflows in the dev profile)
    let again: Vec<String> = std::thread::scope(|sc| {
        let hs: Vec<_> = (0..4)
            .map(|_| {
                std::thread::Builder::new()
                    .stack_size(thread_stack())
                    .spawn_scoped(sc, || outcome(run, banks, true).1)
                    .expect("spawn")
            })
            .collect();
        hs.into_iter().map(|h| h.join().unwrap_or_else(|_| "panic in thread".to_string())).collect()
    });
    for (k, a) in again.iter().enumerate() {
        if *a != base && why0.is_none() {
            why0 = Some(format!("thread {k} computed `{a}`, the main thread `{base}`"));
        }
    }
    *cx.notes.entry("thread repetitions").or_default() += 4;
    s.push_oracle(gen, c10::request_line(run, banks), imp0, why0);
    cx.child_lines.push((c10::request_line(run, banks).replacen("event", "c11res", 1), format!("res {base}")));
    // permutations
    let mut perms: Vec<(Vec<usize>, bool)> = Vec::new(); // (permutation, send to the model)
    for i in 0..n.saturating_sub(1) {
        let mut p: Vec<usize> = (0..n).collect();
        p.swap(i, i + 1);
        perms.push((p, small));
    }
    if n >= 2 {
        perms.push(((0..n).rev().collect(), true));
    }
    for k in 0..50 {
        let mut p: Vec<usize> = (0..n).collect();
        rng.shuffle(&mut p);
        perms.push((p, small || k < 3));
    }
    for (k, (p, send)) in perms.iter().enumerate() {
        let b = permute(banks, p);
        // avalanches and vertex are recomputed for every permutation of a small event, and for
        // the reversal and a few random permutations of a large one
        let full = small || *send;
        let (imp, got) = outcome(run, &b, full);
        let want = if full {
            base.clone()
        } else {
            // without avalanches/vertex: timestamp and the hash of all slots
            match base.split_once(" sig=") {
                Some((head, sig)) if base.starts_with("ok") => {
                    let ts = head.split(' ').nth(1).unwrap_or("");
                    format!("ok {ts} sig={sig}")
                }
                _ => base.clone(),
            }
        };
        let why = if got != want {
            Some(format!("bank order changes the result: permutation #{k} gives `{got}`, the original order `{want}`"))
        } else {
            None
        };
        *cx.notes.entry("permutations checked").or_default() += 1;
        if *send || why.is_some() {
            s.push_oracle(gen, c10::request_line(run, &b), imp, why);
        }
    }
}

/// Two PWB packets under different chunk headers whose inner MAC / AFTER letter name the same
/// chip: one with samples after the delay, one without. Which group `into_values()` yields first
/// decided between `ok` and `DuplicatePadSignal` before the repair of finding F10 (commit 509cd0e);
/// now the second packet is rejected (its MAC differs from its chunks' board) in every order.
fn same_pad_short_long(rng: &mut Rng, run: u32) -> Option<Banks> {
    let installed = c10::installed_boards(run);
    if installed.len() < 2 {
        return None;
    }
    let pwb = c10::pwb_boards();
    let (b1, b2) = (installed[0], installed[1]);
    let d = hooks::pad_delay(run)?;
    let long = (d + 5) as u16;
    let short = d as u16;
    let w = |rng: &mut Rng, n: u16| -> Vec<i16> { (0..n).map(|_| rng.next() as i16 >> 4).collect() };
    let (w1, w2) = (w(rng, long), w(rng, short));
    let p1 = c10::pwb_payload(rng, pwb[b1].1, b'A', long, &[(20, w1)]);
    let p2 = c10::pwb_payload(rng, pwb[b1].1, b'A', short, &[(20, w2)]);
    let mut banks = c10::chunk_banks(rng, &c10::pc_name(&pwb[b1].0), &p1, 4000, pwb[b1].2, 0);
    banks.extend(c10::chunk_banks(rng, &c10::pc_name(&pwb[b2].0), &p2, 4000, pwb[b2].2, 0));
    banks.push(("ATAT".to_string(), c10::trg_bytes(rng, 9)));
    Some(banks)
}

pub fn generate(s: &mut Session, thorough: bool) -> bool {
    let mut rng = Rng::new(s.seed);
    let mut cx = Ctx { notes: BTreeMap::new(), child_lines: Vec::new() };
    let runs = c10::run_classes();
    let a16 = c10::a16_boards();
    // (i) small consistent events, with ignored banks
    for _ in 0..(if thorough { 400 } else { 25 }) {
        let run = *rng.pick(&[u32::MAX, 9277, 10418, 11084, 20000]);
        let spec = c10::small_spec(&mut rng, run);
        let mut banks = c10::spec_banks(&mut rng, &spec);
        if rng.bool() {
            banks.push(("TRBA".to_string(), rng.bytes(9)));
        }
        check_event(s, &mut rng, &mut cx, "small-consistent", run, &banks);
    }
    // (ii) malformed events: one injected fault each (and all run classes)
    for k in 0..(if thorough { 600 } else { 40 }) {
        let run = runs[k % runs.len()];
        let spec = c10::small_spec(&mut rng, run);
        let mut banks = c10::spec_banks(&mut rng, &spec);
        let i = rng.below(banks.len() as u64) as usize;
        match rng.below(7) {
            0 => banks[i].1 = rng.bytes(30),
            1 => {
                let n = banks[i].1.len();
                banks[i].1.truncate(n / 2);
            }
            2 => banks[i].0 = "XXXX".to_string(),
            3 => {
                let dup = banks[i].clone();
                banks.push(dup);
            }
            4 => {
                banks.pop();
            }
            5 => {
                // duplicated wire bank: one waveform longer than the delay, one not
                let d = hooks::wire_delay(run).unwrap_or(100);
                let (b, ch) = (rng.below(8) as usize, rng.below(32) as u8);
                for n in [d + 30, d.max(64)] {
                    let wv: Vec<i16> = (0..n).map(|_| rng.next() as i16 >> 3).collect();
                    banks.insert(0, (c10::c_name(&a16[b].0, ch), c10::adc_bytes(&mut rng, a16[b].1, 128 + ch, &wv)));
                }
            }
            _ => banks.insert(0, (c10::c_name(&a16[0].0, 1), c10::adc_short(&mut rng, 3))),
        }
        check_event(s, &mut rng, &mut cx, "small-malformed", run, &banks);
    }
    // (ii-b) duplicated banks of mixed kinds, systematically: the outcome must not depend on which
    // copy comes first (a duplicate check that only remembers banks carrying usable data, or a
    // first-wins rule among chunks with the same id, is order dependent)
    for (k, &run) in [u32::MAX, 11084, 9277].iter().enumerate() {
        for rep in 0..(if thorough { 6 } else { 1 }) {
            let spec = c10::small_spec(&mut rng, run);
            let base = c10::spec_banks(&mut rng, &spec);
            let d = hooks::wire_delay(run).unwrap_or(100);
            let (b, ch) = ((k + rep) % 8, rng.below(32) as u8);
            let name = c10::c_name(&a16[b].0, ch);
            let full = |rng: &mut Rng, n: usize| -> Vec<u8> {
                let wv: Vec<i16> = (0..n).map(|_| rng.next() as i16 >> 3).collect();
                c10::adc_bytes(rng, a16[b].1, 128 + ch, &wv)
            };
            let kinds: Vec<(&str, Vec<u8>)> = vec![
                ("full", full(&mut rng, d + 40)),
                ("full2", full(&mut rng, d + 40)),
                ("short", full(&mut rng, d.max(64))),
                ("suppressed", c10::adc_short(&mut rng, 128 + ch)),
            ];
            for i in 0..kinds.len() {
                for j in i..kinds.len() {
                    if kinds[i].0 == "full2" && kinds[j].0 == "full2" {
                        continue;
                    }
                    let mut banks: Banks = base.iter().filter(|(n, _)| *n != name).cloned().collect();
                    banks.insert(rng.below(banks.len() as u64 + 1) as usize, (name.clone(), kinds[i].1.clone()));
                    banks.insert(rng.below(banks.len() as u64 + 1) as usize, (name.clone(), kinds[j].1.clone()));
                    check_event(s, &mut rng, &mut cx, "duplicate-wire-bank-kinds", run, &banks);
                }
            }
            // duplicated chunk id with identical or different (CRC-valid) content
            if let Some(p) = spec.pads.first() {
                let boards = c10::pwb_boards();
                let (bname, mac, dev) = (boards[p.board].0.clone(), boards[p.board].1, boards[p.board].2);
                let pc = c10::pc_name(&bname);
                let pay1 = c10::pwb_payload(&mut rng, mac, b'A' + p.chip, p.req, &p.sent);
                let mut other = p.sent.clone();
                for (_, w) in other.iter_mut() {
                    for x in w.iter_mut() {
                        *x = x.wrapping_add(7);
                    }
                }
                let pay2 = c10::pwb_payload(&mut rng, mac, b'A' + p.chip, p.req, &other);
                let size = (pay1.len() / 3).max(60);
                let c1 = c10::chunk_banks(&mut rng, &pc, &pay1, size, dev, p.chip);
                let c2 = c10::chunk_banks(&mut rng, &pc, &pay2, size, dev, p.chip);
                for which in 0..c1.len().min(c2.len()) {
                    for same in [true, false] {
                        let mut banks: Banks = base.iter().filter(|(n, _)| !n.starts_with("PC")).cloned().collect();
                        banks.extend(c1.iter().cloned());
                        let extra = if same { c1[which].clone() } else { c2[which].clone() };
                        banks.insert(rng.below(banks.len() as u64 + 1) as usize, extra);
                        check_event(s, &mut rng, &mut cx, "duplicate-chunk-id", run, &banks);
                    }
                }
            }
            // one chunk of a multi-chunk message in a bank named after another board (every chunk
            // in turn): must be rejected in every order of the banks (seed C11-3 accepted it when a
            // correctly named chunk of the message arrived first)
            if let Some(p) = spec.pads.first() {
                let boards = c10::pwb_boards();
                let (bname, mac, dev) = (boards[p.board].0.clone(), boards[p.board].1, boards[p.board].2);
                let pc = c10::pc_name(&bname);
                let pay = c10::pwb_payload(&mut rng, mac, b'A' + p.chip, p.req, &p.sent);
                let size = (pay.len() / 3).max(60);
                let chunks = c10::chunk_banks(&mut rng, &pc, &pay, size, dev, p.chip);
                for which in 0..chunks.len() {
                    let mut other = pc.clone();
                    while other == pc {
                        other = c10::pc_name(&boards[rng.below(boards.len() as u64) as usize].0);
                    }
                    let mut banks: Banks = base.iter().filter(|(n, _)| !n.starts_with("PC")).cloned().collect();
                    let mut cs = chunks.clone();
                    cs[which].0 = other;
                    banks.extend(cs);
                    check_event(s, &mut rng, &mut cx, "misnamed-chunk", run, &banks);
                }
            }
            // two TRG banks with different timestamps
            {
                let mut banks = base.clone();
                banks.insert(rng.below(banks.len() as u64 + 1) as usize, ("ATAT".to_string(), c10::trg_bytes(&mut rng, 12345)));
                check_event(s, &mut rng, &mut cx, "duplicate-trg", run, &banks);
            }
        }
    }
    // (iii) the same pad delivered by two packets, one of them empty after the delay: the answers
    // of 24 repetitions are collected (the model lists its answers over two group orders)
    for run in [u32::MAX, 11084] {
        for _ in 0..(if thorough { 20 } else { 3 }) {
            if let Some(banks) = same_pad_short_long(&mut rng, run) {
                let mut seen = std::collections::BTreeSet::new();
                for _ in 0..24 {
                    seen.insert(c10::run_impl(run, &banks).0);
                }
                let imp: Vec<String> = seen.into_iter().collect();
                let why = if imp.len() > 1 {
                    Some(X3.to_string())
                } else if imp[0].starts_with("ok") {
                    Some("accepted but must be rejected: two PWB packets deliver the same pad".to_string())
                } else {
                    None
                };
                s.push_oracle("same-pad-short-long", c10::request_line(run, &banks).replacen("event", "eventorders", 1), imp.join(" | "), why);
            }
        }
    }
    // (iv) simulated multi-track events with noise
    for run in [u32::MAX, 11084] {
        let Some(g) = c09::Geometry::new(run) else { continue };
        for _ in 0..(if thorough { 12 } else { 1 }) {
            let spec: Spec = g.event(&mut rng, 3, 18, 3.0, 420, 330);
            let banks = c10::spec_banks(&mut rng, &spec);
            check_event(s, &mut rng, &mut cx, "simulated-multi-track", run, &banks);
        }
    }
    // (iv-a) several PadWing packets in one event, one of them with zero requested samples (nothing to
    // store for its pads): the other packets must be stored whatever the order in which the groups
    // are visited (an early exit from the loop over the chunk groups makes the result depend on the
    // HashMap order: seed C11-7)
    for run in [u32::MAX, 11084] {
        for _ in 0..(if thorough { 10 } else { 2 }) {
            let mut spec = c10::small_spec(&mut rng, run);
            let installed = c10::installed_boards(run);
            if installed.len() < 4 {
                continue;
            }
            spec.pads.clear();
            let mut used = std::collections::BTreeSet::new();
            for k in 0..5usize {
                let board = *rng.pick(&installed);
                let chip = rng.below(4) as u8;
                if !used.insert((board, chip)) {
                    continue;
                }
                let req: u16 = if k == 2 { 0 } else { (hooks::pad_delay(run).unwrap_or(100) + 5 + rng.below(20) as usize) as u16 };
                let sent: Vec<(u16, Vec<i16>)> = (1..=79u16).filter(|i| i % 9 == (k as u16) % 9).map(|i| (i, c10::wave(&mut rng, req as usize))).collect();
                spec.pads.push(c10::PwbSpec { board, chip, req, sent, chunk_size: 1400 });
            }
            let banks = c10::spec_banks(&mut rng, &spec);
            for _ in 0..6 {
                check_event(s, &mut rng, &mut cx, "zero-sample-packet", run, &banks);
            }
        }
    }
    // (iv-a2) history of the clustering: track events (with clusters, tracks and mostly a vertex)
    // computed one after the other on this long-lived thread and each on a fresh thread; a Hough
    // accumulator or any other container kept between events changes tie-breaking (seed C11-10)
    for run in [u32::MAX] {
        let Some(g) = c09::Geometry::new(run) else { continue };
        for k in 0..(if thorough { 120 } else { 24 }) {
            let spec: Spec = g.event(&mut rng, 2 + k % 3, 16 + (k % 5) * 3, if k % 2 == 0 { 0.0 } else { 2.0 }, 420, 330);
            let banks = c10::spec_banks(&mut rng, &spec);
            let (imp, here) = outcome(run, &banks, true);
            let fresh = std::thread::scope(|sc| {
                std::thread::Builder::new()
                    .stack_size(thread_stack())
                    .spawn_scoped(sc, || outcome(run, &banks, true).1)
                    .expect("spawn")
                    .join()
                    .unwrap_or_else(|_| "panic in thread".to_string())
            });
            let why = if fresh != here {
                Some(format!("a fresh thread computed `{fresh}`, this long-lived thread `{here}`"))
            } else {
                None
            };
            s.push_oracle("cluster-history", c10::request_line(run, &banks), imp, why);
            cx.child_lines.push((c10::request_line(run, &banks).replacen("event", "c11res", 1), format!("res {here}")));
        }
    }
    // (iv-b) history on one thread: events with one wide block of contiguous wires, a wider one before a
    // narrower one and vice versa. Every event is computed on this (long-lived) thread, on 4 fresh
    // threads and in fresh processes; a solver that keeps anything from an earlier, larger block
    // (seed C11-6 cached the Cholesky factor of the largest block seen) gives different last bits here.
    for run in [u32::MAX, 11084] {
        let Some(g) = c09::Geometry::new(run) else { continue };
        for (start, len) in [(10usize, 40usize), (100, 24), (200, 64), (30, 20), (60, 33), (250, 17), (0, 48), (128, 18)] {
            let spec: Spec = g.block_event(&mut rng, start, len, 260);
            let banks = c10::spec_banks(&mut rng, &spec);
            check_event(s, &mut rng, &mut cx, "block-history", run, &banks);
        }
    }
    // (v) fresh processes: 3 children recompute every original event
    let dir = std::env::temp_dir().join(format!("verif-c11-{}", std::process::id()));
    let _ = std::fs::create_dir_all(&dir);
    let mut child_ok = 0usize;
    {
        if let Ok(exe) = std::env::current_exe() {
            for k in 0..3 {
                // each child sees the events in a different order (child 0: as here; child 1: reversed;
                // child 2: rotated by a third): a result must not depend on what was computed before
                // it in the same process (hidden state kept in a static: seed C11-8)
                let nl = cx.child_lines.len();
                let order: Vec<usize> = match k {
                    0 => (0..nl).collect(),
                    1 => (0..nl).rev().collect(),
                    _ => (0..nl).map(|i| (i + nl / 3) % nl.max(1)).collect(),
                };
                let file = dir.join(format!("events{k}.txt"));
                let text: String = order.iter().map(|&i| format!("{}\n", cx.child_lines[i].0)).collect();
                if std::fs::write(&file, text).is_err() {
                    continue;
                }
                let out = std::process::Command::new(&exe)
                    .args(["replay", "--file", file.to_str().unwrap(), "--driver", "/bin/cat"])
                    .output();
                let Ok(out) = out else { continue };
                let text = String::from_utf8_lossy(&out.stdout);
                let answers: Vec<&str> = text.lines().filter_map(|l| l.strip_prefix("  impl : ")).collect();
                if answers.len() != cx.child_lines.len() {
                    s.push_oracle("fresh-process", format!("c11res <{} events>", cx.child_lines.len()), "ok".into(),
                        Some(format!("child process {k} answered {} of {} requests", answers.len(), cx.child_lines.len())));
                    continue;
                }
                child_ok += 1;
                for (&i, got) in order.iter().zip(answers) {
                    let (req, want) = &cx.child_lines[i];
                    if want != got {
                        s.push_oracle("fresh-process", req.replacen("c11res", "event", 1), want.clone(),
                            Some(format!("child process {k} computed `{got}`, this process `{want}`")));
                    }
                }
            }
        }
    }
    let _ = std::fs::remove_dir_all(&dir);
    if child_ok < 3 {
        s.push_oracle("fresh-process", "c11res".into(), "ok".into(), Some(format!("only {child_ok} of 3 child processes could be run")));
    }
    cx.notes.insert("events recomputed in each of 3 fresh processes", cx.child_lines.len());
    for (k, v) in cx.notes {
        s.notes.insert(k.to_string(), serde_json::json!(v));
    }
    let _ = (WireSpec { board: 0, ch: 0, wave: vec![] }, PwbSpec { board: 0, chip: 0, req: 0, sent: vec![], chunk_size: 1 });
    false
}
