//! C04: PWB packet reassembly from chunks (also the `TryFrom<Vec<Chunk>>` part of C01).
//!
//! Chunk *values* are always real `Chunk`s: every value is serialised into a CRC-valid chunk
//! byte string and decoded by the real `Chunk::try_from(&[u8])`; the request line is printed
//! from the accessors of the decoded chunks.
use crate::{guarded, hex, Rng, Session};
use alpha_g_detector::padwing::{
    AfterId, Chunk, PwbV2Packet, TryPwbPacketFromChunksError as CE,
};

#[cfg(feature = "c05")]
use crate::c05;
#[cfg(not(feature = "c05"))]
#[path = "c05.rs"]
#[allow(dead_code)]
mod c05;

/// Harness-side chunk value.
#[derive(Clone, Debug, PartialEq, Eq)]
pub struct CV {
    pub dev: u32,
    pub chip: u8,
    pub flags: u8,
    pub id: u16,
    pub payload: Vec<u8>,
}

/// Wire format of a chunk (documentation table): 16 header bytes, `!crc32c(header)`, payload
/// zero-padded to a multiple of 4, `!crc32c(padded payload)`.
pub fn chunk_bytes(c: &CV, pkt_seq: u32, chan_seq: u16) -> Vec<u8> {
    let mut v = Vec::with_capacity(24 + c.payload.len() + 3);
    v.extend(c.dev.to_le_bytes());
    v.extend(pkt_seq.to_le_bytes());
    v.extend(chan_seq.to_le_bytes());
    v.push(c.chip);
    v.push(c.flags);
    v.extend(c.id.to_le_bytes());
    v.extend((c.payload.len() as u16).to_le_bytes());
    let h = !crc32c::crc32c(&v[..16]);
    v.extend(h.to_le_bytes());
    v.extend(&c.payload);
    while v.len() % 4 != 0 {
        v.push(0);
    }
    let p = !crc32c::crc32c(&v[20..]);
    v.extend(p.to_le_bytes());
    v
}

pub fn to_chunk(c: &CV, rng_tag: u32) -> Result<Chunk, String> {
    let bytes = chunk_bytes(c, rng_tag, (rng_tag >> 3) as u16);
    Chunk::try_from(&bytes[..]).map_err(|e| format!("{e}"))
}

fn after_num(a: AfterId) -> u8 {
    match a {
        AfterId::A => 0,
        AfterId::B => 1,
        AfterId::C => 2,
        AfterId::D => 3,
    }
}

pub fn cerr_name(e: &CE) -> String {
    match e {
        CE::DeviceIdMismatch { .. } => "DeviceIdMismatch".into(),
        CE::ChannelIdMismatch { .. } => "ChannelIdMismatch".into(),
        CE::MissingChunk { position } => format!("MissingChunk({position})"),
        CE::MissingEndOfMessageChunk => "MissingEndOfMessageChunk".into(),
        CE::MisplacedEndOfMessageChunk { position } => format!("MisplacedEndOfMessageChunk({position})"),
        CE::PayloadLengthMismatch { found, expected } => format!("PayloadLengthMismatch({found},{expected})"),
        CE::BadPayload(e) => format!("BadPayload:{}", c05::err_name(e)),
    }
}

pub fn request_line(chunks: &[Chunk]) -> String {
    let mut s = format!("pwbchunks {}", chunks.len());
    for c in chunks {
        s.push_str(&format!(
            " {}:{}:{}:{}:{}",
            c.board_id().device_id(),
            after_num(c.after_id()),
            c.is_end_of_message() as u8,
            c.chunk_id(),
            hex(c.payload())
        ));
    }
    s
}

/// Concatenation of the payloads in chunk-id order (stable for ties; only used when the
/// implementation accepted, and then ids are distinct).
fn concat_by_id(chunks: &[Chunk]) -> Vec<u8> {
    let mut idx: Vec<usize> = (0..chunks.len()).collect();
    idx.sort_by_key(|&i| chunks[i].chunk_id());
    let mut v = Vec::new();
    for i in idx {
        v.extend(chunks[i].payload());
    }
    v
}

/// Canonical answer of the implementation for a chunk list in the given order + oracle verdict
/// (panic; success must equal the direct decode of the concatenation in id order, and that
/// packet must pass the C05 oracles, including re-encoding to the concatenation).
pub fn run_impl(chunks: Vec<Chunk>) -> (String, Option<String>) {
    let concat = concat_by_id(&chunks);
    // the version-dispatching entry point the event builder uses must give the same verdict as the
    // V2 entry point on the same list (seed C04-10 read the version from the first-ARRIVED chunk)
    let outer = {
        let cs = chunks.clone();
        match guarded(move || alpha_g_detector::padwing::PwbPacket::try_from(cs)) {
            Err(msg) => format!("panic {msg}"),
            Ok(Err(e)) => format!("err {}", cerr_name(&e)),
            Ok(Ok(_)) => "ok".to_string(),
        }
    };
    let (line, why) = run_impl_v2(chunks, &concat);
    let inner = if line.starts_with("err") || line.starts_with("panic") { line.clone() } else { "ok".to_string() };
    let why = why.or_else(|| {
        if inner != outer {
            Some(format!("PwbPacket::try_from(chunks) says `{outer}`, PwbV2Packet::try_from(chunks) says `{inner}` for the same list"))
        } else {
            None
        }
    });
    (line, why)
}

fn run_impl_v2(chunks: Vec<Chunk>, concat: &[u8]) -> (String, Option<String>) {
    let concat = concat.to_vec();
    match guarded(move || PwbV2Packet::try_from(chunks)) {
        Err(msg) => (format!("panic {msg}"), Some(format!("reassembly panicked: {msg}"))),
        Ok(Err(e)) => (format!("err {}", cerr_name(&e)), None),
        Ok(Ok(p)) => {
            let (line, mut why) = c05::show_packet(&p, &concat);
            let (direct, _) = c05::run_impl(&concat);
            if why.is_none() && direct != line {
                why = Some("reassembled packet differs from the direct decode of the concatenation".into());
            }
            (line, why)
        }
    }
}

fn parse_cv(s: &str) -> Option<CV> {
    let f: Vec<&str> = s.split(':').collect();
    if f.len() != 5 {
        return None;
    }
    Some(CV {
        dev: f[0].parse().ok()?,
        chip: f[1].parse().ok()?,
        flags: f[2].parse().ok()?,
        id: f[3].parse().ok()?,
        payload: crate::unhex(f[4])?,
    })
}

/// Replay entry.
pub fn run_request(cmd: &str, args: &[&str]) -> Option<String> {
    match cmd {
        "pwbchunks" => {
            let cvs: Option<Vec<CV>> = args.iter().skip(1).map(|a| parse_cv(a)).collect();
            let cvs = cvs?;
            let chunks: Result<Vec<Chunk>, String> = cvs.iter().map(|c| to_chunk(c, 7)).collect();
            match chunks {
                Ok(ch) => Some(run_impl(ch).0),
                Err(e) => Some(format!("not-a-chunk {e}")),
            }
        }
        "pwb" | "chan" | "baseline" => c05::run_request(cmd, args),
        _ => None,
    }
}

#[derive(Clone, Copy, PartialEq, Eq, Debug)]
pub enum Expect {
    Accept,
    Reject,
    Any,
}

fn permutations(n: usize) -> Vec<Vec<usize>> {
    fn rec(cur: &mut Vec<usize>, used: &mut Vec<bool>, n: usize, out: &mut Vec<Vec<usize>>) {
        if cur.len() == n {
            out.push(cur.clone());
            return;
        }
        for i in 0..n {
            if !used[i] {
                used[i] = true;
                cur.push(i);
                rec(cur, used, n, out);
                cur.pop();
                used[i] = false;
            }
        }
    }
    let mut out = Vec::new();
    rec(&mut Vec::new(), &mut vec![false; n], n, &mut out);
    out
}

/// Orders to try for a list of `n` chunks: all `n!` when `n <= full_up_to`, else identity,
/// reverse, rotations by one and `k` random shuffles.
fn orders(n: usize, full_up_to: usize, k: usize, rng: &mut Rng) -> Vec<Vec<usize>> {
    if n <= full_up_to {
        return permutations(n);
    }
    let id: Vec<usize> = (0..n).collect();
    let mut v = vec![id.clone(), id.iter().rev().cloned().collect()];
    let mut r = id.clone();
    r.rotate_left(1);
    v.push(r);
    let mut r = id.clone();
    r.rotate_right(1);
    v.push(r);
    for _ in 0..k {
        let mut p = id.clone();
        rng.shuffle(&mut p);
        v.push(p);
    }
    v
}

/// Push one chunk multiset in several orders. Oracles (independent of the model): no panic;
/// every order gives the same answer as the first one; acceptance as expected; success equals
/// the direct decode of the concatenation (inside `run_impl`).
fn add_group(s: &mut Session, gen: &'static str, cvs: &[CV], ords: &[Vec<usize>], expect: Expect, tag: &mut u32) {
    let mut reference: Option<String> = None;
    for o in ords {
        let mut chunks = Vec::with_capacity(o.len());
        for &i in o {
            *tag = tag.wrapping_mul(2654435761).wrapping_add(12345);
            match to_chunk(&cvs[i], *tag) {
                Ok(c) => chunks.push(c),
                Err(e) => {
                    s.push_oracle(gen, "pwbchunks 0".into(), "err MissingChunk(0)".into(), Some(format!("generator produced a non-chunk: {e}")));
                    return;
                }
            }
        }
        let req = request_line(&chunks);
        let (imp, mut why) = run_impl(chunks);
        if why.is_none() {
            match &reference {
                None => {}
                Some(r) if r == &imp => {}
                Some(r) => {
                    let short = |x: &str| x.chars().take(60).collect::<String>();
                    why = Some(format!("order dependence: first order gave `{}`, this order `{}`", short(r), short(&imp)));
                }
            }
        }
        if why.is_none() {
            match expect {
                Expect::Accept if !imp.starts_with("ok ") => why = Some(format!("valid chunk set rejected: {imp}")),
                Expect::Reject if imp.starts_with("ok ") => why = Some("faulty chunk set accepted".into()),
                _ => {}
            }
        }
        if reference.is_none() {
            reference = Some(imp.clone());
        }
        s.push_oracle(gen, req, imp, why);
    }
}

/// Cut a payload into chunks of `size` bytes (the last one shorter), ids 0.., EOM on the last.
pub fn cut(payload: &[u8], size: usize, dev: u32, chip: u8) -> Vec<CV> {
    let parts: Vec<&[u8]> = payload.chunks(size).collect();
    let n = parts.len();
    parts
        .iter()
        .enumerate()
        .map(|(i, p)| CV { dev, chip, flags: (i + 1 == n) as u8, id: i as u16, payload: p.to_vec() })
        .collect()
}

fn mac_dev_chip(payload: &[u8]) -> (u32, u8) {
    (u32::from_le_bytes([payload[4], payload[5], payload[6], payload[7]]), payload[1] - b'A')
}

pub fn generate(s: &mut Session, thorough: bool) -> bool {
    let mut rng = Rng::new(s.seed);
    let scale: usize = if thorough { 8 } else { 1 };
    let full_up_to = if thorough { 7 } else { 6 };
    let mut tag = s.seed as u32 | 1;
    let boards = c05::boards_cached();
    let other_board = |dev: u32, rng: &mut Rng| -> u32 {
        loop {
            let d = boards[rng.below(boards.len() as u64) as usize].2;
            if d != dev {
                return d;
            }
        }
    };

    // valid payloads of several sizes
    let mut small: Vec<Vec<u8>> = (0..3 * scale).map(|_| c05::small_valid(&mut rng)).collect();
    small.push(c05::encode(&c05::random_fields(&mut rng, 0, 0))); // 56 bytes, no channel
    let medium: Vec<Vec<u8>> = (0..2 * scale)
        .map(|_| {
            let mut m = 0u128;
            for _ in 0..rng.range(3, 12) {
                m |= 1u128 << rng.below(79);
            }
            let req = rng.range(100, 511) as u16;
            c05::encode(&c05::random_fields(&mut rng, m, req))
        })
        .collect();
    let big = c05::encode(&c05::random_fields(&mut rng, (1u128 << 79) - 1, 511)); // 81 272 bytes

    // (i) valid: n = 1..=full_up_to chunks, every order
    for p in &small {
        let (dev, chip) = mac_dev_chip(p);
        // the chunk's device/chip need not equal the payload's; use both equal and unrelated
        for (d, c) in [(dev, chip), (other_board(dev, &mut rng), (chip + 1) % 4)] {
            for n in 1..=full_up_to {
                let size = (p.len() + n - 1) / n;
                let cvs = cut(p, size, d, c);
                if cvs.len() != n {
                    continue;
                }
                let ords = orders(n, full_up_to, 0, &mut rng);
                add_group(s, "valid-all-orders", &cvs, &ords, Expect::Accept, &mut tag);
            }
        }
    }
    // (ii) valid: the listed chunk sizes, random orders beyond full_up_to chunks
    let sizes: [usize; 16] = [1, 2, 3, 7, 8, 255, 256, 1471, 1472, 1473, 4096, 32767, 32768, 40000, 65534, 65535];
    for (pi, p) in small.iter().take(2).chain(medium.iter()).chain(std::iter::once(&big)).enumerate() {
        let (dev, chip) = mac_dev_chip(p);
        for &size in &sizes {
            let n = (p.len() + size - 1) / size;
            if n > 1500 || (n == 1 && size > 256 && pi > 0) {
                continue;
            }
            let cvs = cut(p, size, dev, chip);
            let k = if p.len() > 20000 { 2 } else if thorough { 200 } else { 12 };
            let mut ords = orders(n, if p.len() > 20000 { 3 } else { 4 }, k, &mut rng);
            if p.len() > 20000 {
                ords.truncate(4);
            }
            add_group(s, "valid-chunk-sizes", &cvs, &ords, Expect::Accept, &mut tag);
        }
    }
    // (ii-b) the largest chunk counts a message can have: ids 0..=65534 and 0..=65535 (one-byte
    // chunks, the rest of the message in the final chunk), in order and with the final chunk first.
    // Implementation only (a 65 536-chunk request line would be megabytes for the model, whose
    // totality for every list is theorem pwbFromChunkBytes_total): no panic in either build profile,
    // and the reassembled packet equals the direct decode (seed C01-5 counted ids with a u16 range)
    for n in [65535usize, 65536] {
        let (dev, chip) = mac_dev_chip(&big);
        let mut cvs: Vec<CV> = (0..n - 1)
            .map(|i| CV { dev, chip, flags: 0, id: i as u16, payload: vec![big[i]] })
            .collect();
        cvs.push(CV { dev, chip, flags: 1, id: (n - 1) as u16, payload: big[n - 1..].to_vec() });
        for last_first in [false, true] {
            let mut chunks: Vec<Chunk> = Vec::with_capacity(n);
            let mut bad = None;
            for (k, cv) in cvs.iter().enumerate() {
                tag = tag.wrapping_add(1);
                match to_chunk(cv, tag) {
                    Ok(c) => chunks.push(c),
                    Err(e) => {
                        bad = Some(format!("chunk {k} of the {n}-chunk message is not accepted by Chunk::try_from: {e}"));
                        break;
                    }
                }
            }
            if last_first && bad.is_none() {
                let l = chunks.pop().unwrap();
                chunks.insert(0, l);
            }
            let (imp, why) = match bad {
                Some(b) => ("err chunk".to_string(), Some(b)),
                None => run_impl(chunks),
            };
            let digest = format!("{} {}", imp.split(' ').next().unwrap_or(""), imp.len());
            s.push_oracle("max-chunk-count", format!("impl-only chunks {n} last_first={last_first} => {digest}"), digest.clone(), why);
        }
    }
    // (iii) every single fault x several orders
    let fault_bases: Vec<Vec<CV>> = {
        let mut v = Vec::new();
        for p in small.iter().take(2 * scale) {
            let (dev, chip) = mac_dev_chip(p);
            for n in 1..=5usize {
                let size = (p.len() + n - 1) / n;
                let cvs = cut(p, size, dev, chip);
                if cvs.len() == n {
                    v.push(cvs);
                }
            }
            v.push(cut(p, 8, dev, chip));
        }
        v.push(cut(&medium[0], 1472, mac_dev_chip(&medium[0]).0, 2));
        v
    };
    for base in &fault_bases {
        let n = base.len();
        for i in 0..n {
            let full = 5;
            // drop i
            let mut f = base.clone();
            f.remove(i);
            let o = orders(f.len(), full, 4, &mut rng);
            add_group(s, "fault-drop", &f, &o, Expect::Reject, &mut tag);
            // duplicate i (identical copy, and a copy with another payload)
            let mut f = base.clone();
            f.push(base[i].clone());
            let o = orders(f.len(), full, 4, &mut rng);
            add_group(s, "fault-duplicate", &f, &o, Expect::Reject, &mut tag);
            let mut f = base.clone();
            let mut d = base[i].clone();
            d.payload[0] ^= 0xFF;
            f.push(d);
            let o = orders(f.len(), full, 4, &mut rng);
            add_group(s, "fault-duplicate", &f, &o, Expect::Reject, &mut tag);
            // foreign board at i (n = 1: a single chunk has no "other" board)
            if n > 1 {
                let mut f = base.clone();
                f[i].dev = other_board(f[i].dev, &mut rng);
                let o = orders(f.len(), full, 4, &mut rng);
                add_group(s, "fault-board", &f, &o, Expect::Reject, &mut tag);
                let mut f = base.clone();
                f[i].chip = (f[i].chip + 1 + rng.below(3) as u8) % 4;
                let o = orders(f.len(), full, 4, &mut rng);
                add_group(s, "fault-chip", &f, &o, Expect::Reject, &mut tag);
            }
            // toggle EOM at i
            let mut f = base.clone();
            f[i].flags ^= 1;
            let o = orders(f.len(), full, 4, &mut rng);
            add_group(s, "fault-eom", &f, &o, Expect::Reject, &mut tag);
            // the end-of-message flag MOVED: cleared on the last chunk and set on chunk i instead (exactly
            // one flagged chunk, in the wrong place), and set on chunk i in addition to the last one
            if i + 1 < n {
                let mut f = base.clone();
                f[n - 1].flags &= !1;
                f[i].flags |= 1;
                let o = orders(f.len(), full, 4, &mut rng);
                add_group(s, "fault-eom-moved", &f, &o, Expect::Reject, &mut tag);
            }
            // resize non-final i
            if i + 1 < n {
                for grow in [false, true] {
                    let mut f = base.clone();
                    if grow {
                        f[i].payload.push(0);
                    } else if f[i].payload.len() > 1 {
                        f[i].payload.pop();
                    } else {
                        continue;
                    }
                    let o = orders(f.len(), full, 4, &mut rng);
                    add_group(s, "fault-resize", &f, &o, Expect::Reject, &mut tag);
                }
            }
            // id of chunk i replaced (gap + out-of-range id)
            for new_id in [n as u16, n as u16 + 1, 0xFFFF, (i as u16 + 1) % n.max(1) as u16] {
                if new_id == base[i].id {
                    continue;
                }
                let mut f = base.clone();
                f[i].id = new_id;
                let o = orders(f.len(), full, 4, &mut rng);
                add_group(s, "fault-id", &f, &o, Expect::Reject, &mut tag);
            }
        }
        // bad payload: a byte of the concatenation changed (header version) -> BadPayload
        let mut f = base.clone();
        f[0].payload[0] ^= 1;
        let o = orders(f.len(), 5, 4, &mut rng);
        add_group(s, "fault-payload", &f, &o, Expect::Reject, &mut tag);
    }
    // (iv) two simultaneous faults (error precedence must not depend on the order)
    for _ in 0..60 * scale {
        let base = &fault_bases[rng.below(fault_bases.len() as u64) as usize];
        let mut f = base.clone();
        for _ in 0..2 {
            if f.is_empty() {
                break;
            }
            let i = rng.below(f.len() as u64) as usize;
            match rng.below(7) {
                0 => {
                    f.remove(i);
                }
                1 => {
                    let c = f[i].clone();
                    f.push(c);
                }
                2 => f[i].dev = other_board(f[i].dev, &mut rng),
                3 => f[i].chip = (f[i].chip + 1) % 4,
                4 => f[i].flags ^= 1,
                5 => f[i].payload.push(7),
                _ => f[i].id = rng.below(8) as u16,
            }
        }
        let o = orders(f.len(), 5, 6, &mut rng);
        add_group(s, "double-fault", &f, &o, Expect::Any, &mut tag);
    }
    // (v) arbitrary chunk multisets (every branch of the reassembly, including ties)
    for _ in 0..150 * scale {
        let n = rng.below(6) as usize;
        let d0 = boards[rng.below(boards.len() as u64) as usize].2;
        let d1 = other_board(d0, &mut rng);
        let two_boards = rng.below(5) == 0;
        let two_chips = rng.below(5) == 0;
        let len = rng.range(1, 3) as usize;
        let f: Vec<CV> = (0..n)
            .map(|i| CV {
                dev: if two_boards && rng.bool() { d1 } else { d0 },
                chip: if two_chips && rng.bool() { 1 } else { 0 },
                flags: if rng.below(4) == 0 { rng.below(2) as u8 } else { (i + 1 == n) as u8 },
                id: if rng.below(4) == 0 { rng.below(n as u64 + 1) as u16 } else { i as u16 },
                payload: { let l = if rng.below(6) == 0 { rng.range(1, 4) as usize } else { len }; rng.bytes(l) },
            })
            .collect();
        let o = orders(f.len(), 5, 6, &mut rng);
        add_group(s, "random-multiset", &f, &o, Expect::Any, &mut tag);
    }
    // the empty list
    add_group(s, "empty", &[], &[vec![]], Expect::Reject, &mut tag);
    true
}
