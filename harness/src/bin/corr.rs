//! `corr <property> --tier quick|thorough --seed N --driver PATH --out report.json`
use verif_harness::*;

fn main() {
    let args: Vec<String> = std::env::args().collect();
    let mut prop = String::new();
    let mut tier = "quick".to_string();
    let mut seed = 0u64;
    let mut driver = String::new();
    let mut out = String::new();
    let mut file = String::new();
    let mut i = 1;
    while i < args.len() {
        match args[i].as_str() {
            "--tier" => { tier = args[i + 1].clone(); i += 1; }
            "--seed" => { seed = args[i + 1].parse().unwrap_or(0); i += 1; }
            "--driver" => { driver = args[i + 1].clone(); i += 1; }
            "--file" => { file = args[i + 1].clone(); i += 1; }
            "--out" => { out = args[i + 1].clone(); i += 1; }
            p => prop = p.to_string(),
        }
        i += 1;
    }
    quiet_panics();
    let thorough = tier == "thorough";
    let mut s = Session::new(&prop, &tier, seed);
    if prop == "dump-tables" {
        // Bit-pattern dump of the in-memory float tables of the built code (translator input).
        #[cfg(feature = "c18")]
        {
            c18::dump_tables(&out);
            return;
        }
        #[allow(unreachable_code)]
        {
            eprintln!("dump-tables needs feature c18");
            std::process::exit(2);
        }
    }
    if prop == "simstats" {
        // Informational: reconstruction statistics of the forward model (C12's numbers; not a check).
        #[cfg(feature = "sim")]
        {
            sim::stats(seed, if thorough { 1000 } else { 200 }, &out);
            return;
        }
        #[allow(unreachable_code)]
        {
            eprintln!("simstats needs feature sim");
            std::process::exit(2);
        }
    }
    if prop == "replay" {
        for line in std::fs::read_to_string(&file).expect("replay file").lines() {
            if line.trim().is_empty() || line.starts_with('#') { continue; }
            let imp = run_request(line);
            s.push("replay", line.to_string(), imp);
        }
        let answers = s.run_driver(&driver);
        for (c, m) in s.cases.iter().zip(answers.iter()) {
            println!("request: {}\n  impl : {}\n  model: {}\n  {}", c.req, c.imp, m,
                if &c.imp == m { "agree" } else { "DIFFER" });
        }
        return;
    }
    // Each module's `generate` returns whether error kinds are compared strictly.
    let mut strict_err: Option<bool> = None;
    #[cfg(feature = "c02")]
    if prop == "c02" {
        strict_err = Some(c02::generate(&mut s, thorough));
    }
    #[cfg(feature = "c03")]
    if prop == "c03" {
        strict_err = Some(c03::generate(&mut s, thorough));
    }
    #[cfg(feature = "c04")]
    if prop == "c04" {
        strict_err = Some(c04::generate(&mut s, thorough));
    }
    #[cfg(feature = "c05")]
    if prop == "c05" {
        strict_err = Some(c05::generate(&mut s, thorough));
    }
    #[cfg(feature = "c06")]
    if prop == "c06" {
        strict_err = Some(c06::generate(&mut s, thorough));
    }
    #[cfg(feature = "c07")]
    if prop == "c07" {
        strict_err = Some(c07::generate(&mut s, thorough));
    }
    #[cfg(feature = "c08")]
    if prop == "c08" {
        strict_err = Some(c08::generate(&mut s, thorough));
    }
    #[cfg(feature = "c09")]
    if prop == "c09" {
        strict_err = Some(c09::generate(&mut s, thorough));
    }
    #[cfg(feature = "c09b")]
    if prop == "c09b" {
        strict_err = Some(c09b::generate(&mut s, thorough));
    }
    #[cfg(feature = "c10")]
    if prop == "c10" {
        strict_err = Some(c10::generate(&mut s, thorough));
    }
    #[cfg(feature = "c11")]
    if prop == "c11" {
        strict_err = Some(c11::generate(&mut s, thorough));
    }
    #[cfg(feature = "c13")]
    if prop == "c13" {
        strict_err = Some(c13::generate(&mut s, thorough));
    }
    #[cfg(feature = "c13b")]
    if prop == "c13b" {
        strict_err = Some(c13b::generate(&mut s, thorough));
    }
    #[cfg(feature = "c14")]
    if prop == "c14" {
        strict_err = Some(c14::generate(&mut s, thorough));
    }
    #[cfg(feature = "c14b")]
    if prop == "c14b" {
        strict_err = Some(c14b::generate(&mut s, thorough));
    }
    #[cfg(feature = "c14c")]
    if prop == "c14c" {
        strict_err = Some(c14c::generate(&mut s, thorough));
    }
    #[cfg(feature = "c15")]
    if prop == "c15" {
        strict_err = Some(c15::generate(&mut s, thorough));
    }
    #[cfg(feature = "c15b")]
    if prop == "c15b" {
        strict_err = Some(c15b::generate(&mut s, thorough));
    }
    #[cfg(feature = "c16")]
    if prop == "c16" {
        strict_err = Some(c16::generate(&mut s, thorough));
    }
    #[cfg(feature = "c17")]
    if prop == "c17" {
        strict_err = Some(c17::generate(&mut s, thorough));
    }
    #[cfg(feature = "c18")]
    if prop == "c18" {
        strict_err = Some(c18::generate(&mut s, thorough));
    }
    #[cfg(feature = "c19")]
    if prop == "c19" {
        strict_err = Some(c19::generate(&mut s, thorough));
    }
    #[cfg(feature = "c20")]
    if prop == "c20" {
        strict_err = Some(c20::generate(&mut s, thorough));
    }
    let Some(strict_err) = strict_err else {
        eprintln!("unknown or disabled property module {prop}");
        std::process::exit(2);
    };
    let (d, o) = s.finish(&driver, &out, strict_err);
    println!("cases={} disagreements={} oracle_failures={}", s.cases.len(), d, o);
}
