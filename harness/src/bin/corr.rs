//! `corr <property> --tier quick|thorough --seed N --driver PATH --out report.json`
use verif_harness::*;

fn main() {
    let args: Vec<String> = std::env::args().collect();
    let mut prop = String::new();
    let mut tier = "quick".to_string();
    let mut seed = 0u64;
    let mut driver = String::new();
    let mut out = String::new();
    let mut file = String::new();
    let mut i = 1;
    while i < args.len() {
        match args[i].as_str() {
            "--tier" => { tier = args[i + 1].clone(); i += 1; }
            "--seed" => { seed = args[i + 1].parse().unwrap_or(0); i += 1; }
            "--driver" => { driver = args[i + 1].clone(); i += 1; }
            "--file" => { file = args[i + 1].clone(); i += 1; }
            "--out" => { out = args[i + 1].clone(); i += 1; }
            p => prop = p.to_string(),
        }
        i += 1;
    }
    quiet_panics();
    let thorough = tier == "thorough";
    let mut s = Session::new(&prop, &tier, seed);
    if prop == "replay" {
        for line in std::fs::read_to_string(&file).expect("replay file").lines() {
            if line.trim().is_empty() || line.starts_with('#') { continue; }
            let imp = run_request(line);
            s.push("replay", line.to_string(), imp);
        }
        let answers = s.run_driver(&driver);
        for (c, m) in s.cases.iter().zip(answers.iter()) {
            println!("request: {}\n  impl : {}\n  model: {}\n  {}", c.req, c.imp, m,
                if &c.imp == m { "agree" } else { "DIFFER" });
        }
        return;
    }
    let strict_err = match prop.as_str() {
        "c06" => { c06::generate(&mut s, thorough); true }
        other => { eprintln!("unknown property module {other}"); std::process::exit(2); }
    };
    let (d, o) = s.finish(&driver, &out, strict_err);
    println!("cases={} disagreements={} oracle_failures={}", s.cases.len(), d, o);
}
