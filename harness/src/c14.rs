//! C14: reconstruction stages are total on physical inputs and return finite geometry.
//!
//! Implementation-only adversarial sampling (the Nelder–Mead minimiser and IEEE-754 `f64`
//! arithmetic are not modelled in Lean; see Props/C14.lean for what *is* proved). Every case
//! runs the real code under `catch_unwind`; a panic, a non-finite output or a `t` outside
//! `[-pi, pi]` is an **oracle failure** whose request line carries the generating bit patterns:
//!
//! * `impl-only fit <r phi z bits per point …> => <answer>`
//!     `Track::try_from(cluster_from_points(points))`
//! * `impl-only vertices14 <x0 y0 z0 r phi0 h t_in t_out bits per track …> => <answer>`
//!     `find_vertices(tracks)`
//! * `impl-only closest <x0 y0 z0 r phi0 h  r phi z  tol iters> => <answer>`
//!     `Helix::closest_t`
//!
//! The Lean driver answers an `impl-only` request by echoing the recorded answer after `=>`,
//! so these cases can never count as model/implementation disagreements: only the oracle
//! verdict matters, and the evidence labels them as sampling, not proof. `corr replay`
//! recomputes the answer from the bit patterns before `=>`.
//! (The clustering stage of C14 is covered by the `cluster` replay of c15.rs, whose generators
//! include the degenerate point families.)
use crate::{guarded, Rng, Session};
use alpha_g_physics::reconstruction::{find_vertices, Track};
use alpha_g_physics::verif::reconstruction as hook;
use alpha_g_physics::SpacePoint;
use std::f64::consts::PI;

pub fn sp(r: f64, phi: f64, z: f64) -> SpacePoint {
    let mut p = SpacePoint { r: Default::default(), phi: Default::default(), z: Default::default() };
    p.r.value = r;
    p.phi.value = phi;
    p.z.value = z;
    p
}
fn sp_xyz(x: f64, y: f64, z: f64) -> SpacePoint {
    sp(x.hypot(y), y.atan2(x), z)
}
fn bits(v: f64) -> String {
    format!("{:016x}", v.to_bits())
}

// ------------------------------------------------------------------ fit

pub fn run_fit(points: &[SpacePoint]) -> (String, Option<String>) {
    let pts = points.to_vec();
    let n = pts.len();
    match guarded(move || Track::try_from(hook::cluster_from_points(pts))) {
        Err(m) => {
            let why = if n < 3 {
                // `assert!(sp.len() >= 3)`: clusters have >= 13 points by C15 `cluster_min_size`
                None
            } else {
                Some(format!("fit panicked: {m}"))
            };
            (format!("panic {m}"), why)
        }
        Ok(Err(_)) => ("err NoInitialParameters".to_string(), None),
        Ok(Ok(t)) => {
            let p = hook::track_params(&t);
            let mut why = None;
            if p.iter().any(|v| !v.is_finite()) {
                why = Some("non-finite helix parameter".to_string());
            }
            for (name, v) in [("t_inner", t.t_inner()), ("t_outer", t.t_outer())] {
                if !(v >= -PI && v <= PI) {
                    why = Some(format!("{name} = {v:e} outside [-pi, pi]"));
                }
            }
            // Track::at must give finite coordinates at both ends
            for v in [t.t_inner(), t.t_outer()] {
                let c = t.at(v);
                if !(c.x.value.is_finite() && c.y.value.is_finite() && c.z.value.is_finite()) {
                    why = Some("non-finite Track::at".to_string());
                }
            }
            let mut s = String::from("ok");
            for v in p {
                s.push(' ');
                s.push_str(&bits(v));
            }
            s.push_str(&format!(" {} {}", bits(t.t_inner()), bits(t.t_outer())));
            (s, why)
        }
    }
}

fn fit_request(points: &[SpacePoint], imp: &str) -> String {
    let mut s = String::from("impl-only fit");
    for p in points {
        s.push_str(&format!(" {} {} {}", bits(p.r.value), bits(p.phi.value), bits(p.z.value)));
    }
    s.push_str(" => ");
    s.push_str(imp);
    s
}

// ------------------------------------------------------------------ vertices

pub type TrackSpec = [f64; 8]; // x0 y0 z0 r phi0 h t_inner t_outer

pub fn run_vertices(specs: &[TrackSpec]) -> (String, Option<String>) {
    let tracks: Vec<Track> =
        specs.iter().map(|t| hook::track_from_params([t[0], t[1], t[2], t[3], t[4], t[5]], t[6], t[7])).collect();
    let n = tracks.len();
    match guarded(move || find_vertices(tracks)) {
        Err(m) => (format!("panic {m}"), Some(format!("find_vertices panicked: {m}"))),
        Ok(res) => {
            let mut why = None;
            let mut s = String::from("ok");
            let mut used = 0;
            match &res.primary {
                None => s.push_str(" none"),
                Some(v) => {
                    for c in [v.position.x.value, v.position.y.value, v.position.z.value] {
                        if !c.is_finite() {
                            why = Some("non-finite vertex position".to_string());
                        }
                        s.push(' ');
                        s.push_str(&bits(c));
                    }
                    used = v.tracks.len();
                    for (_, t) in &v.tracks {
                        if !(*t >= -PI && *t <= PI) {
                            why = Some(format!("closest t = {t:e} outside [-pi, pi]"));
                        }
                    }
                }
            }
            s.push_str(&format!(" tracks={} secondaries={} remainder={}", used, res.secondaries.len(), res.remainder.len()));
            if used + res.remainder.len() != n {
                why = Some("tracks lost or duplicated".to_string());
            }
            (s, why)
        }
    }
}

fn vertices_request(specs: &[TrackSpec], imp: &str) -> String {
    let mut s = String::from("impl-only vertices14");
    for t in specs {
        for v in t {
            s.push(' ');
            s.push_str(&bits(*v));
        }
    }
    s.push_str(" => ");
    s.push_str(imp);
    s
}

// ------------------------------------------------------------------ closest_t

pub fn run_closest(h: [f64; 6], p: [f64; 3], tol: f64, iters: usize) -> (String, Option<String>) {
    match guarded(move || hook::closest_t(h, sp(p[0], p[1], p[2]), tol, iters)) {
        Err(m) => (format!("panic {m}"), Some(format!("closest_t panicked: {m}"))),
        Ok(t) => {
            let why = if t >= -PI && t <= PI { None } else { Some(format!("closest_t = {t:e} not in [-pi, pi]")) };
            (format!("ok {}", bits(t)), why)
        }
    }
}

// ------------------------------------------------------------------ generators

const PERTURB: [f64; 10] = [0.0, 1e-18, 1e-17, 1e-16, 1e-15, 1e-13, 1e-10, 1e-7, 1e-4, 1e-2];
const PITCH: [f64; 16] = [
    0.0, -0.0, 5e-324, -5e-324, 2.2e-308, 1e-300, 1e-17, -1e-17, 1e-16, 2.2204460492503131e-16,
    -2.3e-16, 1e-12, 1e-6, 1e-2, 1.0, 1e2,
];

fn physical(rng: &mut Rng) -> (f64, f64, f64) {
    (0.05 + 0.2 * rng.f64_unit(), (rng.f64_unit() * 2.0 - 1.0) * PI, (rng.f64_unit() * 2.0 - 1.0) * 1.3)
}

fn dy(rng: &mut Rng, k: u32) -> f64 {
    rng.below(1 << k) as f64 / (1u64 << k) as f64
}

/// Degenerate point families of the quantifier text. `fam` selects the family.
pub fn degenerate_points(rng: &mut Rng, fam: u64) -> Vec<SpacePoint> {
    let n = *rng.pick(&[3usize, 3, 4, 5, 13, 13, 14, 20, 40]);
    let eps = *rng.pick(&PERTURB);
    let sign = |rng: &mut Rng| if rng.bool() { 1.0 } else { -1.0 };
    let mut pts = Vec::new();
    match fam {
        // collinear along a ray through the beamline (same phi), optionally perturbed in phi
        0 => {
            let phi = *rng.pick(&[0.0, PI / 2.0, PI, -PI / 2.0, 0.3, 1.0, -2.5]);
            let z0 = rng.f64_unit() - 0.5;
            let slope = (rng.f64_unit() - 0.5) * 4.0;
            for k in 0..n {
                let r = 0.05 + 0.2 * (k as f64 + rng.f64_unit()) / n as f64;
                pts.push(sp(r, phi + eps * sign(rng) * rng.f64_unit(), z0 + slope * r));
            }
        }
        // collinear along an arbitrary chord x = a + t*dx, y = b + t*dy, perturbed across
        1 => {
            let (a, b) = (0.06 + 0.05 * rng.f64_unit(), (rng.f64_unit() - 0.5) * 0.1);
            let ang = rng.f64_unit() * PI;
            let (dx, dyv) = (ang.cos(), ang.sin());
            for k in 0..n {
                let t = 0.12 * (k as f64) / n as f64;
                let e = eps * sign(rng);
                pts.push(sp_xyz(a + t * dx - e * dyv, b + t * dyv + e * dx, 0.3 * t));
            }
        }
        // repeated points: one value, or two/three values repeated
        2 => {
            let kinds = rng.range(1, 3) as usize;
            let base: Vec<_> = (0..kinds).map(|_| physical(rng)).collect();
            for k in 0..n {
                let (r, p, z) = base[k % kinds];
                pts.push(sp(r, p, z));
            }
        }
        // equal radii (ties in minmax_by_key and in the middle-point search)
        3 => {
            let r = 0.05 + 0.2 * rng.f64_unit();
            for _ in 0..n {
                let (_, p, z) = physical(rng);
                pts.push(sp(r + eps * sign(rng) * rng.f64_unit() * 0.0, p, z));
            }
            if rng.bool() {
                pts[0].r.value += eps;
            }
        }
        // vertical line: same (r, phi), different z
        4 => {
            let (r, p, _) = physical(rng);
            for k in 0..n {
                pts.push(sp(r + eps * (k % 2) as f64, p, -1.0 + 2.0 * k as f64 / n as f64));
            }
        }
        // circle through the origin (an ideal track), pitch from the pitch family
        5 => {
            let big_r = 0.08 + rng.f64_unit();
            let alpha = rng.f64_unit() * 2.0 * PI;
            let (cx, cy) = (big_r * alpha.cos(), big_r * alpha.sin());
            let pitch = *rng.pick(&PITCH) * sign(rng);
            let mut k = 0;
            let mut guard = 0;
            while pts.len() < n && guard < 100_000 {
                guard += 1;
                let s = alpha + PI + (k as f64) * 0.01;
                k += 1;
                let (x, y) = (cx + big_r * s.cos(), cy + big_r * s.sin());
                let r = x.hypot(y);
                if r > 0.25 {
                    break;
                }
                if r >= 0.05 {
                    pts.push(sp_xyz(x + eps * sign(rng), y, (pitch * (k as f64) * 0.01 / (2.0 * PI)).clamp(-1.3, 1.3)));
                }
            }
            while pts.len() < 3 {
                let (r, p, z) = physical(rng);
                pts.push(sp(r, p, z));
            }
        }
        // dyadic grids
        6 => {
            let k = *rng.pick(&[1u32, 2, 3, 6]);
            for _ in 0..n {
                pts.push(sp(0.0625 + dy(rng, k) / 8.0, dy(rng, k) * 4.0 - 2.0, dy(rng, k) * 2.0 - 1.0));
            }
        }
        // helix with a pitch from the pitch family, sampled in the physical volume
        7 => {
            let pitch = *rng.pick(&PITCH) * sign(rng);
            let rr = 0.05 + 2.0 * rng.f64_unit() * rng.f64_unit();
            let alpha = rng.f64_unit() * 2.0 * PI;
            let d = (rng.f64_unit() - 0.5) * 0.04;
            let (cx, cy) = ((rr + d) * alpha.cos(), (rr + d) * alpha.sin());
            let z0 = rng.f64_unit() - 0.5;
            let mut k = 0;
            while pts.len() < n && k < 100_000 {
                let t = (k as f64) * 0.2 / rr.max(0.05) / 200.0;
                k += 1;
                let s = alpha + PI + t;
                let (x, y) = (cx + rr * s.cos(), cy + rr * s.sin());
                let r = x.hypot(y);
                if r > 0.25 {
                    break;
                }
                if r >= 0.05 && k % 7 == 0 {
                    pts.push(sp_xyz(x, y, (z0 + pitch * t / (2.0 * PI)).clamp(-1.3, 1.3)));
                }
            }
            while pts.len() < 3 {
                let (r, p, z) = physical(rng);
                pts.push(sp(r, p, z));
            }
        }
        // three points only, two of them equal or all nearly equal
        8 => {
            let (r, p, z) = physical(rng);
            pts.push(sp(r, p, z));
            pts.push(sp(r + eps, p, z));
            pts.push(sp(r + 2.0 * eps, p + eps, z + eps));
        }
        // random physical cloud
        _ => {
            for _ in 0..n {
                let (r, p, z) = physical(rng);
                pts.push(sp(r, p, z));
            }
        }
    }
    pts
}

fn pitch_track(rng: &mut Rng, zc: f64) -> TrackSpec {
    let h = *rng.pick(&PITCH) * if rng.bool() { 1.0 } else { -1.0 };
    let r = *rng.pick(&[0.05, 0.25, 0.5, 1.0, 3.0]) * (1.0 + 0.1 * rng.f64_unit());
    let alpha = rng.f64_unit() * 2.0 * PI - PI;
    let dca = (rng.f64_unit() - 0.5) * 0.08;
    let (x0, y0) = ((r + dca) * alpha.cos(), (r + dca) * alpha.sin());
    let delta = (rng.f64_unit() - 0.5) * 0.4;
    let phi0 = (-y0).atan2(-x0) + delta;
    let z0 = zc + h * delta / (2.0 * PI);
    let t_in = (-delta + 0.1 / r).clamp(-PI, PI);
    let t_out = (t_in + (0.02 + 0.3 * rng.f64_unit()) / r).clamp(-PI, PI);
    [x0, y0, z0, r, phi0, h, t_in, t_out]
}

pub fn run_request(cmd: &str, args: &[&str]) -> Option<String> {
    if cmd != "impl-only" {
        return None;
    }
    let kind = *args.first()?;
    let mut vals = Vec::new();
    for a in &args[1..] {
        if *a == "=>" {
            break;
        }
        vals.push(u64::from_str_radix(a, 16).ok()?);
    }
    let f: Vec<f64> = vals.iter().map(|b| f64::from_bits(*b)).collect();
    match kind {
        "fit" if f.len() % 3 == 0 => {
            let pts: Vec<SpacePoint> = f.chunks(3).map(|c| sp(c[0], c[1], c[2])).collect();
            Some(run_fit(&pts).0)
        }
        "vertices14" if f.len() % 8 == 0 => {
            let specs: Vec<TrackSpec> = f.chunks(8).map(|c| c.try_into().unwrap()).collect();
            Some(run_vertices(&specs).0)
        }
        "closest" if f.len() == 11 => Some(
            run_closest(
                [f[0], f[1], f[2], f[3], f[4], f[5]],
                [f[6], f[7], f[8]],
                f[9],
                vals[10] as usize,
            )
            .0,
        ),
        _ => None,
    }
}

pub fn generate(s: &mut Session, thorough: bool) -> bool {
    let mut rng = Rng::new(s.seed);
    let scale = if thorough { 20 } else { 1 };
    // (i) track fit on the degenerate families
    for fam in 0..12u64 {
        for _ in 0..400 * scale {
            let pts = if fam == 10 {
                // >= 21 points on an arc whose radii form chains of near-ties (steps of 3e-10 .. 3e-8 m):
                // an ordering of the points by radius must stay a total order (seed C14-9)
                let n = rng.range(21, 45) as usize;
                let step = *rng.pick(&[3e-10, 1e-9, 3e-9, 1e-8, 3e-8]);
                let r0 = 0.11 + 0.05 * rng.f64_unit();
                let z0 = rng.f64_unit() - 0.5;
                (0..n)
                    .map(|k| {
                        let chain = (k % 7) as f64 * step + (k / 7) as f64 * 0.004;
                        sp(r0 + chain, -1.0 + 0.05 * k as f64 + 0.01 * rng.f64_unit(), z0 + 0.003 * k as f64 * if rng.below(5) == 0 { -1.0 } else { 1.0 })
                    })
                    .collect()
            } else if fam == 11 {
                // a track that leaves the drift volume in z (slightly around the volume, as the property
                // quantifies): |z| up to 1.3 m, either sign (seed C14-10 indexed z slabs)
                let n = rng.range(13, 30) as usize;
                let sgn = if rng.bool() { 1.0 } else { -1.0 };
                let zend = 1.14 + 0.16 * rng.f64_unit();
                let phi0 = (rng.f64_unit() * 2.0 - 1.0) * PI;
                (0..n)
                    .map(|k| {
                        let f = k as f64 / (n - 1) as f64;
                        sp(0.11 + 0.07 * f, phi0 + 0.3 * f, sgn * (zend - 0.2 * (1.0 - f)))
                    })
                    .collect()
            } else {
                degenerate_points(&mut rng, fam)
            };
            let (imp, why) = run_fit(&pts);
            let gen: &'static str = match fam {
                0 => "fit-ray-collinear",
                1 => "fit-chord-collinear",
                2 => "fit-repeated",
                3 => "fit-equal-radii",
                4 => "fit-vertical",
                5 => "fit-circle-through-origin",
                6 => "fit-dyadic",
                7 => "fit-helix-pitch",
                8 => "fit-three-points",
                10 => "fit-near-tie-radii",
                11 => "fit-beyond-half-length",
                _ => "fit-random",
            };
            s.push_oracle(gen, fit_request(&pts, &imp), imp, why);
        }
    }
    // (ii) find_vertices on helices with degenerate pitch, sizes 0..=8, with ties
    for _ in 0..3000 * scale {
        let n = rng.range(0, 8) as usize;
        let mut specs: Vec<TrackSpec> = Vec::new();
        let zc = rng.f64_unit() - 0.5;
        for i in 0..n {
            let t = if i > 0 && rng.below(4) == 0 {
                *rng.pick(&specs)
            } else {
                let z = if rng.bool() { zc } else { zc + (rng.f64_unit() - 0.5) * 0.1 };
                pitch_track(&mut rng, z)
            };
            specs.push(t);
        }
        let (imp, why) = run_vertices(&specs);
        let req = vertices_request(&specs, &imp);
        s.push_oracle("vertices-pitch", req, imp, why);
    }
    // (iii) closest_t: pitch family x points on / off the axis, on the circle, far away
    for _ in 0..6000 * scale {
        let h = *rng.pick(&PITCH) * if rng.bool() { 1.0 } else { -1.0 };
        let r = *rng.pick(&[0.0, 1e-300, 0.05, 0.5, 1.0, 1e3]);
        let (x0, y0, z0) = ((rng.f64_unit() - 0.5) * 2.0, (rng.f64_unit() - 0.5) * 2.0, rng.f64_unit() - 0.5);
        let phi0 = (rng.f64_unit() * 2.0 - 1.0) * PI;
        let p = match rng.below(4) {
            0 => {
                let q = sp_xyz(x0, y0, z0); // on the helix axis
                (q.r.value, q.phi.value, q.z.value)
            }
            1 => {
                let q = sp_xyz(x0 + r * phi0.cos(), y0 + r * phi0.sin(), z0); // on the helix
                (q.r.value, q.phi.value, q.z.value)
            }
            2 => (0.0, 0.0, 0.0),
            _ => physical(&mut rng),
        };
        let tol = *rng.pick(&[f64::EPSILON, 0.0, 1e-3]);
        let iters = *rng.pick(&[20usize, 0, 1, 100]);
        let (imp, why) = run_closest([x0, y0, z0, r, phi0, h], [p.0, p.1, p.2], tol, iters);
        let req = format!(
            "impl-only closest {} {} {} {} {} {} {} {} {} {} {:016x} => {}",
            bits(x0), bits(y0), bits(z0), bits(r), bits(phi0), bits(h), bits(p.0), bits(p.1), bits(p.2), bits(tol), iters, imp
        );
        s.push_oracle("closest-t", req, imp, why);
    }
    true
}
