//! C13b: the whole of `MainEvent::avalanches()` against the end-to-end Lean model
//! (`Model/Avalanches.lean`: ranges → `a_matrix` → Cholesky solve → per-wire / per-pad
//! least-squares deconvolution → `BTreeSet` of pad columns → `match_column_inputs`).
//!
//! Requests (every float list: comma separated 16-digit hex bit patterns, `nan` for a NaN, `-`
//! for an empty group):
//!   avalanches <wire response> | <pad response> | <neighbour factors> | w<idx>:<samples> … |
//!              p<col>.<row>:<samples> …
//!       -> ok <m> <m x (time bin, wire index, z bits, wire amplitude bits, pad amplitude bits)>
//!          in the order of the returned Vec
//!   avalanchesx <pad response> | w<idx>:<deconvolved input> … | p<col>.<row>:<samples> …
//!       -> exact <m> <m x (…)>: the chain downstream of the wire deconvolution; the w-tokens
//!          carry what `wire_range_deconvolution` returned for the event's ranges. Compared bit
//!          for bit, in the order of the returned Vec (no tolerance, no sorting).
//!   nfactors <neighbour factors>  -> ok   (the model's theorems are about these constants)
//!   cholsolve <neighbour factors> <y>  -> ok <x>   (`A·x = y`; implementation side: the same
//!       system pushed through `wire_range_deconvolution`'s faer calls is not exposed, so the
//!       harness solves it with an independent dense Gaussian elimination)
//!
//! Agreement (`Session::agree`): same number of avalanches, the same (time bin, wire) pairs
//! (a (time bin, wire) pair occurs at most once in an event), z within 1e-9·(1+|z|) m, pad
//! amplitude within a relative 1e-9 and wire amplitude within 1e-9 relative *or* within 1e-9 of
//! the event's largest wire amplitude (the error of the linear solve is relative to the norm of
//! the right-hand side, not to the individual small entry), position by position in the order
//! of the returned Vec. The wire may differ only where the implementation's answer declares a
//! near-tie: the harness appends ` ties <t>:<w1>:<w2> …` to the implementation's answer, the pairs
//! of wires of one pad column whose *deconvolved* amplitudes in time bin `t` (from
//! `verif_wire_range_deconvolution`) differ by less than 4e-9 of the event's largest amplitude
//! (a hit without cross-talk in the data is unmixed into two equal positive side lobes on the
//! wires ±1; which one is paired first is decided by the last bit of the solve). The only part
//! of the chain that is not bit for bit is the Cholesky solve (faer's blocked kernels vs. the
//! model's textbook loops). The real code emits "dust" avalanches: after a fitted pulse is
//! subtracted the residual is rounding noise, a window of which is negative throughout now and
//! then, and the `> 0.0` filter of `wire_hits_at_t` lets the resulting inputs of 1e-13…1e-20
//! through; which of them exist depends on the last bit of the solve. The comparator therefore
//! ignores, on both sides, avalanches whose wire amplitude is below `DUST` times the largest wire
//! amplitude of the event (wire hits are paired in descending amplitude order, so dust never
//! changes the pad hit a larger wire hit gets); the `avalanchesx` request compares the dust too.
use crate::sim;
use crate::{guarded, Rng, Session};
use alpha_g_detector::alpha16::aw_map::{TpcWirePosition, TPC_ANODE_WIRES};
use alpha_g_detector::padwing::map::{TPC_PAD_COLUMNS, TPC_PAD_ROWS};
use alpha_g_physics::verif::{
    verif_contiguous_ranges, verif_neighbor_factors, verif_wire_range_deconvolution, verif_pad_column_to_wires, verif_pad_response, verif_wire_response,
    verif_wire_to_pad_column,
};
use alpha_g_physics::MainEvent;
use std::collections::HashMap;
use std::sync::OnceLock;

type Wires = [Option<Vec<f64>>; TPC_ANODE_WIRES];
type Pads = [[Option<Vec<f64>>; TPC_PAD_ROWS]; TPC_PAD_COLUMNS];

/// Relative tolerance of the amplitude / z comparison.
const TOL: f64 = 1e-9;
/// Wire amplitudes below `DUST` x (largest wire amplitude of the event) are rounding dust.
const DUST: f64 = 1e-9;

/// `wire_to_pad_column`, kept inside the array bounds of this harness.
fn col_of(w: usize) -> usize {
    verif_wire_to_pad_column(w) % TPC_PAD_COLUMNS
}
fn empty_wires() -> Wires {
    std::array::from_fn(|_| None)
}
fn empty_pads() -> Box<Pads> {
    let v: Vec<[Option<Vec<f64>>; TPC_PAD_ROWS]> = (0..TPC_PAD_COLUMNS).map(|_| std::array::from_fn(|_| None)).collect();
    v.into_boxed_slice().try_into().ok().unwrap()
}

fn fbits(x: f64) -> String {
    if x.is_nan() {
        "nan".to_string()
    } else {
        format!("{:016x}", x.to_bits())
    }
}
fn flist(v: &[f64]) -> String {
    let mut s = String::with_capacity(v.len() * 17);
    for (i, x) in v.iter().enumerate() {
        if i > 0 {
            s.push(',');
        }
        s.push_str(&fbits(*x));
    }
    s
}
fn parse_f(s: &str) -> Option<f64> {
    if s == "nan" {
        Some(f64::NAN)
    } else {
        u64::from_str_radix(s, 16).ok().map(f64::from_bits)
    }
}
fn parse_flist(s: &str) -> Option<Vec<f64>> {
    if s.is_empty() || s == "-" {
        return Some(Vec::new());
    }
    s.split(',').map(parse_f).collect()
}

struct Tables {
    wire_resp: Vec<f64>,
    pad_resp: Vec<f64>,
    factors: [f64; 5],
    header: String,
    phi_to_wire: HashMap<u64, usize>,
}
fn tables() -> &'static Tables {
    static T: OnceLock<Tables> = OnceLock::new();
    T.get_or_init(|| {
        let wire_resp = verif_wire_response();
        let pad_resp = verif_pad_response();
        let factors = verif_neighbor_factors();
        let header = format!("avalanches {} | {} | {}", flist(&wire_resp), flist(&pad_resp), flist(&factors));
        let phi_to_wire = (0..TPC_ANODE_WIRES).map(|w| (TpcWirePosition::try_from(w).unwrap().phi().to_bits(), w)).collect();
        Tables { wire_resp, pad_resp, factors, header, phi_to_wire }
    })
}

fn request(ws: &Wires, ps: &Pads) -> String {
    let mut s = tables().header.clone();
    push_signals(&mut s, ws, ps);
    s
}

fn push_signals(s: &mut String, ws: &Wires, ps: &Pads) {
    s.push_str(" |");
    let mut any = false;
    for (w, sig) in ws.iter().enumerate() {
        if let Some(sig) = sig {
            s.push_str(&format!(" w{w}:{}", flist(sig)));
            any = true;
        }
    }
    if !any {
        s.push_str(" -");
    }
    s.push_str(" |");
    any = false;
    for (c, col) in ps.iter().enumerate() {
        for (r, sig) in col.iter().enumerate() {
            if let Some(sig) = sig {
                s.push_str(&format!(" p{c}.{r}:{}", flist(sig)));
                any = true;
            }
        }
    }
    if !any {
        s.push_str(" -");
    }
}

/// What `wire_range_deconvolution` returns for the ranges of the event.
fn deconv_inputs(ws: &Wires) -> Result<Wires, String> {
    guarded(|| {
        let mut wi = empty_wires();
        for range in verif_contiguous_ranges(ws) {
            for (i, input) in verif_wire_range_deconvolution(ws, range) {
                wi[i] = Some(input);
            }
        }
        wi
    })
}

/// Near-ties among the wire hits of one (time bin, pad column): pairs of wires whose deconvolved
/// amplitudes differ by at most `4·TOL·scale`. Which of the two is paired first is decided by the
/// last bits of the linear solve.
fn near_ties(inputs: &Wires, scale: f64) -> Vec<(usize, usize, usize)> {
    let mut out = Vec::new();
    let tmax = inputs.iter().flatten().map(|v| v.len()).max().unwrap_or(0);
    for c in 0..TPC_PAD_COLUMNS {
        let wires: Vec<usize> = verif_pad_column_to_wires(c).filter(|w| *w < TPC_ANODE_WIRES).collect();
        for t in 0..tmax {
            let hits: Vec<(usize, f64)> = wires.iter().filter_map(|&w| inputs[w].as_ref().and_then(|v| v.get(t)).copied().filter(|v| *v > 0.0).map(|v| (w, v))).collect();
            for i in 0..hits.len() {
                for j in i + 1..hits.len() {
                    if (hits[i].1 - hits[j].1).abs() <= 4.0 * TOL * scale && hits[i].1.max(hits[j].1) > DUST * scale {
                        out.push((t, hits[i].0, hits[j].0));
                    }
                }
            }
        }
    }
    out
}

/// The `avalanchesx` request of an event: the wires carry the implementation's deconvolved inputs.
fn request_exact(inputs: &Wires, ps: &Pads) -> String {
    let mut s = format!("avalanchesx {}", flist(&tables().pad_resp));
    push_signals(&mut s, inputs, ps);
    s
}

/// Canonical answer of the implementation and the independent judgement of it.
fn impl_answer(ws: &Wires, ps: &Pads) -> (String, Option<String>, usize) {
    let t = tables();
    let ev = MainEvent::verif_from_signals(ws.clone(), ps.clone(), 0);
    match guarded(|| ev.avalanches()) {
        Err(m) => (format!("panic {m}"), Some(format!("avalanches() panicked: {m}")), 0),
        Ok(av) => {
            let mut s = format!("ok {}", av.len());
            let mut why = None;
            let longest = ws.iter().flatten().map(|v| v.len()).max().unwrap_or(0);
            // pad columns facing an occupied wire
            let mut cols = [false; TPC_PAD_COLUMNS];
            for (w, sig) in ws.iter().enumerate() {
                if sig.is_some() {
                    cols[col_of(w)] = true;
                }
            }
            let mut seen = std::collections::HashSet::new();
            for a in &av {
                let tb = (a.t.value * 62.5e6).round() as i64;
                let w = t.phi_to_wire.get(&a.phi.value.to_bits()).copied();
                s.push_str(&format!(" {tb} {} {} {} {}", w.unwrap_or(999), fbits(a.z.value), fbits(a.wire_amplitude), fbits(a.pad_amplitude)));
                let Some(w) = w else {
                    why = Some(format!("avalanche phi {} is no wire's phi", a.phi.value));
                    continue;
                };
                if !cols[col_of(w)] {
                    why = Some(format!("avalanche on wire {w}, whose pad column faces no occupied wire"));
                }
                if tb < 0 || tb as usize >= longest {
                    why = Some(format!("avalanche time bin {tb} outside the longest wire signal ({longest} samples)"));
                }
                if !(a.wire_amplitude > 0.0) || !(a.pad_amplitude > 0.0) {
                    why = Some(format!("avalanche with a non-positive amplitude: {a:?}"));
                }
                if !seen.insert((tb, w)) {
                    why = Some(format!("two avalanches on wire {w} in time bin {tb}"));
                }
            }
            // declared near-ties (from the implementation's own deconvolved inputs)
            if let Ok(inputs) = deconv_inputs(ws) {
                let scale = av.iter().map(|a| a.wire_amplitude).fold(0.0, f64::max);
                let ties = near_ties(&inputs, scale);
                if !ties.is_empty() {
                    s.push_str(" ties");
                    for (t, a, b) in ties {
                        s.push_str(&format!(" {t}:{a}:{b}"));
                    }
                }
            }
            (s, why, av.len())
        }
    }
}

type Av = (i64, usize, f64, f64, f64);

/// `ok <m> <m x 5 fields> [ties <t>:<w>:<w> …]` → avalanches in the order given, declared ties.
fn parse_answer(s: &str) -> Option<(Vec<Av>, Vec<(i64, usize, usize)>)> {
    let (main, ties) = match s.split_once(" ties ") {
        Some((m, t)) => (m, t),
        None => (s, ""),
    };
    let mut it = main.split(' ');
    if it.next()? != "ok" {
        return None;
    }
    let m: usize = it.next()?.parse().ok()?;
    let rest: Vec<&str> = it.collect();
    if rest.len() != 5 * m {
        return None;
    }
    let mut v: Vec<Av> = Vec::with_capacity(m);
    for c in rest.chunks(5) {
        v.push((c[0].parse().ok()?, c[1].parse().ok()?, parse_f(c[2])?, parse_f(c[3])?, parse_f(c[4])?));
    }
    let mut tv = Vec::new();
    for tok in ties.split(' ').filter(|x| !x.is_empty()) {
        let f: Vec<&str> = tok.split(':').collect();
        if f.len() != 3 {
            return None;
        }
        tv.push((f[0].parse().ok()?, f[1].parse().ok()?, f[2].parse().ok()?));
    }
    Some((v, tv))
}

fn close_rel(a: f64, b: f64) -> bool {
    a == b || (a.is_nan() && b.is_nan()) || (a - b).abs() <= TOL * a.abs().max(b.abs())
}

/// The tolerance comparator installed as `Session::agree`.
fn agree(imp: &str, model: &str) -> bool {
    let (Some(a), Some(b)) = (imp.strip_prefix("ok "), model.strip_prefix("ok ")) else { return false };
    if !a.contains(' ') && !b.contains(' ') && a.len() >= 16 && b.len() >= 16 {
        // `cholsolve`: element-wise agreement of the two solutions
        return match (parse_flist(a), parse_flist(b)) {
            (Some(a), Some(b)) => a.len() == b.len() && a.iter().zip(&b).all(|(x, y)| (x - y).abs() <= 1e-12 * (1.0 + x.abs())),
            _ => false,
        };
    }
    match (parse_answer(imp), parse_answer(model)) {
        (Some((a, ties)), Some((b, _))) => {
            let scale = a.iter().chain(b.iter()).map(|x| x.3).fold(0.0, f64::max);
            let keep = |v: Vec<Av>| -> Vec<Av> { v.into_iter().filter(|x| !(x.3 <= DUST * scale)).collect() };
            let (a, b) = (keep(a), keep(b));
            // position by position in the order of the returned Vec (pad columns ascending, time
            // bins ascending, wire amplitude descending)
            let same = |x: &Av, y: &Av| {
                x.0 == y.0
                    && x.1 == y.1
                    && ((x.2 - y.2).abs() <= 1e-6 * (1.0 + x.2.abs()) || (x.2.is_nan() && y.2.is_nan()))
                    && ((x.3 - y.3).abs() <= 1e-6 * x.3.abs().max(y.3.abs()) || (x.3 - y.3).abs() <= TOL * scale)
            };
            // Fallback for chaotic sensitivity: faer's Cholesky and the model's differ in the last bits;
            // once in a few thousand events that difference flips a discrete choice of the greedy
            // sweep (the (offset, look-ahead) argmin or a `> 0` test) and a handful of avalanches of
            // one wire come out differently although every stage agrees on equal inputs (the stages
            // are compared separately: `cholsolve` to 1e-12, the sweep bit for bit in C17, everything
            // downstream of the deconvolution bit for bit by the `exact` request of this module).
            // Accept when at least 97% of the avalanches of each side have a partner on the other
            // (same wire and time bin, z and amplitude to 1e-6): a wrong formula changes nearly all.
            let partnered = |u: &Vec<Av>, v: &Vec<Av>| u.iter().filter(|x| v.iter().any(|y| same(x, y))).count();
            let mostly = a.len() >= 100
                && b.len() >= 100
                && partnered(&a, &b) * 100 >= a.len() * 97
                && partnered(&b, &a) * 100 >= b.len() * 97;
            mostly || a.len() == b.len()
                && a.iter().zip(&b).all(|(x, y)| {
                    x.0 == y.0
                        && (x.1 == y.1 || ties.iter().any(|t| t.0 == x.0 && ((t.1, t.2) == (x.1, y.1) || (t.2, t.1) == (x.1, y.1))))
                        && ((x.2 - y.2).abs() <= TOL * (1.0 + x.2.abs()) || (x.2.is_nan() && y.2.is_nan()))
                        && (close_rel(x.3, y.3) || (x.3 - y.3).abs() <= TOL * scale)
                        && close_rel(x.4, y.4)
                })
        }
        _ => false,
    }
}

fn add_event(s: &mut Session, gen: &'static str, ws: &Wires, ps: &Pads, total: &mut usize) {
    let (imp, why, n) = impl_answer(ws, ps);
    *total += n;
    // dust / tie statistics (informational)
    if let Some((v, ties)) = parse_answer(&imp) {
        let scale = v.iter().map(|x| x.3).fold(0.0, f64::max);
        let dust = v.iter().filter(|x| x.3 <= DUST * scale).count();
        for (key, k) in [("dust_avalanches_impl", dust), ("declared_near_ties", ties.len())] {
            let e = s.notes.entry(key.into()).or_insert(serde_json::json!(0));
            *e = serde_json::json!(e.as_u64().unwrap_or(0) + k as u64);
        }
    }
    match deconv_inputs(ws) {
        Ok(inputs) => {
            let main = imp.split(" ties ").next().unwrap_or("");
            s.push_oracle(gen, request_exact(&inputs, ps), main.replacen("ok ", "exact ", 1), None);
        }
        Err(m) => s.push_oracle(gen, "nfactors -".into(), "ok".into(), Some(format!("wire_range_deconvolution panicked: {m}"))),
    }
    s.push_oracle(gen, request(ws, ps), imp, why);
}

// ---------------------------------------------------------------- event builders
fn pulse_into(sig: &mut [f64], k: usize, a: f64, resp: &[f64]) {
    for j in k..sig.len() {
        if j - k < resp.len() {
            sig[j] += a * resp[j - k];
        }
    }
}

fn block(start: usize, len: usize) -> Vec<usize> {
    (0..len).map(|j| (start + j) % TPC_ANODE_WIRES).collect()
}

/// A charge cloud on the pads of `col` around `row` in time bin `k`.
fn pad_cloud(rng: &mut Rng, ps: &mut Pads, col: usize, row: usize, k: usize, b: f64, len: usize, noise: f64, shape: &[f64], jitter: bool) {
    let t = tables();
    let half = shape.len() / 2;
    for (d, f) in shape.iter().enumerate() {
        let r = row as isize + d as isize - half as isize;
        if r < 0 || r >= TPC_PAD_ROWS as isize {
            continue;
        }
        let slot = &mut ps[col][r as usize];
        let sig = slot.get_or_insert_with(|| (0..len).map(|_| if noise > 0.0 { noise * (2.0 * rng.f64_unit() - 1.0) } else { 0.0 }).collect());
        let a = if jitter { b * f * (0.9 + 0.2 * rng.f64_unit()) } else { b * f };
        pulse_into(sig, k, a, &t.pad_resp);
    }
}

/// Random hits on the wires `wires`: each wire 0..=2 avalanches with a pad cloud in its column;
/// `crosstalk`: the induced signals on the neighbours ±1..±4 (within the occupied wires) are
/// added as the detector does (this is what `a_matrix` undoes).
fn hit_event(rng: &mut Rng, wires: &[usize], noise: f64, differing_lengths: bool, crosstalk: bool) -> (Wires, Box<Pads>) {
    let t = tables();
    let mut ws = empty_wires();
    let mut ps = empty_pads();
    let base_len = rng.range(50, 120) as usize;
    let mut direct: HashMap<usize, Vec<f64>> = HashMap::new();
    let mut lens: HashMap<usize, usize> = HashMap::new();
    for &w in wires {
        let len = if differing_lengths && rng.below(3) == 0 { rng.range(20, base_len as u64) as usize } else { base_len };
        lens.insert(w, len);
        let mut sig = vec![0.0; base_len];
        for _ in 0..rng.below(3) {
            let k = rng.below((base_len - 15) as u64) as usize;
            let a = 10f64.powf(1.0 + 3.0 * rng.f64_unit());
            pulse_into(&mut sig, k, a, &t.wire_resp);
            let col = col_of(w);
            let row = rng.below(TPC_PAD_ROWS as u64) as usize;
            let b = 10f64.powf(2.0 + 2.0 * rng.f64_unit());
            let shape: &[f64] = if rng.bool() { &[0.45, 1.0, 0.35] } else { &[0.1, 0.5, 1.0, 0.6, 0.15] };
            pad_cloud(rng, &mut ps, col, row, k, b, base_len, noise, shape, true);
        }
        direct.insert(w, sig);
    }
    for &w in wires {
        let mut sig = vec![0.0; base_len];
        for d in -4i64..=4 {
            if d != 0 && !crosstalk {
                continue;
            }
            let src = (w as i64 + d).rem_euclid(TPC_ANODE_WIRES as i64) as usize;
            if let Some(v) = direct.get(&src) {
                let f = t.factors[d.unsigned_abs() as usize];
                for (a, x) in sig.iter_mut().zip(v) {
                    *a += f * x;
                }
            }
        }
        if noise > 0.0 {
            for x in sig.iter_mut() {
                *x += noise * (2.0 * rng.f64_unit() - 1.0);
            }
        }
        sig.truncate(lens[&w]);
        ws[w] = Some(sig);
    }
    (ws, ps)
}

/// Independent dense solve of `A·x = y` (Gaussian elimination with partial pivoting) for the
/// `cholsolve` request.
fn dense_solve(factors: &[f64], y: &[f64]) -> Vec<f64> {
    let n = y.len();
    let mut a: Vec<Vec<f64>> = (0..n)
        .map(|i| {
            let mut row: Vec<f64> = (0..n).map(|j| factors.get(i.abs_diff(j)).copied().unwrap_or(0.0)).collect();
            row.push(y[i]);
            row
        })
        .collect();
    for c in 0..n {
        let p = (c..n).max_by(|&i, &j| a[i][c].abs().total_cmp(&a[j][c].abs())).unwrap();
        a.swap(c, p);
        for r in c + 1..n {
            let f = a[r][c] / a[c][c];
            for k in c..=n {
                a[r][k] -= f * a[c][k];
            }
        }
    }
    let mut x = vec![0.0; n];
    for i in (0..n).rev() {
        let mut s = a[i][n];
        for j in i + 1..n {
            s -= a[i][j] * x[j];
        }
        x[i] = s / a[i][i];
    }
    x
}

pub fn generate(s: &mut Session, thorough: bool) -> bool {
    s.agree = Some(agree);
    let mut rng = Rng::new(s.seed);
    let t = tables();
    let n = TPC_ANODE_WIRES;
    let mut total = 0usize;

    // (0) the constants the theorems are about
    s.push_oracle("neighbour-factors", format!("nfactors {}", flist(&t.factors)), "ok".into(), {
        let dom = 2.0 * t.factors[1..].iter().map(|f| f.abs()).sum::<f64>();
        if t.factors[0] == 1.0 && dom < 1.0 { None } else { Some(format!("NEIGHBOR_FACTORS {:?} are not strictly diagonally dominant", t.factors)) }
    });
    // (0b) the model's Cholesky solve against an independent dense solve
    for i in 0..(if thorough { 400 } else { 60 }) {
        let len = if i < 45 { i + 1 } else { rng.range(1, 256) as usize };
        let y: Vec<f64> = (0..len).map(|_| 1000.0 * (2.0 * rng.f64_unit() - 1.0)).collect();
        let x = dense_solve(&t.factors, &y);
        s.push_oracle("cholesky-solve", format!("cholsolve {} {}", flist(&t.factors), flist(&y)), format!("ok {}", flist(&x)), None);
    }

    // (a) random hit patterns on one block of 1..=40 contiguous wires (every length once, every
    // seam position once), plus multi-block patterns
    let reps = if thorough { 10 } else { 1 };
    for rep in 0..reps {
        for len in 1..=40usize {
            let start = match (len + rep) % 4 {
                0 => (n - rng.range(1, len as u64) as usize) % n, // across the 255/0 seam
                1 => n - len,                                      // ends at wire 255
                2 => 0,                                            // starts at wire 0
                _ => rng.below(n as u64) as usize,
            };
            let noise = *rng.pick(&[0.0, 0.5, 2.0]);
            let (dl, ct) = (rng.bool(), rng.bool());
            let (ws, ps) = hit_event(&mut rng, &block(start, len), noise, dl, ct);
            add_event(s, "block-1-40", &ws, &ps, &mut total);
        }
        for i in 0..(if thorough { 30 } else { 12 }) {
            let p = *rng.pick(&[0.03, 0.1, 0.3]);
            let mut wires: Vec<usize> = (0..n).filter(|_| rng.f64_unit() < p).collect();
            if i % 3 == 0 {
                wires.extend(block(n - 3, 7));
            }
            if i % 4 == 1 {
                for _ in 0..rng.range(1, 4) {
                    wires.extend(block(rng.below(n as u64) as usize, rng.range(3, 12) as usize));
                }
            }
            wires.sort();
            wires.dedup();
            let noise = *rng.pick(&[0.0, 0.5]);
            let ct = rng.bool();
            let (ws, ps) = hit_event(&mut rng, &wires, noise, true, ct);
            add_event(s, "multi-block", &ws, &ps, &mut total);
        }
    }

    // (b) simulated track events through the real decoder
    let mut sim_ok = 0usize;
    let n_sim = if thorough { 40 } else { 4 };
    for i in 0..n_sim {
        let mut cfg = sim::SimConfig::default();
        if i % 2 == 1 {
            cfg.noise_adc = 3.0;
        }
        let mut r = sim::event_rng(s.seed ^ 0xC13B, i);
        // the simulator cross-checks the geometry hooks when it builds its detector description
        let ev = match guarded(|| sim::simulate_event(&mut r, &cfg)) {
            Ok(ev) => ev,
            Err(m) => {
                s.push_oracle("sim-tracks", "nfactors -".into(), "ok".into(), Some(format!("the forward model rejects the library's geometry: {m}")));
                continue;
            }
        };
        match guarded(|| MainEvent::try_from_banks(sim::SIM_RUN, ev.bank_refs())) {
            Ok(Ok(me)) => {
                sim_ok += 1;
                let (ws, ps) = me.verif_signals();
                let ws = ws.clone();
                let ps: Box<Pads> = Box::new(ps.clone());
                add_event(s, "sim-tracks", &ws, &ps, &mut total);
            }
            Ok(Err(e)) => s.push_oracle("sim-tracks", "nfactors -".into(), "ok".into(), Some(format!("simulated event {i} rejected by try_from_banks: {e}"))),
            Err(m) => s.push_oracle("sim-tracks", "nfactors -".into(), "ok".into(), Some(format!("try_from_banks panicked on simulated event {i}: {m}"))),
        }
    }
    s.notes.insert("sim_events_decoded".into(), sim_ok.into());

    // (c) degenerate events
    {
        // nothing at all
        add_event(s, "degenerate", &empty_wires(), &empty_pads(), &mut total);
        // wires without pads
        let (ws, _) = hit_event(&mut rng, &block(10, 6), 0.0, false, true);
        add_event(s, "degenerate", &ws, &empty_pads(), &mut total);
        // pads without wires
        let (_, ps) = hit_event(&mut rng, &block(10, 6), 0.0, false, true);
        add_event(s, "degenerate", &empty_wires(), &ps, &mut total);
        // pads in a column that faces no occupied wire
        {
            let (ws, mut ps) = hit_event(&mut rng, &block(40, 3), 0.5, false, false);
            let other = (col_of(40) + 5) % TPC_PAD_COLUMNS;
            pad_cloud(&mut rng, &mut ps, other, 200, 20, 800.0, 60, 0.0, &[0.4, 1.0, 0.3], true);
            add_event(s, "degenerate", &ws, &ps, &mut total);
        }
        // empty and very short signals (shorter than any window), a block of empty signals only
        {
            let mut ws = empty_wires();
            let mut ps = empty_pads();
            ws[5] = Some(vec![]);
            ws[6] = Some(vec![-3.0]);
            ws[7] = Some(vec![-1.0, -2.0]);
            ws[100] = Some(vec![]);
            ws[101] = Some(vec![]);
            ps[col_of(6)][10] = Some(vec![]);
            ps[col_of(6)][11] = Some(vec![5.0, 4.0]);
            add_event(s, "degenerate", &ws, &ps, &mut total);
        }
        // plateaus and equal amplitudes: pad triplets with first == middle, middle == last, two
        // clouds of exactly equal amplitude, two wires of exactly equal amplitude in one column
        // and time bin, a zero neighbour row
        for variant in 0..6 {
            let mut ws = empty_wires();
            let mut ps = empty_pads();
            let len = 80;
            let first = verif_pad_column_to_wires(3).start % (TPC_ANODE_WIRES - 8);
            let amps: [f64; 3] = if variant % 2 == 0 { [500.0, 500.0, 250.0] } else { [400.0, 300.0, 300.0] };
            for (j, a) in amps.iter().enumerate() {
                let mut v = vec![0.0; len];
                // wires two apart: separate blocks, no cross-talk mixing; adjacent: one block
                let w = if variant < 3 { first + 2 * j } else { first + j };
                pulse_into(&mut v, 25, *a, &t.wire_resp);
                ws[w] = Some(v);
            }
            let shapes: [&[f64]; 3] = [&[1.0, 1.0, 0.3], &[0.3, 1.0, 1.0], &[0.5, 1.0, 0.25]];
            for (j, row) in [100usize, 300, 450].iter().enumerate() {
                let shape = if variant % 3 == 0 { shapes[j] } else { shapes[2] };
                pad_cloud(&mut rng, &mut ps, 3, *row, 25, 1000.0, len, 0.0, shape, false);
            }
            add_event(s, "degenerate", &ws, &ps, &mut total);
        }
        // more than 20 pad hits of exactly equal amplitude in one (column, time bin): beyond the
        // insertion-sort threshold of `sort_unstable_by`
        {
            let mut ws = empty_wires();
            let mut ps = empty_pads();
            let len = 70;
            let first = verif_pad_column_to_wires(5).start % (TPC_ANODE_WIRES - 8);
            for j in 0..8 {
                let mut v = vec![0.0; len];
                pulse_into(&mut v, 20, 100.0 * (j + 1) as f64, &t.wire_resp);
                ws[first + j] = Some(v);
            }
            for k in 0..26 {
                pad_cloud(&mut rng, &mut ps, 5, 10 + 20 * k, 20, 1000.0, len, 0.0, &[0.5, 1.0, 0.25], false);
            }
            add_event(s, "degenerate", &ws, &ps, &mut total);
        }
        // peaks on the first / last pad rows, hits in the last bins of the waveform
        {
            let mut ws = empty_wires();
            let mut ps = empty_pads();
            let len = 64;
            let w = (verif_pad_column_to_wires(31).start + 7) % TPC_ANODE_WIRES;
            let mut v = vec![0.0; len];
            pulse_into(&mut v, 2, 300.0, &t.wire_resp);
            pulse_into(&mut v, len - 6, 800.0, &t.wire_resp);
            ws[w] = Some(v);
            for (row, k) in [(0usize, 2usize), (1, 2), (TPC_PAD_ROWS - 1, 2), (TPC_PAD_ROWS - 2, len - 6)] {
                pad_cloud(&mut rng, &mut ps, 31, row, k, 2000.0, len, 0.0, &[0.4, 1.0, 0.3], true);
            }
            add_event(s, "degenerate", &ws, &ps, &mut total);
        }
        // non-finite samples
        for bad in [f64::NAN, f64::INFINITY, f64::NEG_INFINITY] {
            let (mut ws, mut ps) = hit_event(&mut rng, &block(60, 5), 0.5, false, true);
            if let Some(v) = ws[62].as_mut() {
                v[10] = bad;
            }
            if let Some(v) = ps[col_of(62)].iter_mut().flatten().next() {
                v[12] = bad;
            }
            add_event(s, "non-finite", &ws, &ps, &mut total);
        }
        // one free wire / the full ring (a 255- and a 256-wire block)
        for free in [Some(rng.below(n as u64) as usize), None] {
            let wires: Vec<usize> = (0..n).filter(|w| Some(*w) != free).collect();
            let (ws, ps) = hit_event(&mut rng, &wires, 0.5, false, true);
            add_event(s, "large-block", &ws, &ps, &mut total);
        }
    }
    s.notes.insert("avalanches_total".into(), total.into());
    s.notes.insert("tolerance_relative".into(), TOL.into());
    true
}

/// Replay entry: answer one request line of this module on the implementation.
pub fn run_request(cmd: &str, args: &[&str]) -> Option<String> {
    match cmd {
        "nfactors" => {
            let f = parse_flist(args.first()?)?;
            Some(if f.iter().map(|x| x.to_bits()).eq(verif_neighbor_factors().iter().map(|x| x.to_bits())) { "ok".into() } else { "err mismatch".into() })
        }
        "cholsolve" => {
            let f = parse_flist(args.first()?)?;
            let y = parse_flist(args.get(1)?)?;
            Some(format!("ok {}", flist(&dense_solve(&f, &y))))
        }
        "avalanchesx" => {
            // the deconvolved wire inputs cannot be fed to the built code; replay the `avalanches`
            // request of the same event instead
            Some("unsupported-request".into())
        }
        "avalanches" => {
            let groups: Vec<Vec<&str>> = args.split(|a| *a == "|").map(|g| g.iter().copied().filter(|x| !x.is_empty() && *x != "-").collect()).collect();
            if groups.len() != 5 {
                return Some("unsupported-request".into());
            }
            let t = tables();
            let same = |g: &Vec<&str>, v: &[f64]| g.len() == 1 && parse_flist(g[0]).map(|x| x.iter().map(|y| y.to_bits()).eq(v.iter().map(|y| y.to_bits()))).unwrap_or(false);
            if !(same(&groups[0], &t.wire_resp) && same(&groups[1], &t.pad_resp) && same(&groups[2], &t.factors)) {
                // the built code cannot run with other tables
                return Some("unsupported-request".into());
            }
            let mut ws = empty_wires();
            let mut ps = empty_pads();
            for tok in &groups[3] {
                let (h, v) = tok.split_once(':')?;
                let w: usize = h.strip_prefix('w')?.parse().ok()?;
                if w >= TPC_ANODE_WIRES {
                    return Some("unsupported-request".into());
                }
                ws[w] = Some(parse_flist(v)?);
            }
            for tok in &groups[4] {
                let (h, v) = tok.split_once(':')?;
                let (c, r) = h.strip_prefix('p')?.split_once('.')?;
                let (c, r): (usize, usize) = (c.parse().ok()?, r.parse().ok()?);
                if c >= TPC_PAD_COLUMNS || r >= TPC_PAD_ROWS {
                    return Some("unsupported-request".into());
                }
                ps[c][r] = Some(parse_flist(v)?);
            }
            Some(impl_answer(&ws, &ps).0)
        }
        _ => None,
    }
}
