//! Forward model of the detector (placeholder; being written).
pub fn stats(_seed: u64, _n: usize, _out: &str) {}
