//! Independent forward model of the ALPHA-g rTPC ("simulated annihilations"), used as an event
//! generator by other harness modules (C09, C11, C13, C19) and to *measure* the statistics that
//! property C12 talks about (`corr simstats`). Nothing in here is a claim about the library.
//!
//! The model (all lengths in metres, times in seconds, angles in radians):
//!
//! * 2–4 helices (axis parallel to z) leave a common vertex with |x|,|y| ≤ 1 cm, |z| ≤ 0.8 m.
//!   Per track: uniform azimuth of the initial direction, curvature radius 0.3–3.3 m, either
//!   charge (sense of rotation = −charge, field along +z), dz/ds ∈ [−0.8, 0.8] where s is the
//!   arc length of the projection on the x-y plane.
//! * Each helix is followed outwards in 30 µm arc steps. Inside the drift volume (inner cathode
//!   0.1092 m → anode wires 0.182 m) every step deposits an ionisation charge proportional to
//!   its 3-D length (uniform dE/dx, no fluctuations).
//! * A deposit at (r, φ, z) drifts with the *shipped drift table* of its z-slice read backwards
//!   (radius → drift time, linear interpolation; time 0 at the anode) and arrives at the anode
//!   at azimuth φ + Lorentz angle(t) (the reconstruction subtracts that angle), on the nearest
//!   anode wire, in time bin round(t / 16 ns).
//! * Wire signal = Σ charge × shipped wire response (16 ns bins) shifted to the time bin; every
//!   wire also receives the induced signals of its neighbours ±1..±4 scaled by the shipped
//!   neighbour factors.
//! * Pad signal: only on the pad column facing the wire; the charge (× `PAD_TO_WIRE_CHARGE`) is
//!   spread over the pad rows with a Gaussian of width σ_z integrated over each 4 mm pad, then
//!   × shipped pad response (sign convention of the library: negative-going).
//! * Digitisation inverts the simulation-run calibration (`raw = signal / gain + baseline`,
//!   rounded, clamped to the ADC ranges), `delay` baseline samples are prepended, and everything
//!   is packed into spec-conformant banks under run number `u32::MAX`: one ADC v3 packet
//!   (suppression off, footer baseline = floor mean of the first 64 samples) per wire with signal
//!   (bank `C<board><0-9A-V>`), one PWB v2 packet per (board, AFTER chip) with all fired pads, cut
//!   into CRC-valid chunks (banks `PC<board>`), one TRG packet (bank `ATAT`).
//!
//! What is taken from the library: the response functions, neighbour factors, drift tables,
//! calibration constants (through the `alpha_g_verif` hooks) and the *public* channel maps
//! (`TpcWirePosition::try_new / phi`, `TpcPadPosition::try_new`, `TpcPadRow::z`). The geometry of
//! "which wire / pad column / pad row faces an azimuth / height" is computed here from the
//! documented pitches and cross-checked against those public accessors when the detector
//! description is built.
use crate::Rng;
use alpha_g_detector::alpha16::aw_map::{
    TpcWirePosition, ANODE_WIRES_RADIUS, INNER_CATHODE_RADIUS, TPC_ANODE_WIRES,
};
use alpha_g_detector::alpha16::{self, Adc32ChannelId, ADC32_RATE, ADC_MAX, ADC_MIN};
use alpha_g_detector::padwing::map::{
    TpcPadPosition, TpcPadRow, DETECTOR_LENGTH, PAD_PITCH_Z, TPC_PAD_COLUMNS, TPC_PAD_ROWS,
};
use alpha_g_detector::padwing::{self, AfterId, PWB_MAX, PWB_MIN, PWB_RATE};
use alpha_g_physics::verif as hooks;
use alpha_g_physics::MainEvent;
use std::collections::BTreeMap;
use std::f64::consts::{PI, TAU};
use std::sync::OnceLock;

// The packet encoders of the decoder properties are reused. When this module is built without
// their cargo features, private copies are compiled instead.
#[cfg(feature = "c02")]
use crate::c02;
#[cfg(not(feature = "c02"))]
#[path = "c02.rs"]
#[allow(dead_code, unused_imports)]
mod c02;
#[cfg(feature = "c04")]
use crate::c04;
#[cfg(not(feature = "c04"))]
#[path = "c04.rs"]
#[allow(dead_code, unused_imports)]
mod c04;
#[cfg(feature = "c05")]
use crate::c05;
#[cfg(not(feature = "c05"))]
#[path = "c05.rs"]
#[allow(dead_code, unused_imports)]
mod c05;
#[cfg(feature = "c06")]
use crate::c06;
#[cfg(not(feature = "c06"))]
#[path = "c06.rs"]
#[allow(dead_code, unused_imports)]
mod c06;

/// Run number of simulated data.
pub const SIM_RUN: u32 = u32::MAX;
/// Number of signal samples (after the calibration delay) of every simulated waveform.
pub const SIGNAL_SAMPLES: usize = 410;
/// Pad charge per unit of wire charge (the library never compares the two scales; it only
/// sorts wire hits and pad hits by amplitude).
pub const PAD_TO_WIRE_CHARGE: f64 = 10.0;
/// Path length that deposits one `amplitude` unit of wire charge (mean radial extent of one
/// 16 ns time bin: 7.28 cm of drift in ≈ 268 bins).
pub const REF_PATH: f64 = 0.27e-3;
/// Arc step (projection on the x-y plane) of the helix integration.
const STEP: f64 = 30e-6;
/// Payload bytes per PWB chunk.
const CHUNK_PAYLOAD: usize = 1024;

#[derive(Clone, Debug, PartialEq)]
pub struct SimTrack {
    /// azimuth of the initial direction (at the vertex), [0, 2π)
    pub phi0: f64,
    /// curvature radius of the projection on the x-y plane, metres
    pub radius: f64,
    /// +1 / −1; the helix turns clockwise (seen from +z) for +1
    pub charge: i8,
    /// dz per unit arc length of the x-y projection
    pub dz_ds: f64,
}

#[derive(Clone, Debug)]
pub struct SimEvent {
    /// bank name, data; ready for `MainEvent::try_from_banks(u32::MAX, …)`
    pub banks: Vec<(String, Vec<u8>)>,
    /// true vertex, metres
    pub vertex: [f64; 3],
    pub tracks: Vec<SimTrack>,
    pub trg_timestamp: u32,
    /// per-event avalanche amplitude and pad charge width actually drawn
    pub amplitude: f64,
    pub pad_sigma_z: f64,
    /// number of samples that hit an ADC rail (0 for the default configuration, almost always)
    pub clamped_samples: usize,
}

impl SimEvent {
    /// The banks in the form `try_from_banks` takes.
    pub fn bank_refs(&self) -> Vec<(&str, &[u8])> {
        self.banks.iter().map(|(n, d)| (n.as_str(), d.as_slice())).collect()
    }
}

#[derive(Clone, Debug)]
pub struct SimConfig {
    /// inclusive range of the number of tracks
    pub n_tracks: (usize, usize),
    /// range of the per-event avalanche amplitude: wire charge (in units of the wire response)
    /// deposited per `REF_PATH` of track
    pub amplitude: (f64, f64),
    /// range of the per-event Gaussian width (metres) of the pad charge along z
    pub pad_sigma_z: (f64, f64),
    /// r.m.s. of Gaussian electronic noise in ADC counts added to every sample of every channel
    /// that has a bank; 0 = noise-free
    pub noise_adc: f64,
}

impl Default for SimConfig {
    fn default() -> Self {
        SimConfig { n_tracks: (2, 4), amplitude: (4.0, 12.0), pad_sigma_z: (0.003, 0.006), noise_adc: 0.0 }
    }
}

// ------------------------------------------------------------------------------------------
// static detector description

struct WireSrc {
    bank: String,
    mac: [u8; 6],
    channel: u8,
    baseline: i16,
    gain: f64,
}

#[derive(Clone, Copy)]
struct PadSrc {
    board: usize,
    chip: u8,
    readout: u16,
    baseline: i16,
    gain: f64,
}

struct DriftSlice {
    z_upper: f64,
    /// (time, radius, Lorentz angle), time ascending
    rows: Vec<(f64, f64, f64)>,
    /// radius strictly decreasing with time → binary search is valid
    monotone: bool,
}

struct Detector {
    wire_resp: Vec<f64>,
    pad_resp: Vec<f64>,
    neighbours: [f64; 5],
    drift: Vec<DriftSlice>,
    /// azimuthal slot k (wire at (k + ½)·2π/256) → library wire index
    wire_of_slot: Vec<usize>,
    /// by library wire index
    wire_src: Vec<WireSrc>,
    /// by column·576 + row
    pad_src: Vec<Option<PadSrc>>,
    /// (name, MAC, device id)
    pwb_boards: Vec<(String, [u8; 6], u32)>,
    wire_delay: usize,
    pad_delay: usize,
}

const WIRE_PITCH: f64 = TAU / TPC_ANODE_WIRES as f64;
const PAD_PITCH_PHI: f64 = TAU / TPC_PAD_COLUMNS as f64;
const B32: &[u8; 32] = b"0123456789ABCDEFGHIJKLMNOPQRSTUV";

fn detector() -> &'static Detector {
    static D: OnceLock<Detector> = OnceLock::new();
    D.get_or_init(build_detector)
}

fn build_detector() -> Detector {
    assert!(ADC32_RATE == PWB_RATE, "wire and pad time bins are assumed to be the same");
    // wires: every (board, channel) through the public map
    let mut wire_src: Vec<Option<WireSrc>> = (0..TPC_ANODE_WIRES).map(|_| None).collect();
    for i in 0..100 {
        let name = format!("{i:02}");
        let Ok(board) = alpha16::BoardId::try_from(name.as_str()) else { continue };
        for ch in 0..32u8 {
            let Ok(pos) = TpcWirePosition::try_new(SIM_RUN, board, Adc32ChannelId::try_from(ch).unwrap()) else {
                continue;
            };
            let idx = usize::from(pos);
            assert!(wire_src[idx].is_none(), "wire map is not injective");
            wire_src[idx] = Some(WireSrc {
                bank: format!("C{name}{}", B32[ch as usize] as char),
                mac: board.mac_address(),
                channel: ch,
                baseline: hooks::wire_baseline(SIM_RUN, pos).expect("simulation wire baseline"),
                gain: hooks::wire_gain(SIM_RUN, pos).expect("simulation wire gain"),
            });
        }
    }
    let wire_src: Vec<WireSrc> = wire_src.into_iter().map(|w| w.expect("wire without a channel")).collect();
    // azimuthal slots: wire k sits at (k + ½)·pitch for exactly one library index
    let mut wire_of_slot = vec![usize::MAX; TPC_ANODE_WIRES];
    for idx in 0..TPC_ANODE_WIRES {
        let phi = TpcWirePosition::try_from(idx).unwrap().phi();
        let k = (phi / WIRE_PITCH).floor() as usize;
        assert!(k < TPC_ANODE_WIRES && wire_of_slot[k] == usize::MAX, "two wires in one azimuthal slot");
        assert!((phi - (k as f64 + 0.5) * WIRE_PITCH).abs() < 1e-9, "wire not at the centre of its slot");
        wire_of_slot[k] = idx;
    }
    // the pad column facing a wire, geometrically, against the library's table
    for (k, &idx) in wire_of_slot.iter().enumerate() {
        let col = column_of_slot(k);
        assert_eq!(col, hooks::verif_wire_to_pad_column(idx), "pad column facing wire slot {k}");
        assert!(hooks::verif_pad_column_to_wires(col).any(|w| w & 0xff == idx));
    }
    // pad rows: z of the row centre
    for row in [0usize, 1, 287, 288, 575] {
        let z = TpcPadRow::try_from(row).unwrap().z();
        assert!((z - ((row as f64 + 0.5) * PAD_PITCH_Z - 0.5 * DETECTOR_LENGTH)).abs() < 1e-12);
    }
    // pads
    let pwb_boards = c05::boards_cached().clone();
    let mut pad_src: Vec<Option<PadSrc>> = vec![None; TPC_PAD_COLUMNS * TPC_PAD_ROWS];
    for (bi, (name, _, _)) in pwb_boards.iter().enumerate() {
        let board = padwing::BoardId::try_from(name.as_str()).unwrap();
        for chip in 0..4u8 {
            let after = AfterId::try_from(chip).unwrap();
            for readout in 1..=79u16 {
                let Ok(padwing::ChannelId::Pad(pc)) = padwing::ChannelId::try_from(readout) else { continue };
                let Ok(pos) = TpcPadPosition::try_new(SIM_RUN, board, after, pc) else { continue };
                let slot = usize::from(pos.column) * TPC_PAD_ROWS + usize::from(pos.row);
                assert!(pad_src[slot].is_none(), "pad map is not injective");
                pad_src[slot] = Some(PadSrc {
                    board: bi,
                    chip,
                    readout,
                    baseline: hooks::pad_baseline(SIM_RUN, pos).expect("simulation pad baseline"),
                    gain: hooks::pad_gain(SIM_RUN, pos).expect("simulation pad gain"),
                });
            }
        }
    }
    assert!(pad_src.iter().all(|p| p.is_some()), "pad without a channel");
    let drift = hooks::verif_drift_tables()
        .into_iter()
        .map(|(rows, z_upper)| {
            let monotone = rows.windows(2).all(|w| w[1].1 < w[0].1 && w[1].0 > w[0].0);
            DriftSlice { z_upper, rows, monotone }
        })
        .collect();
    Detector {
        wire_resp: hooks::verif_wire_response(),
        pad_resp: hooks::verif_pad_response(),
        neighbours: hooks::verif_neighbor_factors(),
        drift,
        wire_of_slot,
        wire_src,
        pad_src,
        pwb_boards,
        wire_delay: hooks::wire_delay(SIM_RUN).expect("simulation wire delay"),
        pad_delay: hooks::pad_delay(SIM_RUN).expect("simulation pad delay"),
    }
}

/// Pad column whose azimuthal range contains the wire of slot `k`.
fn column_of_slot(k: usize) -> usize {
    (((k as f64 + 0.5) * WIRE_PITCH) / PAD_PITCH_PHI).floor() as usize
}

impl Detector {
    /// Drift time and Lorentz angle of an ionisation at radius `r`, height `z` (`None`: outside
    /// the tabulated volume).
    fn drift(&self, r: f64, z: f64) -> Option<(f64, f64)> {
        let za = z.abs();
        let slice = self.drift.iter().find(|s| s.z_upper >= za)?;
        let rows = &slice.rows;
        if r >= rows[0].1 {
            // between the last tabulated radius and the wire: arrives immediately
            return Some((rows[0].0, rows[0].2));
        }
        if r < rows[rows.len() - 1].1 {
            return None;
        }
        let i = if slice.monotone {
            // first index with radius <= r
            rows.partition_point(|row| row.1 > r)
        } else {
            rows.iter().position(|row| row.1 <= r)?
        };
        let (t0, r0, c0) = rows[i - 1];
        let (t1, r1, c1) = rows[i];
        let f = if r1 == r0 { 0.0 } else { (r - r0) / (r1 - r0) };
        Some((t0 + f * (t1 - t0), c0 + f * (c1 - c0)))
    }
}

// ------------------------------------------------------------------------------------------
// small numerics

/// Complementary error function (Chebyshev fit, fractional error < 1.2e-7 everywhere).
fn erfc(x: f64) -> f64 {
    let z = x.abs();
    let t = 1.0 / (1.0 + 0.5 * z);
    let poly = -1.26551223
        + t * (1.00002368
            + t * (0.37409196
                + t * (0.09678418
                    + t * (-0.18628806
                        + t * (0.27886807 + t * (-1.13520398 + t * (1.48851587 + t * (-0.82215223 + t * 0.17087277))))))));
    let ans = t * (-z * z + poly).exp();
    if x >= 0.0 {
        ans
    } else {
        2.0 - ans
    }
}

/// Gaussian cumulative distribution function.
fn gauss_cdf(x: f64) -> f64 {
    0.5 * erfc(-x / std::f64::consts::SQRT_2)
}

fn uniform(rng: &mut Rng, lo: f64, hi: f64) -> f64 {
    lo + (hi - lo) * rng.f64_unit()
}

fn gaussian(rng: &mut Rng) -> f64 {
    // Box–Muller; 1 − u ∈ (0, 1]
    let u = 1.0 - rng.f64_unit();
    let v = rng.f64_unit();
    (-2.0 * u.ln()).sqrt() * (TAU * v).cos()
}

// ------------------------------------------------------------------------------------------
// the event

/// Ionisation charge per (wire slot, time bin) and per (pad column, pad row, time bin).
#[derive(Default)]
struct Charges {
    wires: BTreeMap<usize, Vec<f64>>,
    pads: BTreeMap<(usize, usize), Vec<f64>>,
}

fn deposit_track(det: &Detector, vertex: [f64; 3], tr: &SimTrack, amplitude: f64, sigma_z: f64, out: &mut Charges) {
    // sense of rotation: counter-clockwise for negative charge (field along +z)
    let q = -f64::from(tr.charge);
    let (sin0, cos0) = tr.phi0.sin_cos();
    let cx = vertex[0] - q * tr.radius * sin0;
    let cy = vertex[1] + q * tr.radius * cos0;
    let theta0 = tr.phi0 - q * PI / 2.0;
    let dl = STEP * (1.0 + tr.dz_ds * tr.dz_ds).sqrt();
    let charge = amplitude * dl / REF_PATH;
    let half_length = 0.5 * DETECTOR_LENGTH;
    let reach = (4.0 * sigma_z / PAD_PITCH_Z).ceil() as i64 + 1;
    let inv_sigma = 1.0 / sigma_z;
    let bin_width = 1.0 / ADC32_RATE;
    let mut cdf = Vec::with_capacity(2 * reach as usize + 2);
    // a circle of radius ≥ 0.3 m through a point ≤ 1.5 cm from the axis leaves the anode radius
    // after less than 0.25 m of arc
    let n_steps = (0.30 / STEP) as usize;
    for i in 0..n_steps {
        let s = (i as f64 + 0.5) * STEP;
        let a = theta0 + q * s / tr.radius;
        let x = cx + tr.radius * a.cos();
        let y = cy + tr.radius * a.sin();
        let r = x.hypot(y);
        if r < INNER_CATHODE_RADIUS {
            continue;
        }
        if r > ANODE_WIRES_RADIUS {
            break;
        }
        let z = vertex[2] + tr.dz_ds * s;
        if z.abs() >= half_length {
            continue;
        }
        let Some((t, lorentz)) = det.drift(r, z) else { continue };
        let bin = (t / bin_width).round() as usize;
        if bin >= SIGNAL_SAMPLES {
            continue;
        }
        let phi = (y.atan2(x) + lorentz).rem_euclid(TAU);
        let slot = ((phi / WIRE_PITCH).floor() as usize).min(TPC_ANODE_WIRES - 1);
        out.wires.entry(slot).or_insert_with(|| vec![0.0; SIGNAL_SAMPLES])[bin] += charge;
        // pads of the facing column
        let column = column_of_slot(slot);
        let centre = ((z + half_length) / PAD_PITCH_Z).floor() as i64;
        let lo = (centre - reach).max(0);
        let hi = (centre + reach).min(TPC_PAD_ROWS as i64 - 1);
        cdf.clear();
        for row in lo..=hi + 1 {
            let edge = row as f64 * PAD_PITCH_Z - half_length;
            cdf.push(gauss_cdf((edge - z) * inv_sigma));
        }
        for row in lo..=hi {
            let k = (row - lo) as usize;
            let fraction = cdf[k + 1] - cdf[k];
            if fraction > 0.0 {
                out.pads.entry((column, row as usize)).or_insert_with(|| vec![0.0; SIGNAL_SAMPLES])[bin] +=
                    charge * PAD_TO_WIRE_CHARGE * fraction;
            }
        }
    }
}

/// Σ_b input[b] · response[k − b] for k < `SIGNAL_SAMPLES`.
fn convolve(input: &[f64], response: &[f64]) -> Vec<f64> {
    let mut out = vec![0.0; SIGNAL_SAMPLES];
    for (b, &a) in input.iter().enumerate() {
        if a == 0.0 {
            continue;
        }
        for (o, r) in out[b..].iter_mut().zip(response) {
            *o += a * r;
        }
    }
    out
}

/// `delay` baseline samples followed by the digitised signal; returns the number of clamped
/// samples as well.
#[allow(clippy::too_many_arguments)]
fn digitise(
    rng: &mut Rng,
    signal: &[f64],
    baseline: i16,
    gain: f64,
    delay: usize,
    noise: f64,
    min: i16,
    max: i16,
) -> (Vec<i16>, usize) {
    let mut clamped = 0;
    let mut wave = Vec::with_capacity(delay + signal.len());
    let (lo, hi) = (f64::from(min), f64::from(max));
    for i in 0..delay + signal.len() {
        let s = if i < delay { 0.0 } else { signal[i - delay] };
        let mut v = s / gain + f64::from(baseline);
        if noise > 0.0 {
            v += noise * gaussian(rng);
        }
        let v = v.round();
        if v < lo || v > hi {
            clamped += 1;
        }
        wave.push(v.clamp(lo, hi) as i16);
    }
    (wave, clamped)
}

fn adc_packet(rng: &mut Rng, src: &WireSrc, wave: Vec<i16>, trigger: u16, timestamp: u64) -> Vec<u8> {
    assert!(wave.len() >= 64);
    let f = c02::Fields {
        trig: trigger,
        module: rng.below(8) as u8,
        chan: 128 + src.channel,
        req: (wave.len() + 2) as u16,
        ts: timestamp,
        mac: Some(src.mac),
        trig_off: -(rng.below(1000) as i32),
        build: 0x6000_0000 + rng.below(1 << 20) as u32,
        baseline: c02::floor_baseline(&wave) as i16,
        wave,
        keep_last: 0,
        keep_bit: false,
        supp: false,
    };
    c02::encode(&f)
}

/// What an event is made of (the "Monte Carlo truth"). `simulate_truth` turns it into banks, so
/// that a caller can also simulate a transformed copy (rotated, mirrored, …) of an event.
#[derive(Clone, Debug, PartialEq)]
pub struct SimTruth {
    /// metres
    pub vertex: [f64; 3],
    pub tracks: Vec<SimTrack>,
    /// wire charge (units of the wire response) deposited per `REF_PATH` of track
    pub amplitude: f64,
    /// Gaussian width (metres) of the pad charge along z
    pub pad_sigma_z: f64,
    pub trg_timestamp: u32,
}

/// Draw the truth of one event from the distribution C12 describes.
pub fn draw_truth(rng: &mut Rng, cfg: &SimConfig) -> SimTruth {
    let vertex = [uniform(rng, -0.01, 0.01), uniform(rng, -0.01, 0.01), uniform(rng, -0.8, 0.8)];
    let n_tracks = rng.range(cfg.n_tracks.0 as u64, cfg.n_tracks.1.max(cfg.n_tracks.0) as u64) as usize;
    let amplitude = uniform(rng, cfg.amplitude.0, cfg.amplitude.1);
    let pad_sigma_z = uniform(rng, cfg.pad_sigma_z.0, cfg.pad_sigma_z.1);
    let tracks: Vec<SimTrack> = (0..n_tracks)
        .map(|_| SimTrack {
            phi0: uniform(rng, 0.0, TAU),
            radius: uniform(rng, 0.3, 3.3),
            charge: if rng.bool() { 1 } else { -1 },
            dz_ds: uniform(rng, -0.8, 0.8),
        })
        .collect();
    let trg_timestamp = rng.next() as u32;
    SimTruth { vertex, tracks, amplitude, pad_sigma_z, trg_timestamp }
}

/// One event of the forward model. Everything random comes from `rng`; the same `rng` state and
/// configuration give the same event, byte for byte.
pub fn simulate_event(rng: &mut Rng, cfg: &SimConfig) -> SimEvent {
    let truth = draw_truth(rng, cfg);
    simulate_truth(rng, &truth, cfg.noise_adc)
}

/// Signals and banks of a given truth. `rng` only supplies the packet header fields the
/// reconstruction ignores (sequence numbers, counters, …) and the electronic noise
/// (`noise_adc` r.m.s. ADC counts, 0 = none).
pub fn simulate_truth(rng: &mut Rng, truth: &SimTruth, noise_adc: f64) -> SimEvent {
    let det = detector();
    let SimTruth { vertex, tracks, amplitude, pad_sigma_z, trg_timestamp } = truth.clone();
    let sigma_z = pad_sigma_z.max(1e-4);

    let mut charges = Charges::default();
    for tr in &tracks {
        deposit_track(det, vertex, tr, amplitude, sigma_z, &mut charges);
    }

    let mut banks: Vec<(String, Vec<u8>)> = Vec::new();
    let mut clamped_samples = 0;
    // trigger
    let mut trg = c06::random_fields(rng);
    trg.ts = trg_timestamp;
    banks.push(("ATAT".to_string(), c06::encode(&trg)));

    // wires: direct signals, then induction on the neighbours ±1..±4
    let direct: BTreeMap<usize, Vec<f64>> =
        charges.wires.iter().map(|(&slot, input)| (slot, convolve(input, &det.wire_resp))).collect();
    let mut total: BTreeMap<usize, Vec<f64>> = BTreeMap::new();
    for (&slot, signal) in &direct {
        for d in -4i64..=4 {
            let factor = det.neighbours[d.unsigned_abs() as usize];
            let target = (slot as i64 + d).rem_euclid(TPC_ANODE_WIRES as i64) as usize;
            let acc = total.entry(target).or_insert_with(|| vec![0.0; SIGNAL_SAMPLES]);
            for (a, s) in acc.iter_mut().zip(signal) {
                *a += factor * s;
            }
        }
    }
    let adc_trigger = rng.next() as u16;
    let adc_timestamp = rng.next() >> 16;
    for (slot, signal) in &total {
        let src = &det.wire_src[det.wire_of_slot[*slot]];
        let (wave, c) =
            digitise(rng, signal, src.baseline, src.gain, det.wire_delay, noise_adc, ADC_MIN, ADC_MAX);
        clamped_samples += c;
        banks.push((src.bank.clone(), adc_packet(rng, src, wave, adc_trigger, adc_timestamp)));
    }

    // pads: one packet per (board, chip) with every fired channel
    let mut chips: BTreeMap<(usize, u8), Vec<(u16, Vec<i16>)>> = BTreeMap::new();
    for (&(column, row), input) in &charges.pads {
        let src = det.pad_src[column * TPC_PAD_ROWS + row].unwrap();
        let signal = convolve(input, &det.pad_resp);
        let (wave, c) = digitise(rng, &signal, src.baseline, src.gain, det.pad_delay, noise_adc, PWB_MIN, PWB_MAX);
        if noise_adc == 0.0 && wave.iter().all(|&v| v == src.baseline) {
            continue; // nothing above the least significant bit: the channel did not fire
        }
        clamped_samples += c;
        chips.entry((src.board, src.chip)).or_default().push((src.readout, wave));
    }
    let pwb_timestamp = rng.next() & ((1u64 << 48) - 1);
    let event_counter = rng.next() as u32;
    for ((board, chip), mut sent) in chips {
        sent.sort_by_key(|(readout, _)| *readout);
        let (name, mac, dev) = &det.pwb_boards[board];
        let mut mask = 0u128;
        for (readout, _) in &sent {
            mask |= 1u128 << (readout - 1);
        }
        let f = c05::Fields {
            after: b'A' + chip,
            comp: 0,
            trig: 0,
            mac: *mac,
            delay: 0,
            ts: pwb_timestamp,
            last_sca: rng.below(512) as u16,
            req: (det.pad_delay + SIGNAL_SAMPLES) as u16,
            sent: mask,
            thr: mask,
            evc: event_counter,
            fifo: rng.below(64) as u16,
            wd: 1,
            rd: 0,
            waves: sent.into_iter().map(|(_, w)| w).collect(),
        };
        let payload = c05::encode(&f);
        let sequence = rng.next() as u32;
        for (i, cv) in c04::cut(&payload, CHUNK_PAYLOAD, *dev, chip).iter().enumerate() {
            banks.push((format!("PC{name}"), c04::chunk_bytes(cv, sequence, i as u16)));
        }
    }

    SimEvent { banks, vertex, tracks, trg_timestamp, amplitude, pad_sigma_z: sigma_z, clamped_samples }
}

/// The generator state of event `index` of the batch `seed` (so that a single event replays).
pub fn event_rng(seed: u64, index: usize) -> Rng {
    Rng::new(seed.wrapping_mul(0x0001_0000_0001_B3).wrapping_add(index as u64))
}

// ------------------------------------------------------------------------------------------
// statistics (C12's numbers; informational)

struct Outcome {
    index: usize,
    n_tracks: usize,
    n_banks: usize,
    sim_ms: f64,
    build: Result<(), String>,
    deterministic: bool,
    clamped: usize,
    vertex_ms: f64,
    /// reconstructed − true, metres
    residual: Option<[f64; 3]>,
    panic: Option<String>,
    /// (avalanches, space points, clusters, fitted tracks) of events without a vertex
    diagnosis: Option<(usize, usize, usize, usize)>,
    /// space points against the true tracks: (r·Δφ, Δz)
    points: Vec<[f64; 2]>,
}

fn run_one(seed: u64, index: usize, cfg: &SimConfig) -> Outcome {
    use alpha_g_physics::reconstruction::{cluster_spacepoints, Track};
    use alpha_g_physics::SpacePoint;
    use uom::si::length::meter;
    let t0 = std::time::Instant::now();
    let ev = simulate_event(&mut event_rng(seed, index), cfg);
    let sim_ms = t0.elapsed().as_secs_f64() * 1e3;
    let again = simulate_event(&mut event_rng(seed, index), cfg);
    let mut out = Outcome {
        index,
        n_tracks: ev.tracks.len(),
        n_banks: ev.banks.len(),
        sim_ms,
        build: Ok(()),
        deterministic: again.banks == ev.banks && again.vertex == ev.vertex && again.tracks == ev.tracks,
        clamped: ev.clamped_samples,
        vertex_ms: 0.0,
        residual: None,
        panic: None,
        diagnosis: None,
        points: Vec::new(),
    };
    let event = match crate::guarded(|| MainEvent::try_from_banks(SIM_RUN, ev.bank_refs())) {
        Ok(Ok(e)) => e,
        Ok(Err(e)) => {
            out.build = Err(format!("{e:?}"));
            return out;
        }
        Err(p) => {
            out.build = Err(format!("panic: {p}"));
            out.panic = Some(p);
            return out;
        }
    };
    if event.timestamp() != ev.trg_timestamp {
        out.build = Err("timestamp differs".to_string());
    }
    let t1 = std::time::Instant::now();
    match crate::guarded(|| event.vertex()) {
        Ok(Some(v)) => {
            out.residual = Some([
                v.x.get::<meter>() - ev.vertex[0],
                v.y.get::<meter>() - ev.vertex[1],
                v.z.get::<meter>() - ev.vertex[2],
            ]);
        }
        Ok(None) => {
            let d = crate::guarded(|| {
                let avalanches = event.avalanches();
                let points: Vec<SpacePoint> = avalanches.iter().filter_map(|a| (*a).try_into().ok()).collect();
                let n_points = points.len();
                let clusters = cluster_spacepoints(points).clusters;
                let n_clusters = clusters.len();
                let n_fitted = clusters.into_iter().filter_map(|c| Track::try_from(c).ok()).count();
                (avalanches.len(), n_points, n_clusters, n_fitted)
            });
            out.diagnosis = d.ok();
        }
        Err(p) => out.panic = Some(p),
    }
    out.vertex_ms = t1.elapsed().as_secs_f64() * 1e3;
    if let Ok(p) = crate::guarded(|| point_residuals_of(&ev, &event)) {
        out.points = p.iter().map(|r| [r[1], r[2]]).collect();
    }
    out
}

/// Position of a true track where it crosses radius `r`: (azimuth, z). `None` if it never does.
pub fn track_at_radius(vertex: [f64; 3], tr: &SimTrack, r: f64) -> Option<(f64, f64)> {
    let q = -f64::from(tr.charge);
    let (sin0, cos0) = tr.phi0.sin_cos();
    let cx = vertex[0] - q * tr.radius * sin0;
    let cy = vertex[1] + q * tr.radius * cos0;
    let theta0 = tr.phi0 - q * PI / 2.0;
    let radius_at = |s: f64| {
        let a = theta0 + q * s / tr.radius;
        (cx + tr.radius * a.cos()).hypot(cy + tr.radius * a.sin())
    };
    // beyond the first centimetres (vertex ≤ 1.5 cm from the axis) the distance from the axis
    // grows monotonically along the first 0.3 m of arc: one crossing for r in the drift volume
    let (mut lo, mut hi) = (0.0, 0.3);
    if radius_at(lo) > r || radius_at(hi) < r {
        return None;
    }
    for _ in 0..60 {
        let mid = 0.5 * (lo + hi);
        if radius_at(mid) < r {
            lo = mid;
        } else {
            hi = mid;
        }
    }
    let s = 0.5 * (lo + hi);
    let a = theta0 + q * s / tr.radius;
    let (x, y) = (cx + tr.radius * a.cos(), cy + tr.radius * a.sin());
    Some((y.atan2(x).rem_euclid(TAU), vertex[2] + tr.dz_ds * s))
}

/// For every space point the library reconstructs from the event: (radius, r·Δφ, Δz, wire
/// amplitude, pad amplitude) with respect to the closest true track at the same radius (metres). Diagnostic of the forward
/// model against the library's signal chain (deconvolution, matching, drift lookup).
pub fn point_residuals(ev: &SimEvent) -> Vec<[f64; 5]> {
    match MainEvent::try_from_banks(SIM_RUN, ev.bank_refs()) {
        Ok(event) => point_residuals_of(ev, &event),
        Err(_) => Vec::new(),
    }
}

fn point_residuals_of(ev: &SimEvent, event: &MainEvent) -> Vec<[f64; 5]> {
    use alpha_g_physics::SpacePoint;
    use uom::si::angle::radian;
    use uom::si::length::meter;
    let mut out = Vec::new();
    for a in event.avalanches() {
        let Ok(p) = SpacePoint::try_from(a) else { continue };
        let (r, phi, z) = (p.r.get::<meter>(), p.phi.get::<radian>(), p.z.get::<meter>());
        let mut best: Option<[f64; 5]> = None;
        for tr in &ev.tracks {
            let Some((tphi, tz)) = track_at_radius(ev.vertex, tr, r) else { continue };
            let dphi = (phi - tphi + PI).rem_euclid(TAU) - PI;
            let cand = [r, r * dphi, z - tz, a.wire_amplitude, a.pad_amplitude];
            if best.map_or(true, |b| cand[1].hypot(cand[2]) < b[1].hypot(b[2])) {
                best = Some(cand);
            }
        }
        if let Some(b) = best {
            out.push(b);
        }
    }
    out
}

fn quantile(sorted: &[f64], q: f64) -> f64 {
    if sorted.is_empty() {
        return f64::NAN;
    }
    let pos = q * (sorted.len() - 1) as f64;
    let (lo, hi) = (pos.floor() as usize, pos.ceil() as usize);
    sorted[lo] + (sorted[hi] - sorted[lo]) * (pos - lo as f64)
}

/// `n` events of the default configuration through `try_from_banks` + `vertex()`.
pub fn stats(seed: u64, n: usize, out_path: &str) {
    let mut cfg = SimConfig::default();
    // exploration only: `SIM_NOISE_ADC=<r.m.s. counts>` (the report records the configuration)
    if let Some(noise) = std::env::var("SIM_NOISE_ADC").ok().and_then(|v| v.parse().ok()) {
        cfg.noise_adc = noise;
    }
    let report = stats_with(seed, n, &cfg);
    let text = serde_json::to_string_pretty(&report).unwrap();
    if !out_path.is_empty() {
        std::fs::write(out_path, &text).expect("write statistics");
    }
    println!("{text}");
}

/// As `stats`, for any configuration; returns the JSON report.
pub fn stats_with(seed: u64, n: usize, cfg: &SimConfig) -> serde_json::Value {
    let threads = std::thread::available_parallelism().map(|p| p.get()).unwrap_or(1).clamp(1, 8).min(n.max(1));
    let started = std::time::Instant::now();
    let mut outcomes: Vec<Outcome> = std::thread::scope(|scope| {
        let handles: Vec<_> = (0..threads)
            .map(|tid| {
                // `MainEvent` is ≈ 450 kB and lives on the stack
                std::thread::Builder::new()
                    .stack_size(64 << 20)
                    .spawn_scoped(scope, move || {
                        (tid..n).step_by(threads).map(|i| run_one(seed, i, cfg)).collect::<Vec<_>>()
                    })
                    .expect("spawn")
            })
            .collect();
        handles.into_iter().flat_map(|h| h.join().expect("worker")).collect()
    });
    outcomes.sort_by_key(|o| o.index);
    let wall_s = started.elapsed().as_secs_f64();

    let accepted = outcomes.iter().filter(|o| o.build.is_ok()).count();
    let residuals: Vec<[f64; 3]> = outcomes.iter().filter_map(|o| o.residual).collect();
    let mut abs_dz: Vec<f64> = residuals.iter().map(|r| r[2].abs()).collect();
    let mut signed_dz: Vec<f64> = residuals.iter().map(|r| r[2]).collect();
    let mut transverse: Vec<f64> = residuals.iter().map(|r| r[0].hypot(r[1])).collect();
    for v in [&mut abs_dz, &mut signed_dz, &mut transverse] {
        v.sort_by(|a, b| a.partial_cmp(b).unwrap());
    }
    let mut p_abs_t: Vec<f64> = outcomes.iter().flat_map(|o| o.points.iter().map(|p| p[0].abs())).collect();
    let mut p_sgn_t: Vec<f64> = outcomes.iter().flat_map(|o| o.points.iter().map(|p| p[0])).collect();
    let mut p_abs_z: Vec<f64> = outcomes.iter().flat_map(|o| o.points.iter().map(|p| p[1].abs())).collect();
    let mut p_sgn_z: Vec<f64> = outcomes.iter().flat_map(|o| o.points.iter().map(|p| p[1])).collect();
    for v in [&mut p_abs_t, &mut p_sgn_t, &mut p_abs_z, &mut p_sgn_z] {
        v.sort_by(|a, b| a.partial_cmp(b).unwrap());
    }
    let n_points = p_abs_t.len();
    let far_points = outcomes.iter().flat_map(|o| o.points.iter()).filter(|p| p[0].hypot(p[1]) > 0.005).count();
    let mean = |f: &dyn Fn(&Outcome) -> f64| outcomes.iter().map(f).sum::<f64>() / outcomes.len().max(1) as f64;
    let mut by_tracks = serde_json::Map::new();
    for k in cfg.n_tracks.0..=cfg.n_tracks.1.max(cfg.n_tracks.0) {
        let all = outcomes.iter().filter(|o| o.n_tracks == k).count();
        let rec = outcomes.iter().filter(|o| o.n_tracks == k && o.residual.is_some()).count();
        by_tracks.insert(k.to_string(), serde_json::json!({"events": all, "reconstructed": rec}));
    }
    let failures: Vec<serde_json::Value> = outcomes
        .iter()
        .filter(|o| o.residual.is_none())
        .take(200)
        .map(|o| {
            serde_json::json!({
                "event": o.index, "tracks": o.n_tracks,
                "build": o.build.clone().err(), "panic": o.panic,
                "avalanches_points_clusters_fitted": o.diagnosis.map(|d| vec![d.0, d.1, d.2, d.3]),
            })
        })
        .collect();
    serde_json::json!({
        "seed": seed,
        "config": {
            "n_tracks": [cfg.n_tracks.0, cfg.n_tracks.1],
            "amplitude": [cfg.amplitude.0, cfg.amplitude.1],
            "pad_sigma_z_m": [cfg.pad_sigma_z.0, cfg.pad_sigma_z.1],
            "noise_adc": cfg.noise_adc,
        },
        "events": outcomes.len(),
        "accepted_by_try_from_banks": accepted,
        "deterministic": outcomes.iter().filter(|o| o.deterministic).count(),
        "panics": outcomes.iter().filter(|o| o.panic.is_some()).count(),
        "events_with_clamped_samples": outcomes.iter().filter(|o| o.clamped > 0).count(),
        "reconstructed": residuals.len(),
        "efficiency": residuals.len() as f64 / outcomes.len().max(1) as f64,
        "median_abs_dz_m": quantile(&abs_dz, 0.5),
        "p90_abs_dz_m": quantile(&abs_dz, 0.9),
        "median_transverse_m": quantile(&transverse, 0.5),
        "median_signed_dz_m": quantile(&signed_dz, 0.5),
        "max_abs_dz_m": abs_dz.last().copied(),
        "by_track_multiplicity": by_tracks,
        "space_points": {
            "mean_per_event": n_points as f64 / outcomes.len().max(1) as f64,
            "median_abs_r_dphi_m": quantile(&p_abs_t, 0.5),
            "median_signed_r_dphi_m": quantile(&p_sgn_t, 0.5),
            "median_abs_dz_m": quantile(&p_abs_z, 0.5),
            "median_signed_dz_m": quantile(&p_sgn_z, 0.5),
            "fraction_farther_than_5mm": far_points as f64 / n_points.max(1) as f64,
        },
        "mean_banks_per_event": mean(&|o| o.n_banks as f64),
        "mean_simulate_ms": mean(&|o| o.sim_ms),
        "mean_vertex_ms": mean(&|o| o.vertex_ms),
        "wall_s": wall_s,
        "threads": threads,
        "not_reconstructed": failures,
        "replay": "sim::simulate_event(&mut sim::event_rng(seed, event), &SimConfig::default())",
    })
}

#[cfg(test)]
mod tests {
    use super::*;

    fn on_big_stack(f: impl FnOnce() + Send + 'static) {
        std::thread::Builder::new().stack_size(64 << 20).spawn(f).unwrap().join().unwrap();
    }

    #[test]
    fn same_seed_same_banks_and_every_event_is_accepted() {
        on_big_stack(|| {
            let cfg = SimConfig::default();
            for i in 0..6 {
                let a = simulate_event(&mut event_rng(11, i), &cfg);
                let b = simulate_event(&mut event_rng(11, i), &cfg);
                assert_eq!(a.banks, b.banks);
                assert!(a.banks.iter().all(|(name, _)| name.len() == 4));
                assert_eq!(a.clamped_samples, 0);
                let event = MainEvent::try_from_banks(SIM_RUN, a.bank_refs()).expect("accepted");
                assert_eq!(event.timestamp(), a.trg_timestamp);
                // every C-bank became a wire signal of exactly the simulated length, every pad
                // signal too
                let (wires, pads) = event.verif_signals();
                let n_c = a.banks.iter().filter(|(n, _)| n.starts_with('C')).count();
                assert_eq!(wires.iter().flatten().count(), n_c);
                assert!(wires.iter().flatten().all(|s| s.len() == SIGNAL_SAMPLES));
                assert!(pads.iter().flatten().flatten().all(|s| s.len() == SIGNAL_SAMPLES));
                assert!(pads.iter().flatten().flatten().count() > 10);
            }
        });
    }

    #[test]
    fn noise_and_odd_configurations_are_accepted() {
        on_big_stack(|| {
            let configs = [
                SimConfig { noise_adc: 5.0, ..SimConfig::default() },
                SimConfig { n_tracks: (0, 0), ..SimConfig::default() },
                SimConfig { n_tracks: (8, 8), amplitude: (100.0, 100.0), ..SimConfig::default() },
                SimConfig { pad_sigma_z: (0.0, 0.0), amplitude: (0.0, 0.0), ..SimConfig::default() },
            ];
            for (k, cfg) in configs.iter().enumerate() {
                let ev = simulate_event(&mut event_rng(5, k), cfg);
                MainEvent::try_from_banks(SIM_RUN, ev.bank_refs()).expect("accepted");
            }
        });
    }

    #[test]
    fn true_track_crosses_every_drift_radius_once() {
        let truth = draw_truth(&mut event_rng(3, 0), &SimConfig::default());
        for tr in &truth.tracks {
            let mut last_z = None;
            for k in 0..=20 {
                let r = INNER_CATHODE_RADIUS + (ANODE_WIRES_RADIUS - INNER_CATHODE_RADIUS) * k as f64 / 20.0;
                let (_, z) = track_at_radius(truth.vertex, tr, r).expect("crossing");
                if let Some(lz) = last_z {
                    // z moves monotonically with the sign of dz/ds
                    assert!((z - lz) * tr.dz_ds >= 0.0);
                }
                last_z = Some(z);
            }
        }
    }
}
