//! C17: deconvolution is non-negative, scale-covariant and equals its plain definition.
//!
//! Requests (all floats are 16-digit hex bit patterns, NaN canonicalised to `nan`):
//!   deconv <fast|naive> <off> <la> <n> <signal…> <m> <response…>  -> ok <sum> <n inputs…>
//!   ls  <offlo> <offhi> <lalo> <lahi> <n> <signal…> <m> <response…> -> ok <k> <k inputs…>
//!   lsn …  (the model runs the naive sweep; the implementation answer is the same real function)
//!   pad <n> <signal…> <m> <PAD_RESPONSE…>                           -> ok <k> <k inputs…>
//! The implementation side always runs the real (production, window-skipping) functions through
//! the `alpha_g_verif` hooks; `naive`/`lsn` requests make the Lean model run the plain
//! one-sample-at-a-time definition, so a `naive` agreement is "model-naive == real-fast".
//! Oracles (independent of the model): output length, finite and >= 0, harness-naive == real
//! bit for bit, exact 2^k scaling, isolated pulse recovery on every wire, ResponseNeg on the real
//! tables.
use crate::{guarded, Rng, Session};
use alpha_g_detector::alpha16::aw_map::{TpcWirePosition, TPC_ANODE_WIRES};
use alpha_g_detector::padwing::map::{TPC_PAD_COLUMNS, TPC_PAD_ROWS};
use alpha_g_physics::verif::{
    verif_ls_deconvolution, verif_nn_greedy_deconvolution, verif_pad_deconvolution,
    verif_pad_response, verif_wire_range_deconvolution, verif_wire_response,
    verif_wire_to_pad_column,
};
use alpha_g_physics::MainEvent;

pub const WIRE_GRID: (usize, usize, usize, usize) = (0, 1, 3, 12);
pub const PAD_GRID: (usize, usize, usize, usize) = (3, 5, 7, 12);

pub fn fbits(x: f64) -> String {
    if x.is_nan() {
        "nan".to_string()
    } else {
        format!("{:016x}", x.to_bits())
    }
}
fn fparse(s: &str) -> Option<f64> {
    if s == "nan" {
        return Some(f64::NAN);
    }
    u64::from_str_radix(s, 16).ok().map(f64::from_bits)
}
pub fn fvec(v: &[f64]) -> String {
    let mut s = String::with_capacity(v.len() * 17 + 8);
    s.push_str(&v.len().to_string());
    for x in v {
        s.push(' ');
        s.push_str(&fbits(*x));
    }
    s
}

/// Model panic-site name for a Rust panic message of `nn_greedy_deconvolution`.
fn site(msg: &str) -> String {
    if msg.contains("range start index") {
        "deconv:response[offset..]".into()
    } else if msg.contains("range end index") {
        "deconv:[..look_ahead]".into()
    } else if msg.contains("assertion failed: response_window") {
        "deconv:assert-response-negative".into()
    } else if msg.contains("Option::unwrap()") {
        "deconv:reduce-unwrap".into()
    } else {
        format!("other:{msg}")
    }
}

// ---------------------------------------------------------------- independent definitions
/// The plain definition: slide the window one sample at a time (written from the property
/// text, not from the production loop).
pub fn naive_nn(signal: &[f64], response: &[f64], off: usize, la: usize) -> (f64, Vec<f64>) {
    let n = signal.len();
    let rw = &response[off..off + la];
    let mut res = signal.to_vec();
    let mut inp = vec![0.0; n];
    let mut i = 0;
    while i + off + la <= n {
        let all_negative = (0..la).all(|j| !(res[i + off + j] >= 0.0));
        if all_negative {
            let mut val = res[i + off] / rw[0];
            for j in 1..la {
                val = val.min(res[i + off + j] / rw[j]);
            }
            inp[i] = val;
            for j in i..n {
                if j - i < response.len() {
                    res[j] -= val * response[j - i];
                }
            }
        }
        i += 1;
    }
    (res.iter().map(|x| x * x).sum(), inp)
}

pub fn naive_ls(signal: &[f64], response: &[f64], g: (usize, usize, usize, usize)) -> Vec<f64> {
    let mut best = f64::INFINITY;
    let mut best_inp = Vec::new();
    for off in g.0..=g.1 {
        for la in g.2..=g.3 {
            let (r, inp) = naive_nn(signal, response, off, la);
            if r < best {
                best = r;
                best_inp = inp;
            }
        }
    }
    best_inp
}

fn same_bits(a: &[f64], b: &[f64]) -> bool {
    a.len() == b.len() && a.iter().zip(b).all(|(x, y)| fbits(*x) == fbits(*y))
}

fn shape_nonneg(out: &[f64], n: usize) -> Option<String> {
    if out.len() != n {
        return Some(format!("output has {} samples for {} input samples", out.len(), n));
    }
    for (i, x) in out.iter().enumerate() {
        if !x.is_finite() {
            return Some(format!("amplitude {i} is not finite: {x}"));
        }
        if !(*x >= 0.0) {
            return Some(format!("amplitude {i} is negative: {x}"));
        }
    }
    None
}

// ---------------------------------------------------------------- implementation answers
fn impl_deconv(sig: &[f64], resp: &[f64], off: usize, la: usize) -> (String, Option<(f64, Vec<f64>)>) {
    match guarded(|| verif_nn_greedy_deconvolution(sig, resp, off, la)) {
        Ok((r, inp)) => {
            let mut s = format!("ok {}", fbits(r));
            for x in &inp {
                s.push(' ');
                s.push_str(&fbits(*x));
            }
            (s, Some((r, inp)))
        }
        Err(m) => (format!("panic {}", site(&m)), None),
    }
}
fn impl_ls(sig: &[f64], resp: &[f64], g: (usize, usize, usize, usize)) -> (String, Option<Vec<f64>>) {
    match guarded(|| verif_ls_deconvolution(sig, resp, g.0..=g.1, g.2..=g.3)) {
        Ok(inp) => (format!("ok {}", fvec(&inp)), Some(inp)),
        Err(m) => (format!("panic {}", site(&m)), None),
    }
}
fn impl_pad(sig: &[f64]) -> (String, Option<Vec<f64>>) {
    match guarded(|| verif_pad_deconvolution(sig)) {
        Ok(inp) => (format!("ok {}", fvec(&inp)), Some(inp)),
        Err(m) => (format!("panic {}", site(&m)), None),
    }
}

fn req_deconv(mode: &str, off: usize, la: usize, sig: &[f64], resp: &[f64]) -> String {
    format!("deconv {mode} {off} {la} {} {}", fvec(sig), fvec(resp))
}
fn req_ls(cmd: &str, g: (usize, usize, usize, usize), sig: &[f64], resp: &[f64]) -> String {
    format!("{cmd} {} {} {} {} {} {}", g.0, g.1, g.2, g.3, fvec(sig), fvec(resp))
}

// ---------------------------------------------------------------- generators
/// A waveform of `len` samples: 0..=8 response-shaped pulses (amplitude 1..1e4, arbitrary
/// positions with extra weight on the last look-ahead samples) + uniform noise, rounded or not.
pub fn gen_signal(rng: &mut Rng, len: usize, resp: &[f64]) -> Vec<f64> {
    let mut s = vec![0.0f64; len];
    let pulses = rng.range(0, 8) as usize;
    for _ in 0..pulses {
        let amp = 10f64.powf(4.0 * rng.f64_unit());
        let pos = if rng.below(3) == 0 {
            len.saturating_sub(1 + rng.below(20) as usize)
        } else {
            rng.below(len as u64) as usize
        };
        for j in pos..len {
            if j - pos < resp.len() {
                s[j] += amp * resp[j - pos];
            }
        }
    }
    let mag = *rng.pick(&[0.0, 1e-3, 0.1, 1.0, 10.0, 100.0]);
    if mag > 0.0 {
        for x in s.iter_mut() {
            *x += mag * (2.0 * rng.f64_unit() - 1.0);
        }
    }
    if rng.bool() {
        for x in s.iter_mut() {
            *x = x.round();
        }
    }
    s
}

/// Pulses whose shape deviates from the tabulated response (smoothed, stretched in time, or with
/// sample-wise gain jitter), as real pulses do: these make the larger look-aheads / offsets win
/// the least-squares sweep, which ideal pulses almost never do.
pub fn gen_distorted(rng: &mut Rng, len: usize, resp: &[f64]) -> Vec<f64> {
    let mut s = vec![0.0f64; len];
    for _ in 0..rng.range(1, 3) {
        let a = 10f64.powf(1.0 + 3.0 * rng.f64_unit());
        let pos = rng.below(len as u64) as usize;
        match rng.below(3) {
            0 => {
                let w = rng.range(2, 5) as usize;
                for j in pos..len {
                    let i = j - pos;
                    let mut acc = 0.0;
                    for d in 0..w {
                        if i >= d && i - d < resp.len() {
                            acc += resp[i - d];
                        }
                    }
                    s[j] += a * acc / w as f64;
                }
            }
            1 => {
                let sc = 0.6 + 0.8 * rng.f64_unit();
                for j in pos..len {
                    let x = (j - pos) as f64 * sc;
                    let i = x as usize;
                    if i + 1 < resp.len() {
                        let f = x - i as f64;
                        s[j] += a * ((1.0 - f) * resp[i] + f * resp[i + 1]);
                    }
                }
            }
            _ => {
                for j in pos..len {
                    if j - pos < resp.len() {
                        s[j] += a * resp[j - pos] * (1.0 + 0.3 * (2.0 * rng.f64_unit() - 1.0));
                    }
                }
            }
        }
    }
    let mag = *rng.pick(&[0.0, 0.1, 1.0, 10.0]);
    for x in s.iter_mut() {
        *x += mag * (2.0 * rng.f64_unit() - 1.0);
    }
    s
}

fn pick_len(rng: &mut Rng) -> usize {
    match rng.below(4) {
        0 => rng.range(1, 20) as usize,
        1 => rng.range(21, 120) as usize,
        2 => rng.range(121, 520) as usize,
        _ => rng.range(521, 700) as usize,
    }
}

/// The part of a response table that can influence a waveform of `len` samples.
fn trunc(resp: &[f64], len: usize) -> &[f64] {
    &resp[..resp.len().min(len.max(24))]
}

fn settings() -> Vec<(bool, usize, usize)> {
    let mut v = Vec::new();
    for off in WIRE_GRID.0..=WIRE_GRID.1 {
        for la in WIRE_GRID.2..=WIRE_GRID.3 {
            v.push((true, off, la));
        }
    }
    for off in PAD_GRID.0..=PAD_GRID.1 {
        for la in PAD_GRID.2..=PAD_GRID.3 {
            v.push((false, off, la));
        }
    }
    v
}

fn add_deconv(s: &mut Session, gen: &'static str, sig: &[f64], resp: &[f64], off: usize, la: usize, finite: bool) {
    let (imp, val) = impl_deconv(sig, resp, off, la);
    let mut why = None;
    match &val {
        None => why = Some(format!("nn_greedy_deconvolution panicked: {imp}")),
        Some((r, inp)) => {
            if finite {
                why = shape_nonneg(inp, sig.len());
                if why.is_none() && !(r.is_finite() && *r >= 0.0) {
                    why = Some(format!("residual sum of squares is {r}"));
                }
            } else if inp.len() != sig.len() {
                why = Some("output length differs from input length".into());
            }
            if why.is_none() {
                let (rn, inpn) = naive_nn(sig, resp, off, la);
                if fbits(rn) != fbits(*r) || !same_bits(&inpn, inp) {
                    why = Some("production sweep differs from the plain one-sample-at-a-time sweep".into());
                }
            }
        }
    }
    s.push_oracle(gen, req_deconv("fast", off, la, sig, resp), imp.clone(), why.clone());
    s.push_oracle(gen, req_deconv("naive", off, la, sig, resp), imp, why);
}

fn add_ls(s: &mut Session, gen: &'static str, sig: &[f64], resp: &[f64], g: (usize, usize, usize, usize), both: bool) {
    let (imp, val) = impl_ls(sig, resp, g);
    let why = match &val {
        None => Some(format!("ls_deconvolution panicked: {imp}")),
        Some(inp) => shape_nonneg(inp, sig.len()).or_else(|| {
            if same_bits(&naive_ls(sig, resp, g), inp) {
                None
            } else {
                Some("ls_deconvolution differs from the plain greedy least-squares sweep".into())
            }
        }),
    };
    s.push_oracle(gen, req_ls("ls", g, sig, resp), imp.clone(), why.clone());
    if both {
        s.push_oracle(gen, req_ls("lsn", g, sig, resp), imp, why);
    }
}

fn add_pad(s: &mut Session, gen: &'static str, sig: &[f64], pad_resp: &[f64]) {
    let (imp, val) = impl_pad(sig);
    let why = match &val {
        None => Some(format!("pad_deconvolution panicked: {imp}")),
        Some(inp) => shape_nonneg(inp, sig.len()).or_else(|| {
            if same_bits(&naive_ls(sig, pad_resp, PAD_GRID), inp) {
                None
            } else {
                Some("pad_deconvolution differs from the plain greedy least-squares sweep".into())
            }
        }),
    };
    s.push_oracle(gen, format!("pad {} {}", fvec(sig), fvec(pad_resp)), imp, why);
}

fn empty_wires() -> [Option<Vec<f64>>; TPC_ANODE_WIRES] {
    std::array::from_fn(|_| None)
}
fn empty_pads() -> [[Option<Vec<f64>>; TPC_PAD_ROWS]; TPC_PAD_COLUMNS] {
    std::array::from_fn(|_| std::array::from_fn(|_| None))
}

fn pulse(len: usize, k: usize, a: f64, resp: &[f64]) -> Vec<f64> {
    (0..len).map(|j| if j >= k && j - k < resp.len() { a * resp[j - k] } else { 0.0 }).collect()
}

/// `out` must be `a` at `k` (relative error < 1e-6) and zero elsewhere (|x| <= 1e-6 a).
fn check_spike(out: &[f64], n: usize, k: usize, a: f64) -> Option<String> {
    if out.len() != n {
        return Some(format!("output has {} samples for {} input samples", out.len(), n));
    }
    for (i, x) in out.iter().enumerate() {
        if i == k {
            if !((x - a).abs() < 1e-6 * a) {
                return Some(format!("isolated pulse of amplitude {a} at {k} recovered as {x}"));
            }
        } else if !(x.abs() <= 1e-6 * a) {
            return Some(format!("isolated pulse at {k}: spurious amplitude {x} at {i}"));
        }
    }
    None
}

pub fn generate(s: &mut Session, thorough: bool) -> bool {
    let mut rng = Rng::new(s.seed);
    let scale = if thorough { 25 } else { 1 };
    let wire_resp = verif_wire_response();
    let pad_resp = verif_pad_response();
    s.notes.insert("wire_response_len".into(), wire_resp.len().into());
    s.notes.insert("pad_response_len".into(), pad_resp.len().into());

    // (i) ResponseNeg on the real tables, every window setting in use (empty waveform: only the
    // guards of nn_greedy_deconvolution run, the assert among them)
    for (wire, off, la) in settings() {
        let resp = if wire { &wire_resp } else { &pad_resp };
        let (imp, val) = impl_deconv(&[], resp, off, la);
        let direct = off + la <= resp.len() && resp[off..off + la].iter().all(|x| *x < 0.0);
        let why = if val.is_none() || !direct {
            Some(format!("ResponseNeg fails on the {} table for offset {off}, look-ahead {la}", if wire { "wire" } else { "pad" }))
        } else {
            None
        };
        s.push_oracle("response-neg", req_deconv("fast", off, la, &[], resp), imp, why);
    }

    // (ii) one sweep, fast and naive, every setting x waveforms of all length classes
    for (wire, off, la) in settings() {
        let resp = if wire { &wire_resp } else { &pad_resp };
        for _ in 0..20 * scale {
            let len = pick_len(&mut rng);
            let sig = gen_signal(&mut rng, len, resp);
            add_deconv(s, "sweep", &sig, trunc(resp, len), off, la, true);
        }
    }
    // every length 1..=700 once (thorough) / a stratified sample (quick), random setting
    let lens: Vec<usize> = if thorough { (1..=700).collect() } else { (1..=40).chain((41..=700).step_by(23)).collect() };
    let st = settings();
    for len in lens {
        let (wire, off, la) = *rng.pick(&st);
        let resp = if wire { &wire_resp } else { &pad_resp };
        let sig = gen_signal(&mut rng, len, resp);
        add_deconv(s, "every-length", &sig, trunc(resp, len), off, la, true);
    }
    // pulses that start inside the last off+la samples (the loop bound `i+off+la <= len`)
    for (wire, off, la) in settings() {
        let resp = if wire { &wire_resp } else { &pad_resp };
        for d in [0usize, 1, la - 1, la, off + la - 1, off + la, off + la + 1] {
            let len = rng.range(30, 90) as usize;
            if d >= len {
                continue;
            }
            let a = 10f64.powf(4.0 * rng.f64_unit());
            let sig = pulse(len, len - 1 - d, a, resp);
            add_deconv(s, "tail-pulse", &sig, trunc(resp, len), off, la, true);
        }
    }
    // synthetic short negative responses (shorter than the waveform: the residual update zips
    // to the shorter), arbitrary small offsets / look-aheads
    for _ in 0..60 * scale {
        let m = rng.range(1, 30) as usize;
        let resp: Vec<f64> = (0..m).map(|_| -(0.01 + 10.0 * rng.f64_unit())).collect();
        let off = rng.below(m as u64) as usize;
        let la = rng.range(1, (m - off) as u64) as usize;
        let len = rng.range(1, 80) as usize;
        let sig = gen_signal(&mut rng, len, &resp);
        add_deconv(s, "synthetic-response", &sig, &resp, off, la, true);
    }

    // (iii) least-squares sweeps over the grids: wires, pads (through ls and through
    // pad_deconvolution)
    for _ in 0..40 * scale {
        let len = pick_len(&mut rng);
        let sig = gen_signal(&mut rng, len, &wire_resp);
        add_ls(s, "ls-wire-grid", &sig, trunc(&wire_resp, len), WIRE_GRID, true);
        let len = pick_len(&mut rng);
        let sig = gen_signal(&mut rng, len, &pad_resp);
        add_ls(s, "ls-pad-grid", &sig, trunc(&pad_resp, len), PAD_GRID, true);
        let len = pick_len(&mut rng);
        let sig = gen_signal(&mut rng, len, &pad_resp);
        add_pad(s, "pad", &sig, &pad_resp);
    }
    for len in (1..=24).chain([509, 510, 511, 618, 619, 699, 700]) {
        let sig = gen_signal(&mut rng, len, &pad_resp);
        add_pad(s, "pad", &sig, &pad_resp);
        let sig = gen_signal(&mut rng, len, &wire_resp);
        add_ls(s, "ls-wire-grid", &sig, trunc(&wire_resp, len), WIRE_GRID, false);
    }

    // (iii-b) every grid point must win the sweep at least once (otherwise a narrowed grid would
    // go unnoticed): search waveforms by the argmin of the real per-setting residuals
    for wire in [true, false] {
        let (resp, g) = if wire { (&wire_resp, WIRE_GRID) } else { (&pad_resp, PAD_GRID) };
        let mut found: std::collections::BTreeMap<(usize, usize), usize> = Default::default();
        let n_settings = (g.1 - g.0 + 1) * (g.3 - g.2 + 1);
        let per = if thorough { 6 } else { 2 };
        let mut tries = 0;
        while tries < 6000 && (found.len() < n_settings || found.values().any(|c| *c < per)) {
            tries += 1;
            let len = rng.range(14, 150) as usize;
            let sig = if tries % 4 == 0 { gen_signal(&mut rng, len, resp) } else { gen_distorted(&mut rng, len, resp) };
            let mut best = (f64::INFINITY, (usize::MAX, usize::MAX));
            for off in g.0..=g.1 {
                for la in g.2..=g.3 {
                    let (r, _) = verif_nn_greedy_deconvolution(&sig, resp, off, la);
                    if r < best.0 {
                        best = (r, (off, la));
                    }
                }
            }
            let c = found.entry(best.1).or_insert(0);
            if best.1 .0 != usize::MAX && *c < per {
                *c += 1;
                if wire {
                    // through wire_range_deconvolution (block of one wire, A = [1]): this is
                    // where the wire grid `0..=1, 3..=12` lives
                    let w = rng.below(256) as usize;
                    let mut ws = empty_wires();
                    ws[w] = Some(sig.clone());
                    let (imp, why) = match guarded(|| verif_wire_range_deconvolution(&ws, (w, w + 1))) {
                        Ok(v) if v.len() == 1 && v[0].0 == w => {
                            let why = shape_nonneg(&v[0].1, len).or_else(|| {
                                if same_bits(&naive_ls(&sig, resp, g), &v[0].1) { None } else { Some("wire deconvolution differs from the plain greedy least-squares sweep over 0..=1 x 3..=12".to_string()) }
                            });
                            (format!("ok {}", fvec(&v[0].1)), why)
                        }
                        Ok(_) => ("ok".to_string(), Some("single-wire block does not give one channel on that wire".to_string())),
                        Err(m) => (format!("panic {}", site(&m)), Some(format!("wire_range_deconvolution panicked: {m}"))),
                    };
                    s.push_oracle("argmin-coverage", req_ls("ls", g, &sig, resp), imp, why);
                } else {
                    add_pad(s, "argmin-coverage", &sig, &pad_resp);
                }
            }
        }
        let missing: Vec<String> = (g.0..=g.1)
            .flat_map(|off| (g.2..=g.3).map(move |la| (off, la)))
            .filter(|k| !found.contains_key(k))
            .map(|k| format!("{k:?}"))
            .collect();
        s.notes.insert(format!("argmin_never_won_{}", if wire { "wire" } else { "pad" }), missing.join(" ").into());
    }

    // (iv) scaling by 2^k, k in -8..=8 and +-20, 30, 40, 60, 100 (no absolute threshold may hide in the
    // chain; values stay far from overflow and from the subnormal range): amplitudes multiplied exactly, no index changes
    for _ in 0..4 * scale {
        for wire in [true, false] {
            let (resp, g) = if wire { (&wire_resp, WIRE_GRID) } else { (&pad_resp, PAD_GRID) };
            let len = pick_len(&mut rng);
            let sig = gen_signal(&mut rng, len, resp);
            let base = guarded(|| verif_ls_deconvolution(&sig, resp, g.0..=g.1, g.2..=g.3)).ok();
            for k in (-8i32..=8).chain([-100, -60, -40, -30, -20, 20, 30, 40, 60, 100]) {
                let c = 2f64.powi(k);
                let scaled: Vec<f64> = sig.iter().map(|x| x * c).collect();
                let (imp, val) = if wire { impl_ls(&scaled, trunc(resp, len), g) } else { impl_pad(&scaled) };
                let why = match (&base, &val) {
                    (Some(b), Some(v)) => {
                        let want: Vec<f64> = b.iter().map(|x| x * c).collect();
                        if same_bits(&want, v) { None } else { Some(format!("scaling the waveform by 2^{k} does not scale the amplitudes exactly")) }
                    }
                    _ => Some("deconvolution panicked".into()),
                };
                let req = if wire { req_ls("ls", g, &scaled, trunc(resp, len)) } else { format!("pad {} {}", fvec(&scaled), fvec(resp)) };
                s.push_oracle("scale-2^k", req, imp, why);
            }
        }
    }
    // (iv-a) waveforms in which no grid point beats "no pulse at all": all zero, positive constants,
    // positive-only noise, ramps, waveforms shorter than any window; through the sweep (wire and pad
    // grids), the pad path and a one-wire block. One output sample per input sample, all zero or
    // whatever the plain definition gives (seed C17-9 returned an empty vector)
    for k in 0..(8 * scale) {
        for len in [1usize, 2, 5, 17, 64, 200, 409, 696] {
            let sig: Vec<f64> = match k % 4 {
                0 => vec![0.0; len],
                1 => vec![1.0 + (k as f64); len],
                2 => (0..len).map(|_| 30.0 * rng.f64_unit()).collect(),
                _ => (0..len).map(|i| i as f64 * 0.25).collect(),
            };
            for wire in [true, false] {
                let (resp, g) = if wire { (&wire_resp, WIRE_GRID) } else { (&pad_resp, PAD_GRID) };
                let (imp, val) = if wire { impl_ls(&sig, trunc(resp, len), g) } else { impl_pad(&sig) };
                let why = match &val {
                    Some(v) if v.len() != len => Some(format!("{} output samples for {len} input samples", v.len())),
                    Some(v) => shape_nonneg(v, len),
                    None => Some("deconvolution panicked".into()),
                };
                let req = if wire { req_ls("ls", g, &sig, trunc(resp, len)) } else { format!("pad {} {}", fvec(&sig), fvec(resp)) };
                s.push_oracle("no-negative-window", req, imp, why);
            }
        }
    }
    // scaling through the Cholesky path: a contiguous block of wires with differing lengths
    for _ in 0..6 * scale {
        let mut base_sig = empty_wires();
        let blen = rng.range(1, 12) as usize;
        let start = rng.below(256) as usize;
        for j in 0..blen {
            let len = rng.range(20, 200) as usize;
            base_sig[(start + j) % 256] = Some(gen_signal(&mut rng, len, &wire_resp));
        }
        let range = (start, if start + blen <= 256 { start + blen } else { start + blen - 256 });
        let range = if blen == 256 { (0, 256) } else { range };
        let base = guarded(|| verif_wire_range_deconvolution(&base_sig, range)).ok();
        let max_len = base_sig.iter().flatten().map(|v| v.len()).max().unwrap();
        for k in [-100i32, -60, -40, -30, -20, -8, -3, -1, 1, 2, 8, 20, 30, 40, 60, 100] {
            let c = 2f64.powi(k);
            let mut sc = empty_wires();
            for w in 0..256 {
                sc[w] = base_sig[w].as_ref().map(|v| v.iter().map(|x| x * c).collect());
            }
            let out = guarded(|| verif_wire_range_deconvolution(&sc, range)).ok();
            let mut why = None;
            match (&base, &out) {
                (Some(b), Some(o)) => {
                    if o.len() != blen || b.len() != blen {
                        why = Some(format!("block of {blen} channels gives {} output channels", o.len()));
                    } else {
                        for (j, ((wb, vb), (wo, vo))) in b.iter().zip(o).enumerate() {
                            let want: Vec<f64> = vb.iter().map(|x| x * c).collect();
                            if *wb != (start + j) % 256 || wo != wb {
                                why = Some("output channel index differs from the block's wire".into());
                            } else if vo.len() != max_len {
                                why = Some(format!("channel of the block has {} samples, longest input {}", vo.len(), max_len));
                            } else if !same_bits(&want, vo) {
                                why = Some(format!("scaling a wire block by 2^{k} does not scale the amplitudes exactly"));
                            } else if let Some(w) = shape_nonneg(vo, max_len) {
                                why = Some(w);
                            }
                        }
                    }
                }
                _ => why = Some("wire_range_deconvolution panicked".into()),
            }
            // the request ties the first channel's sweep settings to the model on a 1-wire copy
            let first = sc[start].clone().unwrap();
            let mut single = empty_wires();
            single[start] = Some(first.clone());
            let imp = match guarded(|| verif_wire_range_deconvolution(&single, (start, start + 1))) {
                Ok(v) => format!("ok {}", fvec(&v[0].1)),
                Err(m) => format!("panic {}", site(&m)),
            };
            s.push_oracle("scale-block", req_ls("ls", WIRE_GRID, &first, &wire_resp), imp, why);
        }
    }

    // (iv-b) contiguous wire blocks of every length 1..=256 at every kind of position on the ring
    // (seam included) with differing per-wire lengths: one output channel per input channel, on
    // the block's wires in ring order, zero-padded to the longest channel, finite and >= 0
    let block_lens: Vec<usize> = if thorough { (1..=256).collect() } else { vec![1, 2, 3, 5, 8, 9, 17, 40, 100, 200, 255, 256] };
    for blen in block_lens {
        let start = match rng.below(4) {
            0 => (256 - rng.below(blen as u64 + 1) as usize) % 256, // ends at or straddles the seam
            1 => 0,
            _ => rng.below(256) as usize,
        };
        let start = if blen == 256 { 0 } else { start };
        let mut ws = empty_wires();
        for j in 0..blen {
            let len = rng.range(1, 90) as usize;
            ws[(start + j) % 256] = Some(gen_signal(&mut rng, len, &wire_resp));
        }
        let range = if blen == 256 { (0, 256) } else if start + blen <= 256 { (start, start + blen) } else { (start, start + blen - 256) };
        let max_len = ws.iter().flatten().map(|v| v.len()).max().unwrap();
        let out = guarded(|| verif_wire_range_deconvolution(&ws, range));
        let why = match &out {
            Err(m) => Some(format!("wire_range_deconvolution panicked on a block of {blen} at {start}: {m}")),
            Ok(o) => {
                let mut why = None;
                if o.len() != blen {
                    why = Some(format!("block of {blen} channels gives {} output channels", o.len()));
                } else {
                    for (j, (w, v)) in o.iter().enumerate() {
                        if *w != (start + j) % 256 {
                            why = Some(format!("output channel {j} of the block at {start} is wire {w}"));
                        } else if v.len() != max_len {
                            why = Some(format!("channel has {} samples, longest input {max_len}", v.len()));
                        } else if let Some(x) = shape_nonneg(v, max_len) {
                            why = Some(x);
                        }
                    }
                }
                why
            }
        };
        let first = ws[start].clone().unwrap();
        let mut single = empty_wires();
        single[start] = Some(first.clone());
        let imp = match guarded(|| verif_wire_range_deconvolution(&single, (start, start + 1))) {
            Ok(v) => format!("ok {}", fvec(&v[0].1)),
            Err(m) => format!("panic {}", site(&m)),
        };
        s.push_oracle("wire-block", req_ls("ls", WIRE_GRID, &first, &wire_resp), imp, why);
    }

    // (v) isolated pulse on every wire: recovered as `a` at `k`, zero elsewhere
    let step = if thorough { 1 } else { 1 };
    for w in (0..256usize).step_by(step) {
        let n = rng.range(18, 520) as usize;
        let k = rng.below((n - 17) as u64) as usize; // k + 18 <= n
        let a = 10f64.powf(4.0 * rng.f64_unit());
        let sig = pulse(n, k, a, &wire_resp);
        let mut ws = empty_wires();
        ws[w] = Some(sig.clone());
        let out = guarded(|| verif_wire_range_deconvolution(&ws, (w, w + 1)));
        let (imp, why) = match out {
            Ok(v) => {
                let why = if v.len() != 1 || v[0].0 != w {
                    Some("single-wire block does not give one channel on that wire".to_string())
                } else {
                    check_spike(&v[0].1, n, k, a)
                };
                (format!("ok {}", fvec(&v.get(0).map(|p| p.1.clone()).unwrap_or_default())), why)
            }
            Err(m) => (format!("panic {}", site(&m)), Some(format!("wire_range_deconvolution panicked: {m}"))),
        };
        s.push_oracle("isolated-pulse-wire", req_ls("ls", WIRE_GRID, &sig, &wire_resp), imp, why);
    }
    // the same through MainEvent::avalanches(): a pad peak in the wire's column at the same
    // time bin makes the wire amplitude observable
    for w in (0..256usize).step_by(if thorough { 1 } else { 4 }) {
        let n = rng.range(40, 300) as usize;
        let k = rng.below((n - 39) as u64) as usize;
        let a = 10f64.powf(1.0 + 3.0 * rng.f64_unit());
        let sig = pulse(n, k, a, &wire_resp);
        let mut ws = empty_wires();
        ws[w] = Some(sig.clone());
        let mut ps = empty_pads();
        let col = verif_wire_to_pad_column(w);
        let row = rng.range(1, (TPC_PAD_ROWS - 2) as u64) as usize;
        for (dr, f) in [(0usize, 0.5), (1, 1.0), (2, 0.4)] {
            ps[col][row - 1 + dr] = Some(pulse(n, k, 1000.0 * f, &pad_resp));
        }
        let ev = MainEvent::verif_from_signals(ws.clone(), ps, 0);
        let av = guarded(|| ev.avalanches());
        let phi = TpcWirePosition::try_from(w).unwrap().phi();
        let why = match &av {
            Err(m) => Some(format!("avalanches() panicked: {m}")),
            Ok(av) => {
                let hits: Vec<_> = av.iter().filter(|x| (x.wire_amplitude - a).abs() < 1e-6 * a).collect();
                if hits.len() != 1 {
                    Some(format!("isolated pulse on wire {w}: {} avalanches carry its amplitude ({} in total)", hits.len(), av.len()))
                } else {
                    let h = hits[0];
                    let t = h.t.value;
                    let want_t = k as f64 / 62.5e6;
                    if (t - want_t).abs() > 1e-15 || h.phi.value != phi {
                        Some(format!("isolated pulse on wire {w} at bin {k}: avalanche at t={t} phi={}", h.phi.value))
                    } else {
                        None
                    }
                }
            }
        };
        let imp = match guarded(|| verif_wire_range_deconvolution(&ws, (w, w + 1))) {
            Ok(v) => format!("ok {}", fvec(&v[0].1)),
            Err(m) => format!("panic {}", site(&m)),
        };
        s.push_oracle("isolated-pulse-event", req_ls("ls", WIRE_GRID, &sig, &wire_resp), imp, why);
    }

    // (vi) panic guards of nn_greedy_deconvolution (settings outside the grids in use; the
    // panics are the documented assertion / slice guards, not property violations)
    let sig = gen_signal(&mut rng, 40, &wire_resp);
    let short: Vec<f64> = vec![-3.0, -2.0, -1.0, 0.5, -0.25];
    for (resp, off, la) in [
        (&short, 6usize, 1usize), // response[offset..] out of range
        (&short, 5, 0),           // offset == len: ok start, empty window, look_ahead 0
        (&short, 2, 4),           // [..look_ahead] out of range
        (&short, 2, 2),           // window contains a positive sample: assert
        (&short, 3, 1),           // window is exactly the positive sample
        (&short, 0, 0),           // look_ahead 0: reduce on an empty window
        (&short, 0, 3),           // fine
        (&short, 1, 2),           // fine
    ] {
        let (imp, _) = impl_deconv(&sig, resp, off, la);
        s.push_oracle("guards", req_deconv("fast", off, la, &sig, resp), imp.clone(), None);
        s.push_oracle("guards", req_deconv("naive", off, la, &sig, resp), imp, None);
        // look_ahead 0 with a waveform shorter than the offset: the loop body never runs
        let (imp, _) = impl_deconv(&sig[..2], resp, off, la);
        s.push_oracle("guards", req_deconv("fast", off, la, &sig[..2], resp), imp, None);
    }
    for g in [(1usize, 0usize, 3usize, 5usize), (0, 1, 5, 3), (0, 0, 2, 3), (2, 3, 1, 2)] {
        // empty grids return the empty vector; grids touching the positive sample panic
        let (imp, _) = impl_ls(&sig, &short, g);
        s.push_oracle("guards", req_ls("ls", g, &sig, &short), imp.clone(), None);
        s.push_oracle("guards", req_ls("lsn", g, &sig, &short), imp, None);
    }

    // (vii) non-finite and signed-zero samples: outside the property's quantifier (no oracle on
    // values), but the fast == naive theorem and the model cover them
    for _ in 0..30 * scale {
        let len = rng.range(1, 60) as usize;
        let (wire, off, la) = *rng.pick(&st);
        let resp = if wire { &wire_resp } else { &pad_resp };
        let mut sig = gen_signal(&mut rng, len, resp);
        for _ in 0..rng.range(1, 4) {
            let i = rng.below(len as u64) as usize;
            sig[i] = *rng.pick(&[f64::NAN, f64::INFINITY, f64::NEG_INFINITY, 0.0, -0.0, 1e300, -1e300, -1e-310]);
        }
        add_deconv(s, "non-finite", &sig, trunc(resp, len), off, la, false);
        let (imp, _) = impl_ls(&sig, trunc(resp, len), if wire { WIRE_GRID } else { PAD_GRID });
        s.push_oracle("non-finite", req_ls("ls", if wire { WIRE_GRID } else { PAD_GRID }, &sig, trunc(resp, len)), imp, None);
    }
    true
}

/// Replay entry: answer one request line of this module.
pub fn run_request(cmd: &str, args: &[&str]) -> Option<String> {
    fn floats<'a>(args: &'a [&'a str]) -> Option<(Vec<f64>, &'a [&'a str])> {
        let n: usize = args.first()?.parse().ok()?;
        if args.len() < 1 + n {
            return None;
        }
        let v: Option<Vec<f64>> = args[1..1 + n].iter().map(|s| fparse(s)).collect();
        Some((v?, &args[1 + n..]))
    }
    match cmd {
        "deconv" => {
            let off: usize = args.get(1)?.parse().ok()?;
            let la: usize = args.get(2)?.parse().ok()?;
            let (sig, rest) = floats(&args[3..])?;
            let (resp, _) = floats(rest)?;
            Some(impl_deconv(&sig, &resp, off, la).0)
        }
        "ls" | "lsn" => {
            let g: Vec<usize> = args.iter().take(4).filter_map(|x| x.parse().ok()).collect();
            if g.len() != 4 {
                return None;
            }
            let (sig, rest) = floats(&args[4..])?;
            let (resp, _) = floats(rest)?;
            Some(impl_ls(&sig, &resp, (g[0], g[1], g[2], g[3])).0)
        }
        "pad" => {
            let (sig, _) = floats(args)?;
            Some(impl_pad(&sig).0)
        }
        _ => None,
    }
}
