//! C13: reconstruction respects the detector's cylindrical and mirror symmetry.
//!
//! Requests:
//!   ranges <0/1 string of 256>  -> ok <k> s-e s-e …   (order of `contiguous_ranges`' Vec)
//!   w2c <wire>                  -> ok <pad column>
//!   c2w <pad column>            -> ok <first> <last>
//!   match <first wire> <8 x (n floats…)> <k> <k x (row n floats…)>
//!                               -> ok <m> <m x (t-bin wire z[nm] wire-amp-bits pad-amp-bits)>
//!     (`match_column_inputs` on explicit deconvolved inputs; z rounded to 1e-9 m because it
//!      goes through `ln`)
//! The avalanche rotation / mirror checks are implementation-against-implementation oracles:
//! events are built with `MainEvent::verif_from_signals`, their signals rotated by 8k wires / k
//! pad columns (all 31 k) or mirrored in the pad rows, and the avalanche multisets compared bit
//! for bit (rotation; phi un-rotated exactly through the wire index) / z to 1e-9 m (mirror).
//! Each such case carries a `ranges` request of the transformed event's occupancy.
use crate::{guarded, Rng, Session};
use alpha_g_detector::alpha16::aw_map::{TpcWirePosition, TPC_ANODE_WIRES};
use alpha_g_detector::padwing::map::{TPC_PAD_COLUMNS, TPC_PAD_ROWS};
use alpha_g_physics::verif::{
    verif_contiguous_ranges, verif_match_column_inputs, verif_pad_column_to_wires,
    verif_pad_response, verif_wire_response, verif_wire_to_pad_column,
};
use alpha_g_physics::{Avalanche, MainEvent};
use std::collections::HashMap;

type Wires = [Option<Vec<f64>>; TPC_ANODE_WIRES];
type Pads = [[Option<Vec<f64>>; TPC_PAD_ROWS]; TPC_PAD_COLUMNS];

fn empty_wires() -> Wires {
    std::array::from_fn(|_| None)
}
fn empty_pads() -> Box<Pads> {
    // 18 432 Options: build on the heap
    let v: Vec<[Option<Vec<f64>>; TPC_PAD_ROWS]> = (0..TPC_PAD_COLUMNS).map(|_| std::array::from_fn(|_| None)).collect();
    let b: Box<[[Option<Vec<f64>>; TPC_PAD_ROWS]; TPC_PAD_COLUMNS]> = v.into_boxed_slice().try_into().ok().unwrap();
    b
}

/// `<n> <n bit patterns>` (same float encoding as the C17 requests).
fn fvec(v: &[f64]) -> String {
    let mut s = v.len().to_string();
    for x in v {
        s.push_str(&format!(" {:016x}", x.to_bits()));
    }
    s
}

fn occ_string(occ: &[bool]) -> String {
    occ.iter().map(|b| if *b { '1' } else { '0' }).collect()
}
fn occ_of(ws: &Wires) -> Vec<bool> {
    ws.iter().map(|w| w.is_some()).collect()
}

fn impl_ranges(occ: &[bool]) -> (String, Option<Vec<(usize, usize)>>) {
    let mut ws = empty_wires();
    for (i, b) in occ.iter().enumerate() {
        if *b {
            ws[i] = Some(Vec::new());
        }
    }
    match guarded(|| verif_contiguous_ranges(&ws)) {
        Ok(r) => {
            let mut s = format!("ok {}", r.len());
            for (a, b) in &r {
                s.push_str(&format!(" {a}-{b}"));
            }
            (s, Some(r))
        }
        Err(m) => (format!("panic {m}"), None),
    }
}

/// Independent specification: the maximal runs of occupied wires on the ring, written from the
/// comment of `contiguous_ranges` ("[first, last)", the last wire is contiguous with the first).
fn ring_runs(occ: &[bool]) -> Vec<(usize, usize)> {
    let n = occ.len();
    let mut out = Vec::new();
    if occ.iter().all(|b| *b) {
        return out;
    }
    for s in 0..n {
        if occ[s] && !occ[(s + n - 1) % n] {
            let mut len = 0;
            while occ[(s + len) % n] {
                len += 1;
            }
            let e = if s + len <= n { s + len } else { s + len - n };
            out.push((s, e));
        }
    }
    out
}

fn indices(r: (usize, usize), n: usize) -> Vec<usize> {
    if r.0 < r.1 {
        (r.0..r.1).collect()
    } else {
        (r.0..n).chain(0..r.1).collect()
    }
}

fn ranges_oracle(occ: &[bool], got: &Option<Vec<(usize, usize)>>) -> Option<String> {
    let Some(got) = got else { return Some("contiguous_ranges panicked".into()) };
    let n = occ.len();
    let occupied = occ.iter().filter(|b| **b).count();
    // cover + disjoint (every occupancy, the full ring included)
    let mut seen = vec![0usize; n];
    for r in got {
        for i in indices(*r, n) {
            if i >= n {
                return Some(format!("range {r:?} has index {i} outside the ring"));
            }
            seen[i] += 1;
        }
    }
    for i in 0..n {
        if seen[i] != occ[i] as usize {
            return Some(format!("wire {i} (occupied: {}) is in {} blocks", occ[i], seen[i]));
        }
    }
    if occupied < n {
        let mut a = got.clone();
        a.sort();
        let mut b = ring_runs(occ);
        b.sort();
        if a != b {
            return Some(format!("blocks {a:?} are not the maximal ring runs {b:?} ({occupied}/{n} wires)"));
        }
    }
    None
}

fn add_ranges(s: &mut Session, gen: &'static str, occ: &[bool]) {
    let (imp, got) = impl_ranges(occ);
    let why = ranges_oracle(occ, &got);
    s.push_oracle(gen, format!("ranges {}", occ_string(occ)), imp, why);
}

// ---------------------------------------------------------------- events
fn pulse_into(sig: &mut [f64], k: usize, a: f64, resp: &[f64]) {
    for j in k..sig.len() {
        if j - k < resp.len() {
            sig[j] += a * resp[j - k];
        }
    }
}

struct Builder {
    wire_resp: Vec<f64>,
    pad_resp: Vec<f64>,
}

impl Builder {
    fn wire_signal(&self, rng: &mut Rng, len: usize, hits: &[(usize, f64)], noise: f64) -> Vec<f64> {
        let mut s = vec![0.0; len];
        for (k, a) in hits {
            if *k < len {
                pulse_into(&mut s, *k, *a, &self.wire_resp);
            }
        }
        if noise > 0.0 {
            for x in s.iter_mut() {
                *x += noise * (2.0 * rng.f64_unit() - 1.0);
            }
        }
        s
    }
    /// A charge cloud on the pads of `col` around row `row` at time bin `k` (three to five rows,
    /// peaked in the middle) so that `pad_hits_at_t` sees a peak there.
    fn pad_cloud(&self, rng: &mut Rng, pads: &mut Pads, col: usize, row: usize, k: usize, b: f64, len: usize, noise: f64) {
        let shape: &[f64] = if rng.bool() { &[0.45, 1.0, 0.35] } else { &[0.1, 0.5, 1.0, 0.6, 0.15] };
        let half = shape.len() / 2;
        for (d, f) in shape.iter().enumerate() {
            let r = row as isize + d as isize - half as isize;
            if r < 0 || r >= TPC_PAD_ROWS as isize {
                continue;
            }
            let slot = &mut pads[col][r as usize];
            let sig = slot.get_or_insert_with(|| {
                let mut v = vec![0.0; len];
                if noise > 0.0 {
                    for x in v.iter_mut() {
                        *x = noise * (2.0 * rng.f64_unit() - 1.0);
                    }
                }
                v
            });
            pulse_into(sig, k, b * f * (0.9 + 0.2 * rng.f64_unit()), &self.pad_resp);
        }
    }

    /// An event whose occupied wires are `wires`; every occupied wire gets 0..=2 avalanches,
    /// each accompanied by a pad cloud in its column at the same time bin.
    fn event(&self, rng: &mut Rng, wires: &[usize], noise: f64, differing_lengths: bool) -> (Wires, Box<Pads>) {
        let mut ws = empty_wires();
        let mut ps = empty_pads();
        let base_len = rng.range(60, 140) as usize;
        for &w in wires {
            let len = if differing_lengths { rng.range(40, base_len as u64) as usize } else { base_len };
            let nh = rng.below(3) as usize;
            let mut hits = Vec::new();
            for _ in 0..nh {
                let k = rng.below((len - 20) as u64) as usize;
                let a = 10f64.powf(1.0 + 3.0 * rng.f64_unit());
                hits.push((k, a));
                let col = verif_wire_to_pad_column(w);
                let row = rng.below(TPC_PAD_ROWS as u64) as usize;
                let b = 10f64.powf(2.0 + 2.0 * rng.f64_unit());
                self.pad_cloud(rng, &mut ps, col, row, k, b, base_len, noise);
            }
            ws[w] = Some(self.wire_signal(rng, len, &hits, noise));
        }
        (ws, ps)
    }
}

fn rotate(ws: &Wires, ps: &Pads, k: usize) -> (Wires, Box<Pads>) {
    let mut rw = empty_wires();
    let mut rp = empty_pads();
    for w in 0..TPC_ANODE_WIRES {
        rw[(w + 8 * k) % TPC_ANODE_WIRES] = ws[w].clone();
    }
    for c in 0..TPC_PAD_COLUMNS {
        rp[(c + k) % TPC_PAD_COLUMNS] = ps[c].clone();
    }
    (rw, rp)
}

fn mirror(ps: &Pads) -> Box<Pads> {
    let mut m = empty_pads();
    for c in 0..TPC_PAD_COLUMNS {
        for r in 0..TPC_PAD_ROWS {
            m[c][TPC_PAD_ROWS - 1 - r] = ps[c][r].clone();
        }
    }
    m
}

fn avalanches(ws: &Wires, ps: &Pads) -> Result<Vec<Avalanche>, String> {
    let ev = MainEvent::verif_from_signals(ws.clone(), ps.clone(), 0);
    guarded(|| ev.avalanches())
}

/// (t bits, wire index, z bits, wire amplitude bits, pad amplitude bits), sorted.
fn keyed(av: &[Avalanche], phi_to_wire: &HashMap<u64, usize>, unrotate: usize) -> Result<Vec<(u64, usize, u64, u64, u64)>, String> {
    let mut v = Vec::with_capacity(av.len());
    for a in av {
        let w = *phi_to_wire.get(&a.phi.value.to_bits()).ok_or_else(|| format!("avalanche phi {} is no wire's phi", a.phi.value))?;
        let w0 = (w + TPC_ANODE_WIRES - (unrotate % TPC_ANODE_WIRES)) % TPC_ANODE_WIRES;
        v.push((a.t.value.to_bits(), w0, a.z.value.to_bits(), a.wire_amplitude.to_bits(), a.pad_amplitude.to_bits()));
    }
    v.sort();
    Ok(v)
}

fn rotation_case(s: &mut Session, gen: &'static str, ws: &Wires, ps: &Pads, ks: &[usize], phi_to_wire: &HashMap<u64, usize>, total: &mut usize) {
    let occupied = ws.iter().filter(|w| w.is_some()).count();
    let base = avalanches(ws, ps).and_then(|a| keyed(&a, phi_to_wire, 0));
    if let Ok(b) = &base {
        *total += b.len();
    }
    for &k in ks {
        let (rw, rp) = rotate(ws, ps, k);
        let rot = avalanches(&rw, &rp).and_then(|a| keyed(&a, phi_to_wire, 8 * k));
        let why = match (&base, &rot) {
            (Ok(b), Ok(r)) => {
                if b == r {
                    None
                } else {
                    let first = b.iter().zip(r.iter()).position(|(x, y)| x != y);
                    let detail = match first {
                        Some(i) => format!(
                            "first difference (un-rotated wire {} vs {}): wire amplitude {} vs {}, z {} vs {}",
                            b[i].1, r[i].1, f64::from_bits(b[i].3), f64::from_bits(r[i].3), f64::from_bits(b[i].2), f64::from_bits(r[i].2)
                        ),
                        None => format!("{} vs {} avalanches", b.len(), r.len()),
                    };
                    if occupied == TPC_ANODE_WIRES {
                        Some(format!("full-ring occupancy (256/256 wires): rotation by {k} pad columns changes the avalanches; {detail}"))
                    } else {
                        Some(format!("rotation by {k} pad columns changes the avalanches with {occupied}/256 wires occupied; {detail}"))
                    }
                }
            }
            (Err(m), _) | (_, Err(m)) => Some(format!("avalanches() failed ({occupied}/256 wires occupied): {m}")),
        };
        let occ = occ_of(&rw);
        let (imp, _) = impl_ranges(&occ);
        s.push_oracle(gen, format!("ranges {}", occ_string(&occ)), imp, why);
    }
}

fn mirror_case(s: &mut Session, gen: &'static str, ws: &Wires, ps: &Pads, total: &mut usize, worst: &mut f64) {
    let base = avalanches(ws, ps);
    let mir = avalanches(ws, &mirror(ps));
    let key = |a: &Avalanche| (a.t.value.to_bits(), a.phi.value.to_bits(), a.wire_amplitude.to_bits(), a.pad_amplitude.to_bits());
    let why = match (base, mir) {
        (Ok(mut b), Ok(mut m)) => {
            *total += b.len();
            // pair by (t, phi, amplitudes), then by z / -z
            b.sort_by(|x, y| key(x).cmp(&key(y)).then(x.z.value.total_cmp(&y.z.value)));
            m.sort_by(|x, y| key(x).cmp(&key(y)).then((-x.z.value).total_cmp(&(-y.z.value))));
            if b.len() != m.len() {
                Some(format!("mirror image has {} avalanches, original {}", m.len(), b.len()))
            } else {
                let mut why = None;
                for (x, y) in b.iter().zip(m.iter()) {
                    if key(x) != key(y) {
                        why = Some(format!("mirror image changes wire/time/amplitudes: t {} phi {} vs t {} phi {}", x.t.value, x.phi.value, y.t.value, y.phi.value));
                        break;
                    }
                    let d = (x.z.value + y.z.value).abs();
                    if d > *worst {
                        *worst = d;
                    }
                    if !(d <= 1e-9) {
                        why = Some(format!("mirror image z {} is not the negative of {} (difference {d} m)", y.z.value, x.z.value));
                        break;
                    }
                }
                why
            }
        }
        (Err(m), _) | (_, Err(m)) => Some(format!("avalanches() panicked: {m}")),
    };
    let occ = occ_of(ws);
    let (imp, _) = impl_ranges(&occ);
    s.push_oracle(gen, format!("ranges {}", occ_string(&occ)), imp, why);
}

fn block(start: usize, len: usize) -> Vec<usize> {
    (0..len).map(|j| (start + j) % TPC_ANODE_WIRES).collect()
}

pub fn generate(s: &mut Session, thorough: bool) -> bool {
    let mut rng = Rng::new(s.seed);
    let n = TPC_ANODE_WIRES;

    // (i) wire <-> pad column maps, exhaustively (and a few indices beyond the ring: the
    // functions are total on usize)
    for w in (0..n + 16).chain([usize::MAX - 8, usize::MAX]) {
        let imp = match guarded(|| verif_wire_to_pad_column(w)) {
            Ok(c) => format!("ok {c}"),
            Err(m) => format!("panic {m}"),
        };
        let why = if w < n {
            let c = verif_wire_to_pad_column(w);
            let r = verif_pad_column_to_wires(c);
            if c < TPC_PAD_COLUMNS && r.contains(&w) && r.len() == 8 { None } else { Some(format!("wire {w} is not inside the wires {r:?} of its pad column {c}")) }
        } else {
            None
        };
        s.push_oracle("wire-to-column", format!("w2c {w}"), imp, why);
    }
    for c in 0..TPC_PAD_COLUMNS + 8 {
        let r = guarded(|| verif_pad_column_to_wires(c));
        let (imp, why) = match r {
            Ok(r) => {
                let why = if c < TPC_PAD_COLUMNS && !(r.end <= n && r.len() == 8 && r.clone().all(|w| verif_wire_to_pad_column(w) == c)) {
                    Some(format!("pad column {c} owns wires {r:?}, which do not map back to it"))
                } else {
                    None
                };
                (format!("ok {} {}", r.start, r.end), why)
            }
            Err(m) => (format!("panic {m}"), Some(format!("pad_column_to_wires({c}) panicked"))),
        };
        s.push_oracle("column-to-wires", format!("c2w {c}"), imp, why);
    }

    // (ii) ranges: every single block (256 starts x lengths 1..=256 in thorough; stratified in
    // quick), the empty ring, the full ring
    add_ranges(s, "ranges-special", &vec![false; n]);
    add_ranges(s, "ranges-special", &vec![true; n]);
    let lens: Vec<usize> = if thorough { (1..=n).collect() } else { vec![1, 2, 3, 7, 8, 9, 127, 128, 200, 254, 255, 256] };
    for start in 0..n {
        for &len in &lens {
            let mut occ = vec![false; n];
            for w in block(start, len) {
                occ[w] = true;
            }
            add_ranges(s, "ranges-single-block", &occ);
        }
    }
    if !thorough {
        for start in [0usize, 1, 2, 127, 128, 254, 255] {
            for len in 1..=n {
                let mut occ = vec![false; n];
                for w in block(start, len) {
                    occ[w] = true;
                }
                add_ranges(s, "ranges-single-block", &occ);
            }
        }
    }
    // random multi-block patterns: several densities, forced seam configurations
    for i in 0..(if thorough { 40000 } else { 2500 }) {
        let p = *rng.pick(&[0.02, 0.1, 0.3, 0.5, 0.7, 0.9, 0.98]);
        let mut occ: Vec<bool> = (0..n).map(|_| rng.f64_unit() < p).collect();
        match i % 8 {
            0 => { occ[0] = true; occ[n - 1] = true; }
            1 => { occ[0] = true; occ[n - 1] = false; }
            2 => { occ[0] = false; occ[n - 1] = true; }
            3 => { occ[0] = false; occ[n - 1] = false; }
            4 => {
                // exactly one free wire somewhere
                occ = vec![true; n];
                occ[rng.below(n as u64) as usize] = false;
            }
            5 => {
                // runs of random lengths
                let mut w = 0;
                let mut on = rng.bool();
                while w < n {
                    let l = rng.range(1, 40) as usize;
                    for j in w..(w + l).min(n) {
                        occ[j] = on;
                    }
                    w += l;
                    on = !on;
                }
            }
            _ => {}
        }
        add_ranges(s, "ranges-random", &occ);
    }

    // (ii-b) match_column_inputs against the model on explicit (deconvolved-looking) inputs:
    // sparse positive amplitudes, zeros and negatives (filtered by `> 0.0`), peaks on the first
    // and last rows, inputs of differing lengths
    let phi_to_wire0: HashMap<u64, usize> =
        (0..n).map(|w| (TpcWirePosition::try_from(w).unwrap().phi().to_bits(), w)).collect();
    let mut match_total = 0usize;
    for i in 0..(if thorough { 4000 } else { 300 }) {
        let col = rng.below(TPC_PAD_COLUMNS as u64) as usize;
        let w0 = verif_pad_column_to_wires(col).start;
        let tmax = rng.range(1, 12) as usize;
        let mut wire_inputs: [Vec<f64>; 8] = std::array::from_fn(|_| Vec::new());
        for wi in wire_inputs.iter_mut() {
            let len = if rng.below(3) == 0 { rng.below(tmax as u64 + 1) as usize } else { tmax };
            *wi = (0..len)
                .map(|_| match rng.below(5) {
                    0 | 1 => 10f64.powf(4.0 * rng.f64_unit()),
                    2 => -rng.f64_unit(),
                    _ => 0.0,
                })
                .collect();
        }
        let mut rows: std::collections::BTreeMap<usize, Vec<f64>> = Default::default();
        for _ in 0..rng.range(0, 6) {
            let centre = match rng.below(6) {
                0 => 1,
                1 => TPC_PAD_ROWS - 2,
                2 => 0,
                3 => TPC_PAD_ROWS - 1,
                _ => rng.below(TPC_PAD_ROWS as u64) as usize,
            };
            let t = rng.below(tmax as u64) as usize;
            let b = 10f64.powf(1.0 + 3.0 * rng.f64_unit());
            // peaked shapes, plateaus (`middle > first` must be strict) and a zero neighbour
            // (`first > 0.0` must be strict)
            let shape: &[f64] = match i % 6 {
                0 | 1 => &[0.4, 1.0, 0.3],
                2 => &[0.2, 0.6, 1.0, 0.7, 0.1],
                3 => &[1.0, 1.0, 0.3],
                4 => &[0.3, 1.0, 1.0],
                _ => &[0.0, 1.0, 0.5, 0.2],
            };
            let jitter = i % 6 < 3;
            let half = shape.len() / 2;
            for (d, f) in shape.iter().enumerate() {
                let r = centre as isize + d as isize - half as isize;
                if r < 0 || r >= TPC_PAD_ROWS as isize {
                    continue;
                }
                let v = rows.entry(r as usize).or_insert_with(|| vec![0.0; if rng.below(4) == 0 { rng.range(0, tmax as u64) as usize } else { tmax }]);
                if t < v.len() {
                    v[t] += if jitter { b * f * (0.9 + 0.2 * rng.f64_unit()) } else { b * f };
                }
            }
        }
        let mut pad_inputs: Box<[Vec<f64>; TPC_PAD_ROWS]> = vec![Vec::new(); TPC_PAD_ROWS].into_boxed_slice().try_into().ok().unwrap();
        for (r, v) in &rows {
            pad_inputs[*r] = v.clone();
        }
        let indices: [usize; 8] = std::array::from_fn(|j| w0 + j);
        let mut req = format!("match {w0}");
        for wi in wire_inputs.iter() {
            req.push(' ');
            req.push_str(&fvec(wi));
        }
        req.push_str(&format!(" {}", rows.len()));
        for (r, v) in &rows {
            req.push_str(&format!(" {r} {}", fvec(v)));
        }
        let (imp, why) = match guarded(|| verif_match_column_inputs(indices, &wire_inputs, &pad_inputs)) {
            Ok(av) => {
                let mut sres = format!("ok {}", av.len());
                match_total += av.len();
                let mut why = None;
                for a in &av {
                    let w = phi_to_wire0.get(&a.phi.value.to_bits()).copied();
                    let tb = (a.t.value * 62.5e6).round() as i64;
                    if w.is_none() || !(a.wire_amplitude > 0.0) || !(a.pad_amplitude > 0.0) || !a.z.value.is_finite() || a.z.value.abs() > 1.152 + 0.004 {
                        why = Some(format!("avalanche outside the detector or with a non-positive amplitude: {a:?}"));
                    }
                    sres.push_str(&format!(" {tb} {} {} {:016x} {:016x}", w.unwrap_or(999), (a.z.value * 1e9).round() as i64, a.wire_amplitude.to_bits(), a.pad_amplitude.to_bits()));
                }
                (sres, why)
            }
            Err(m) => (format!("panic {m}"), Some(format!("match_column_inputs panicked: {m}"))),
        };
        s.push_oracle("match-column", req, imp, why);
    }
    s.notes.insert("match_column_avalanches".into(), match_total.into());

    // (iii) rotation of whole events, all 31 non-trivial rotations
    let b = Builder { wire_resp: verif_wire_response(), pad_resp: verif_pad_response() };
    let phi_to_wire: HashMap<u64, usize> =
        (0..n).map(|w| (TpcWirePosition::try_from(w).unwrap().phi().to_bits(), w)).collect();
    let all_k: Vec<usize> = (1..32).collect();
    let mut total = 0usize;
    let reps = if thorough { 12 } else { 1 };
    for _ in 0..reps {
        // random hit patterns
        for p in [0.03, 0.2, 0.6] {
            let wires: Vec<usize> = (0..n).filter(|_| rng.f64_unit() < p).collect();
            let noise = *rng.pick(&[0.0, 0.5]);
            let (ws, ps) = b.event(&mut rng, &wires, noise, true);
            rotation_case(s, "rot-random-hits", &ws, &ps, &all_k, &phi_to_wire, &mut total);
        }
        // simulated-looking: a few tracks, each a cluster of adjacent wires
        {
            let mut wires = Vec::new();
            for _ in 0..rng.range(2, 5) {
                let start = rng.below(n as u64) as usize;
                wires.extend(block(start, rng.range(3, 9) as usize));
            }
            wires.sort();
            wires.dedup();
            let (ws, ps) = b.event(&mut rng, &wires, 1.0, true);
            rotation_case(s, "rot-tracks", &ws, &ps, &all_k, &phi_to_wire, &mut total);
        }
        // blocks straddling the 255/0 seam (alone, and with other blocks)
        for (start, len) in [(250usize, 8usize), (255, 2), (249, 14), (200, 100)] {
            let mut wires = block(start, len);
            if rng.bool() {
                wires.extend(block(100, 5));
            }
            wires.sort();
            wires.dedup();
            let (ws, ps) = b.event(&mut rng, &wires, 0.0, true);
            rotation_case(s, "rot-seam-block", &ws, &ps, &all_k, &phi_to_wire, &mut total);
        }
        // one free wire (the largest non-full occupancy)
        {
            let free = rng.below(n as u64) as usize;
            let wires: Vec<usize> = (0..n).filter(|w| *w != free).collect();
            let (ws, ps) = b.event(&mut rng, &wires, 0.0, false);
            rotation_case(s, "rot-255-wires", &ws, &ps, &[1, 7, 16, 31], &phi_to_wire, &mut total);
        }
    }

    // (iv) mirror in z
    let mut mtotal = 0usize;
    let mut worst = 0.0f64;
    for i in 0..(if thorough { 600 } else { 40 }) {
        let wires: Vec<usize> = match i % 4 {
            0 => (0..n).filter(|_| rng.f64_unit() < 0.1).collect(),
            1 => block(rng.below(n as u64) as usize, rng.range(1, 30) as usize),
            2 => block(250, 12),
            _ => (0..n).filter(|_| rng.f64_unit() < 0.5).collect(),
        };
        let noise = *rng.pick(&[0.0, 0.5]);
        let (ws, ps) = b.event(&mut rng, &wires, noise, true);
        mirror_case(s, "mirror", &ws, &ps, &mut mtotal, &mut worst);
    }
    // (iv-b) mirror with flat-topped pad clouds: two to four adjacent pads carrying exactly the same
    // waveform (saturation, wide clouds). A strict local-maximum test sees no hit on a plateau on
    // either side of the mirror; a test that is strict on one side only reports the plateau at one of
    // its ends and is not mirror symmetric (seed C13-4). Distinct clouds keep distinct amplitudes, so
    // the known tie of finding F8 (equal pad-HIT amplitudes) does not arise.
    {
        let shapes: [&[f64]; 8] = [
            &[0.4, 1.0, 1.0, 0.3], &[0.3, 1.0, 1.0, 1.0, 0.45], &[1.0, 1.0], &[0.5, 1.0, 1.0], &[1.0, 1.0, 0.5],
            &[0.2, 0.6, 1.0, 1.0, 0.6, 0.25], &[0.35, 1.0, 1.0, 1.0, 1.0, 0.3], &[0.45, 1.0, 0.35],
        ];
        for i in 0..(if thorough { 400 } else { 48 }) {
            let mut ws = empty_wires();
            let mut ps = empty_pads();
            let len = 100usize;
            let nw = 1 + rng.below(3) as usize;
            for j in 0..nw {
                let w = (rng.below(n as u64) as usize + 40 * j) % n;
                let k = 10 + rng.below(60) as usize;
                let a = 200.0 + 100.0 * (i % 7) as f64 + 37.0 * j as f64;
                ws[w] = Some(b.wire_signal(&mut rng, len, &[(k, a)], 0.0));
                let col = verif_wire_to_pad_column(w);
                let shape = shapes[(i + j) % shapes.len()];
                let row0 = 1 + rng.below((TPC_PAD_ROWS - shape.len() - 2) as u64) as usize;
                let amp = 900.0 + 53.0 * i as f64 + 11.0 * j as f64;
                for (d, f) in shape.iter().enumerate() {
                    let slot = &mut ps[col][row0 + d];
                    let sig = slot.get_or_insert_with(|| vec![0.0; len]);
                    pulse_into(sig, k, amp * f, &b.pad_resp);
                }
            }
            mirror_case(s, "mirror-plateau", &ws, &ps, &mut mtotal, &mut worst);
        }
    }
    // (iv-c) mirror with two pad clusters in the same column and time bin whose maxima are 2, 3, 4, 6
    // rows apart (the scan over the rows must treat both alike whatever its direction); amplitudes of
    // the two clusters differ, so the tie of finding F8 does not arise
    for i in 0..(if thorough { 300 } else { 40 }) {
        let mut ws = empty_wires();
        let mut ps = empty_pads();
        let len = 100usize;
        let w = rng.below(n as u64) as usize;
        let w2 = (w / 8) * 8 + (w + 3) % 8;          // another wire of the same pad column
        let k = 10 + rng.below(60) as usize;
        ws[w] = Some(b.wire_signal(&mut rng, len, &[(k, 400.0 + 10.0 * i as f64)], 0.0));
        if w2 != w {
            ws[w2] = Some(b.wire_signal(&mut rng, len, &[(k, 250.0 + 7.0 * i as f64)], 0.0));
        }
        let col = verif_wire_to_pad_column(w);
        let gap = [2usize, 3, 4, 6, 2, 3][i % 6];
        let row0 = 2 + rng.below((TPC_PAD_ROWS - 20) as u64) as usize;
        for (c, (r, amp)) in [(row0, 1000.0 + 13.0 * i as f64), (row0 + gap, 700.0 + 9.0 * i as f64)].iter().enumerate() {
            let shape: &[f64] = if (i + c) % 2 == 0 { &[0.45, 1.0, 0.35] } else { &[0.3, 1.0, 0.5] };
            for (d, f) in shape.iter().enumerate() {
                let rr = r + d - 1;
                let slot = &mut ps[col][rr];
                let sig = slot.get_or_insert_with(|| vec![0.0; len]);
                pulse_into(sig, k, amp * f, &b.pad_resp);
            }
        }
        mirror_case(s, "mirror-close-maxima", &ws, &ps, &mut mtotal, &mut worst);
    }
    s.notes.insert("mirror_base_avalanches".into(), mtotal.into());
    s.notes.insert("mirror_worst_z_error_m".into(), worst.into());

    // (v) excluded point of the mirror theorem (DESIGN F8): two pad peaks of *exactly* equal
    // amplitude in one column at one time bin. Recorded as a note, not judged.
    {
        let mut ws = empty_wires();
        let mut ps = empty_pads();
        let len = 100;
        ws[16] = Some(b.wire_signal(&mut rng, len, &[(30, 500.0)], 0.0));
        ws[17] = Some(b.wire_signal(&mut rng, len, &[(30, 300.0)], 0.0));
        let col = verif_wire_to_pad_column(16);
        for row in [100usize, 300] {
            for (d, f) in [(0usize, 0.5), (1, 1.0), (2, 0.25)] {
                let mut v = vec![0.0; len];
                pulse_into(&mut v, 30, 1000.0 * f, &b.pad_resp);
                ps[col][row + d] = Some(v);
            }
        }
        let base = avalanches(&ws, &ps);
        let mir = avalanches(&ws, &mirror(&ps));
        let note = match (base, mir) {
            (Ok(bv), Ok(mv)) => {
                let mut zb: Vec<(u64, f64)> = bv.iter().map(|a| (a.wire_amplitude.to_bits(), a.z.value)).collect();
                let mut zm: Vec<(u64, f64)> = mv.iter().map(|a| (a.wire_amplitude.to_bits(), -a.z.value)).collect();
                zb.sort_by(|x, y| x.0.cmp(&y.0).then(x.1.total_cmp(&y.1)));
                zm.sort_by(|x, y| x.0.cmp(&y.0).then(x.1.total_cmp(&y.1)));
                let same = zb.len() == zm.len() && zb.iter().zip(&zm).all(|(x, y)| x.0 == y.0 && (x.1 - y.1).abs() <= 1e-9);
                format!("equal pad amplitudes: {} avalanches, mirror-symmetric pairing: {same}; original z {:?}, mirrored -z {:?}", zb.len(), zb.iter().map(|x| x.1).collect::<Vec<_>>(), zm.iter().map(|x| x.1).collect::<Vec<_>>())
            }
            _ => "panicked".into(),
        };
        // Judged: the property quantifies over all events, equal amplitudes included. The real
        // code pairs tied pad hits by their position in an unstable sort, which is not mirror
        // symmetric (finding F8); the text below is the signature matched in known_findings.json.
        let tie_breaks = note.contains("mirror-symmetric pairing: false");
        let occ = occ_of(&ws);
        let (imp, _) = impl_ranges(&occ);
        s.push_oracle(
            "mirror-tie",
            format!("ranges {}", occ_string(&occ)),
            imp,
            if tie_breaks {
                Some(format!("mirror tie (equal pad-hit amplitudes in one column and time bin): wires 16/17 amplitude 500/300, pad triplets at rows 100-102 and 300-302 of equal amplitude; {note}"))
            } else if note == "panicked" {
                Some("avalanches() panicked on the mirror tie probe".into())
            } else {
                None
            },
        );
        s.notes.insert("mirror_tie_probe".into(), note.into());
    }
    // (vi) the full ring, last: the report lists only the first 50 oracle failures, so the
    // known full-ring failures (finding F4) must not crowd out any other failure
    for _ in 0..reps {
        let wires: Vec<usize> = (0..n).collect();
        let (ws, ps) = b.event(&mut rng, &wires, 0.0, false);
        rotation_case(s, "rot-full-ring", &ws, &ps, &all_k, &phi_to_wire, &mut total);
    }
    s.notes.insert("rotation_base_avalanches".into(), total.into());
    true
}

/// Replay entry: answer one request line of this module.
pub fn run_request(cmd: &str, args: &[&str]) -> Option<String> {
    match (cmd, args) {
        ("ranges", [occ]) => {
            let v: Vec<bool> = occ.chars().map(|c| c == '1').collect();
            if v.len() != TPC_ANODE_WIRES {
                return Some("unsupported-request".into());
            }
            Some(impl_ranges(&v).0)
        }
        ("w2c", [w]) => w.parse::<usize>().ok().map(|w| match guarded(|| verif_wire_to_pad_column(w)) {
            Ok(c) => format!("ok {c}"),
            Err(m) => format!("panic {m}"),
        }),
        ("c2w", [c]) => c.parse::<usize>().ok().map(|c| match guarded(|| verif_pad_column_to_wires(c)) {
            Ok(r) => format!("ok {} {}", r.start, r.end),
            Err(m) => format!("panic {m}"),
        }),
        _ => None,
    }
}
