//! C05: PWB v2 packet decoding from a payload (also the PWB-packet part of C01:
//! `PwbV2Packet::try_from(&[u8])`, `waveform_at`, `ChannelId::try_from(u16)`,
//! `suppression_baseline`).
use crate::{guarded, hex, Rng, Session};
use alpha_g_detector::padwing::{
    suppression_baseline, AfterId, BoardId, ChannelId, Compression, PwbV2Packet, Trigger,
    TryPwbPacketFromSliceError as E,
};

/// All known boards as (name, MAC, device id). `PADWING_BOARDS` is private: enumerate the
/// two-character names through the public `BoardId::try_from(&str)`.
pub fn boards() -> Vec<(String, [u8; 6], u32)> {
    let alphabet: Vec<char> = ('0'..='9').chain('A'..='Z').chain('a'..='z').collect();
    let mut v = Vec::new();
    for a in &alphabet {
        for b in &alphabet {
            let name: String = [*a, *b].iter().collect();
            if let Ok(id) = BoardId::try_from(name.as_str()) {
                v.push((name, id.mac_address(), id.device_id()));
            }
        }
    }
    v
}

pub fn err_name(e: &E) -> &'static str {
    match e {
        E::IncompleteSlice { .. } => "IncompleteSlice",
        E::UnknownVersion { .. } => "UnknownVersion",
        E::UnknownAfterId(_) => "UnknownAfterId",
        E::UnknownCompression(_) => "UnknownCompression",
        E::UnknownTrigger(_) => "UnknownTrigger",
        E::UnknownMac(_) => "UnknownMac",
        E::ZeroMismatch { .. } => "ZeroMismatch",
        E::BadLastScaCell { .. } => "BadLastScaCell",
        E::BadScaSamples { .. } => "BadScaSamples",
        E::BadScaChannelsSent => "BadScaChannelsSent",
        E::BadScaChannelsThreshold => "BadScaChannelsThreshold",
        E::UnknownChannelId(_) => "UnknownChannelId",
        E::ChannelIdMismatch { .. } => "ChannelIdMismatch",
        E::NumberOfSamplesMismatch { .. } => "NumberOfSamplesMismatch",
        E::BadEndOfDataMarker { .. } => "BadEndOfDataMarker",
    }
}

/// Canonical name of a channel id (`R1..R3`, `F1..F4`, `P1..P72`). The inner index is private,
/// so it is read from the `Debug` rendering (`Pad(PadChannelId(17))`).
pub fn chan_str(c: &ChannelId) -> String {
    let d = format!("{c:?}");
    let num: String = d.chars().filter(|ch| ch.is_ascii_digit()).collect();
    let k = match c {
        ChannelId::Reset(_) => 'R',
        ChannelId::Fpn(_) => 'F',
        ChannelId::Pad(_) => 'P',
    };
    format!("{k}{num}")
}

/// Independent readout-index table written from the documentation (reset states at readout
/// 1..3, FPN at 16, 29, 54, 67, pads fill the remaining slots in order): entry `i` (1..=79) is
/// the canonical channel name. Built by counting, not by the decoder's subtraction formula.
pub fn readout_table() -> Vec<String> {
    let mut t = vec![String::new(); 80];
    let (mut f, mut p) = (0, 0);
    for i in 1..=79usize {
        t[i] = if i <= 3 {
            format!("R{i}")
        } else if [16, 29, 54, 67].contains(&i) {
            f += 1;
            format!("F{f}")
        } else {
            p += 1;
            format!("P{p}")
        };
    }
    assert!(f == 4 && p == 72);
    t
}

/// Field values of a PWB v2 packet (valid builder and harness re-encoder).
#[derive(Clone, Debug)]
pub struct Fields {
    pub after: u8, // wire byte
    pub comp: u8,
    pub trig: u8,
    pub mac: [u8; 6],
    pub delay: u16,
    pub ts: u64, // 48 bits
    pub last_sca: u16,
    pub req: u16,
    pub sent: u128, // 80-bit mask, bit i = readout index i+1
    pub thr: u128,
    pub evc: u32,
    pub fifo: u16,
    pub wd: u8,
    pub rd: u8,
    /// one waveform per set bit of `sent`, ascending
    pub waves: Vec<Vec<i16>>,
}

/// Independent encoder written from the documentation table (not from the decoder).
pub fn encode(f: &Fields) -> Vec<u8> {
    let mut v = Vec::new();
    v.push(2);
    v.push(f.after);
    v.push(f.comp);
    v.push(f.trig);
    v.extend(f.mac);
    v.extend(f.delay.to_le_bytes());
    v.extend(&f.ts.to_le_bytes()[..6]);
    v.extend([0, 0]);
    v.extend(f.last_sca.to_le_bytes());
    v.extend(f.req.to_le_bytes());
    v.extend(&f.sent.to_le_bytes()[..10]);
    v.extend(&f.thr.to_le_bytes()[..10]);
    v.extend(f.evc.to_le_bytes());
    v.extend(f.fifo.to_le_bytes());
    v.push(f.wd);
    v.push(f.rd);
    let mut w = f.waves.iter();
    for bit in 0..80u16 {
        if f.sent >> bit & 1 == 1 {
            let wave = w.next().expect("one waveform per sent channel");
            v.extend((bit + 1).to_le_bytes());
            v.extend(f.req.to_le_bytes());
            for s in wave {
                v.extend(s.to_le_bytes());
            }
            if wave.len() % 2 == 1 {
                v.extend([0, 0]);
            }
        }
    }
    v.extend([0xCC; 4]);
    v
}

pub fn boards_cached() -> &'static Vec<(String, [u8; 6], u32)> {
    static B: std::sync::OnceLock<Vec<(String, [u8; 6], u32)>> = std::sync::OnceLock::new();
    B.get_or_init(boards)
}

pub fn random_mask(rng: &mut Rng) -> u128 {
    let m79 = (1u128 << 79) - 1;
    let r = ((rng.next() as u128) << 64 | rng.next() as u128) & m79;
    match rng.below(6) {
        0 => 0,
        1 => 1u128 << rng.below(79),
        2 => r & (((rng.next() as u128) << 64 | rng.next() as u128) & ((rng.next() as u128) << 64 | rng.next() as u128)),
        3 => m79,
        _ => r,
    }
}

pub fn random_fields(rng: &mut Rng, sent: u128, req: u16) -> Fields {
    let edge16 = |rng: &mut Rng| -> u16 {
        match rng.below(5) {
            0 => 0,
            1 => 1,
            2 => 0xFFFF,
            3 => 0x8000,
            _ => rng.next() as u16,
        }
    };
    let n = sent.count_ones() as usize;
    let waves = (0..n)
        .map(|_| {
            (0..req)
                .map(|_| match rng.below(8) {
                    0 => i16::MIN,
                    1 => i16::MAX,
                    2 => -1,
                    3 => 0,
                    _ => rng.next() as i16,
                })
                .collect()
        })
        .collect();
    Fields {
        after: b'A' + rng.below(4) as u8,
        comp: 0,
        trig: *rng.pick(&[0u8, 1, 3]),
        mac: { let b = boards_cached(); b[rng.below(b.len() as u64) as usize].1 },
        delay: edge16(rng),
        ts: match rng.below(4) {
            0 => 0,
            1 => (1u64 << 48) - 1,
            _ => rng.next() & ((1u64 << 48) - 1),
        },
        last_sca: *rng.pick(&[0u16, 1, 255, 256, 510, 511]),
        req,
        sent,
        thr: random_mask(rng),
        evc: match rng.below(3) {
            0 => 0,
            1 => u32::MAX,
            _ => rng.next() as u32,
        },
        fifo: edge16(rng),
        wd: rng.next() as u8,
        rd: rng.next() as u8,
        waves,
    }
}

/// A small random valid packet (≤ 4 channels, ≤ 6 samples).
pub fn small_valid(rng: &mut Rng) -> Vec<u8> {
    let mut m = 0u128;
    for _ in 0..rng.range(1, 4) {
        m |= 1u128 << rng.below(79);
    }
    let req = rng.below(7) as u16;
    encode(&random_fields(rng, m, req))
}

fn after_num(a: AfterId) -> u8 {
    match a {
        AfterId::A => 0,
        AfterId::B => 1,
        AfterId::C => 2,
        AfterId::D => 3,
    }
}

fn join_or_dash(xs: &[String], sep: &str) -> String {
    if xs.is_empty() {
        "-".to_string()
    } else {
        xs.join(sep)
    }
}

/// `ok …` line of an accepted packet and the oracle verdict against the original bytes.
pub fn show_packet(p: &PwbV2Packet, bytes: &[u8]) -> (String, Option<String>) {
    let table = readout_table();
    let mut why: Option<String> = None;
    let mut fail = |m: String| {
        if why.is_none() {
            why = Some(m)
        }
    };
    let req = p.requested_samples();
    let sent: Vec<String> = p.channels_sent().iter().map(chan_str).collect();
    let thr: Vec<String> = p.channels_over_threshold().iter().map(chan_str).collect();
    // oracle: lists are the set bits of the masks, ascending, through the documented table
    let mask_at = |off: usize| -> u128 {
        let mut a = [0u8; 16];
        a[..10].copy_from_slice(&bytes[off..off + 10]);
        u128::from_le_bytes(a)
    };
    let (ms, mt) = (mask_at(24), mask_at(34));
    let names = |m: u128| -> Vec<String> {
        (0..128usize).filter(|i| m >> i & 1 == 1).map(|i| table.get(i + 1).cloned().unwrap_or("?".into())).collect()
    };
    if names(ms) != sent {
        fail("channels_sent differs from the set bits of the sent mask".into());
    }
    if names(mt) != thr {
        fail("channels_over_threshold differs from the set bits of the threshold mask".into());
    }
    // oracle: waveforms
    let bpc = 4 + 2 * req + if req % 2 == 1 { 2 } else { 0 };
    let mut waves_txt = Vec::new();
    let mut waves = Vec::new();
    for (k, c) in p.channels_sent().iter().enumerate() {
        match guarded(|| p.waveform_at(*c).map(|w| w.to_vec())) {
            Err(msg) => {
                fail(format!("waveform_at panicked: {msg}"));
                waves_txt.push(format!("{}:panic({msg})", chan_str(c)));
                waves.push(Vec::new());
            }
            Ok(None) => {
                fail("waveform_at is None for a sent channel".into());
                waves_txt.push(format!("{}:none", chan_str(c)));
                waves.push(Vec::new());
            }
            Ok(Some(w)) => {
                let off = 52 + bpc * k + 4;
                let want: Vec<i16> = (0..req)
                    .filter_map(|j| bytes.get(off + 2 * j..off + 2 * j + 2))
                    .map(|s| i16::from_le_bytes([s[0], s[1]]))
                    .collect();
                if w.len() != req || w != want {
                    fail(format!("waveform of sent channel {k} is not the {req} samples of its block"));
                }
                let strs: Vec<String> = w.iter().map(|x| x.to_string()).collect();
                waves_txt.push(format!("{}:{}", chan_str(c), join_or_dash(&strs, ",")));
                waves.push(w);
            }
        }
    }
    // oracle: channels not sent have no waveform (all 79 ids)
    for i in 1..=79u16 {
        if let Ok(c) = ChannelId::try_from(i) {
            if !p.channels_sent().contains(&c) {
                match guarded(|| p.waveform_at(c).is_some()) {
                    Err(msg) => fail(format!("waveform_at panicked: {msg}")),
                    Ok(true) => fail(format!("waveform_at is Some for readout {i} which was not sent")),
                    Ok(false) => {}
                }
            }
        }
    }
    // oracle: re-encoding the accessors reproduces the input
    let to_mask = |names: &[String]| -> u128 {
        let mut m = 0u128;
        for n in names {
            if let Some(i) = table.iter().position(|t| t == n) {
                m |= 1u128 << (i - 1);
            }
        }
        m
    };
    let f = Fields {
        after: b'A' + after_num(p.after_id()),
        comp: match p.compression() {
            Compression::Raw => 0,
        },
        trig: match p.trigger_source() {
            Trigger::External => 0,
            Trigger::Manual => 1,
            Trigger::InternalPulse => 3,
        },
        mac: p.board_id().mac_address(),
        delay: p.trigger_delay(),
        ts: p.trigger_timestamp(),
        last_sca: p.last_sca_cell(),
        req: req as u16,
        sent: to_mask(&sent),
        thr: to_mask(&thr),
        evc: p.event_counter(),
        fifo: p.fifo_max_depth(),
        wd: p.event_descriptor_write_depth(),
        rd: p.event_descriptor_read_depth(),
        waves,
    };
    let re = if f.sent.count_ones() as usize == f.waves.len() && p.trigger_timestamp() < 1 << 48 {
        encode(&f)
    } else {
        Vec::new()
    };
    if re != bytes {
        fail("re-encoding the accessors does not reproduce the input".into());
    }
    if req > 511 || p.last_sca_cell() > 511 {
        fail("accepted packet has requested_samples or last_sca_cell above 511".into());
    }
    let line = format!(
        "ok {} {} {} {} {} {} {} {} {} {} {} {} {} {} {} {} {} {}",
        after_num(p.after_id()),
        f.comp,
        f.trig,
        p.board_id().name(),
        hex(&p.board_id().mac_address()),
        p.board_id().device_id(),
        f.delay,
        f.ts,
        f.last_sca,
        req,
        join_or_dash(&sent, ","),
        join_or_dash(&thr, ","),
        f.evc,
        f.fifo,
        f.wd,
        f.rd,
        join_or_dash(&waves_txt, ";"),
        hex(&re)
    );
    (line, why)
}

/// Canonical answer of the implementation for `pwb <hex>`, plus the oracle verdict.
pub fn run_impl(bytes: &[u8]) -> (String, Option<String>) {
    match guarded(|| PwbV2Packet::try_from(bytes)) {
        Err(msg) => (format!("panic {msg}"), Some(format!("decoder panicked: {msg}"))),
        Ok(Err(e)) => (format!("err {}", err_name(&e)), None),
        Ok(Ok(p)) => show_packet(&p, bytes),
    }
}

pub fn run_chan(n: u16) -> (String, Option<String>) {
    let table = readout_table();
    match guarded(|| ChannelId::try_from(n)) {
        Err(msg) => (format!("panic {msg}"), Some(format!("ChannelId::try_from panicked: {msg}"))),
        Ok(Err(_)) => (
            "err TryChannelIdFromUnsignedError".into(),
            if (1..=79).contains(&n) { Some("readout index 1..=79 rejected".into()) } else { None },
        ),
        Ok(Ok(c)) => {
            let s = chan_str(&c);
            let why = if !(1..=79).contains(&n) {
                Some("readout index outside 1..=79 accepted".to_string())
            } else if table[n as usize] != s {
                Some(format!("readout {n} maps to {s}, documentation says {}", table[n as usize]))
            } else {
                None
            };
            (format!("ok {s} {n}"), why)
        }
    }
}

pub fn run_baseline(w: &[i16]) -> (String, Option<String>) {
    match guarded(|| suppression_baseline(0, w)) {
        Err(msg) => (format!("panic {msg}"), Some(format!("suppression_baseline panicked: {msg}"))),
        Ok(Err(_)) => ("err CalculateSuppressionBaselineError".into(), None),
        Ok(Ok(None)) => ("ok none".into(), None),
        Ok(Ok(Some(v))) => (format!("ok {v}"), None),
    }
}

/// Replay entry: answer one request line of this module (`None`: not this module's command).
pub fn run_request(cmd: &str, args: &[&str]) -> Option<String> {
    match (cmd, args) {
        ("pwb", [h]) => crate::unhex(h).map(|b| run_impl(&b).0),
        ("chan", [n]) => n.parse::<u16>().ok().map(|n| run_chan(n).0),
        ("baseline", [xs]) => {
            let w: Option<Vec<i16>> =
                if *xs == "-" { Some(vec![]) } else { xs.split(',').map(|x| x.parse().ok()).collect() };
            w.map(|w| run_baseline(&w).0)
        }
        _ => None,
    }
}

fn add(s: &mut Session, gen: &'static str, bytes: &[u8]) {
    let (imp, why) = run_impl(bytes);
    s.push_oracle(gen, format!("pwb {}", hex(bytes)), imp, why);
}

/// As `add`, and the generator *expects* acceptance (valid builder): rejection is an oracle
/// failure too.
fn add_valid(s: &mut Session, gen: &'static str, bytes: &[u8]) {
    let (imp, mut why) = run_impl(bytes);
    if why.is_none() && !imp.starts_with("ok ") {
        why = Some(format!("well-formed packet rejected: {imp}"));
    }
    s.push_oracle(gen, format!("pwb {}", hex(bytes)), imp, why);
}

/// As `add`, and the generator *expects* rejection.
fn add_invalid(s: &mut Session, gen: &'static str, bytes: &[u8]) {
    let (imp, mut why) = run_impl(bytes);
    if why.is_none() && imp.starts_with("ok ") {
        why = Some("ill-formed packet accepted".to_string());
    }
    s.push_oracle(gen, format!("pwb {}", hex(bytes)), imp, why);
}

pub fn generate(s: &mut Session, thorough: bool) -> bool {
    let mut rng = Rng::new(s.seed);
    let scale: usize = if thorough { 30 } else { 1 };
    let m79: u128 = (1u128 << 79) - 1;
    let reqs_fixed: [u16; 6] = [0, 1, 2, 3, 510, 511];

    // (i) all 79 single-channel masks x requested in {0,1,2,3,510,511,random}
    for bit in 0..79 {
        for r in 0..7 {
            let req = if r < 6 { reqs_fixed[r] } else { rng.below(512) as u16 };
            let f = random_fields(&mut rng, 1u128 << bit, req);
            add_valid(s, "single-channel", &encode(&f));
        }
    }
    // (ii) full mask (79 channels)
    for req in [0u16, 1, 2, 3, 510, 511] {
        let f = random_fields(&mut rng, m79, req);
        add_valid(s, "full-mask", &encode(&f));
    }
    // (iii) random masks, random requested (biased to small so that many masks are tried)
    for i in 0..400 * scale {
        let req = match i % 10 {
            0 => rng.below(512) as u16,
            1 => *rng.pick(&reqs_fixed),
            _ => rng.below(9) as u16,
        };
        let mut m = random_mask(&mut rng);
        if req > 64 {
            // keep big packets rare: at most 6 channels
            let mut k = 0u128;
            for _ in 0..rng.below(7) {
                k |= 1u128 << rng.below(79);
            }
            m = k;
        }
        let f = random_fields(&mut rng, m, req);
        add_valid(s, "random-valid", &encode(&f));
    }
    // a pool of small valid packets used as bases below
    let bases: Vec<Vec<u8>> = (0..8 * scale).map(|_| small_valid(&mut rng)).collect();
    let doc_packet: Vec<u8> = vec![
        2, 68, 0, 0, 236, 40, 255, 135, 84, 2, 1, 0, 2, 0, 0, 0, 0, 0, 0, 0, 3, 0, 5, 0, 0, 0, 0, 0, 0, 0, 0, 1, 1,
        1, 1, 1, 1, 0, 0, 0, 0, 0, 0, 0, 4, 0, 0, 0, 5, 0, 6, 7, 57, 0, 5, 0, 1, 2, 3, 4, 5, 6, 7, 8, 9, 10, 0, 0,
        65, 0, 5, 0, 11, 12, 13, 14, 15, 16, 17, 18, 19, 20, 0, 0, 73, 0, 5, 0, 21, 22, 23, 24, 25, 26, 27, 28, 29,
        30, 0, 0, 204, 204, 204, 204,
    ];
    add_valid(s, "doc-example", &doc_packet);

    // (iv) every value 0..=255 of bytes 0,1,2,3
    for base in [&doc_packet, &bases[0]] {
        for pos in 0..4 {
            for v in 0..=255u8 {
                let mut b = base.clone();
                b[pos] = v;
                add(s, "byte0-3-all-values", &b);
            }
        }
    }
    // (v) every header field at boundaries (data section left as is)
    let e16: [u16; 12] = [0, 1, 2, 255, 256, 510, 511, 512, 513, 0x7FFF, 0x8000, 0xFFFF];
    for base in bases.iter().take(3 * scale).chain(std::iter::once(&doc_packet)) {
        for off in [10usize, 12, 14, 16, 18, 20, 22, 44, 46, 48, 50] {
            for e in e16 {
                let mut b = base.clone();
                b[off..off + 2].copy_from_slice(&e.to_le_bytes());
                add(s, "header-field-boundary", &b);
            }
        }
        for off in [18usize, 19] {
            for v in [1u8, 0x80, 0xFF] {
                let mut b = base.clone();
                b[off] = v;
                add_invalid(s, "header-field-boundary", &b);
            }
        }
        // every known MAC, and each MAC with one bit flipped / one byte changed
        for t in boards_cached().iter() {
            let mut b = base.clone();
            b[4..10].copy_from_slice(&t.1);
            add_valid(s, "mac-table", &b);
        }
        for bit in 0..48 {
            let mut b = base.clone();
            b[4 + bit / 8] ^= 1 << (bit % 8);
            add(s, "mac-bitflip", &b);
        }
    }
    // requested changed consistently: same mask, req r vs data built for r' (all pairs small)
    for r_hdr in 0..6u16 {
        for r_data in 0..6u16 {
            let f = random_fields(&mut rng, 0b1010 << 20, r_data);
            let mut b = encode(&f);
            b[22..24].copy_from_slice(&r_hdr.to_le_bytes());
            add(s, "requested-vs-data", &b);
        }
    }
    // (v-b) lengths that equal a valid length modulo 2^8 / 2^16: bytes appended behind the end marker
    // and inserted in front of it
    for base in bases.iter().take(2).chain(std::iter::once(&doc_packet)) {
        for extra in [256usize, 65536, 2 * 65536] {
            for fill in [0u8, 0xCC] {
                let mut b = base.clone();
                b.resize(base.len() + extra, fill);
                add(s, "length-wrap", &b);
                let mut c = base[..base.len() - 4].to_vec();
                c.extend(std::iter::repeat(fill).take(extra));
                c.extend(&base[base.len() - 4..]);
                add(s, "length-wrap", &c);
            }
        }
    }
    // (vi) every length 0..=len+8 of small packets (truncation / zero and CC extension)
    for base in bases.iter().take(2 * scale).chain(std::iter::once(&doc_packet)) {
        for len in 0..=base.len() + 8 {
            let mut b = base.clone();
            b.resize(len, 0);
            add(s, "length", &b);
            let mut b = base.clone();
            b.resize(len, 0xCC);
            add(s, "length", &b);
        }
        // +-2 / +-4 with the end marker moved to the new end
        for d in [-4i64, -2, 2, 4, -1, 1, 3] {
            let n = base.len() as i64 - 4 + d;
            if n < 52 {
                continue;
            }
            let mut b = base[..base.len() - 4].to_vec();
            b.resize(n as usize, 0);
            b.extend([0xCC; 4]);
            add(s, "length-marker-moved", &b);
        }
    }
    // (vii) each per-channel header perturbed
    for base in bases.iter().take(4 * scale).chain(std::iter::once(&doc_packet)) {
        let req = u16::from_le_bytes([base[22], base[23]]) as usize;
        let bpc = 4 + 2 * req + if req % 2 == 1 { 2 } else { 0 };
        let n = (base.len() - 56) / bpc;
        for k in 0..n {
            let off = 52 + bpc * k;
            let idx = u16::from_le_bytes([base[off], base[off + 1]]);
            for v in [0u16, 1, 3, 4, 16, 29, 54, 67, 79, 80, 81, 255, 256, 0x8000, 0xFFFF, idx.wrapping_add(1), idx.wrapping_sub(1), idx ^ 0x100, idx] {
                let mut b = base.clone();
                b[off..off + 2].copy_from_slice(&v.to_le_bytes());
                if v == idx { add_valid(s, "block-header", &b) } else { add_invalid(s, "block-header", &b) }
            }
            for v in [0u16, 1, req as u16 + 1, (req as u16).wrapping_sub(1), req as u16 ^ 0x100, 511, 512, 0xFFFF] {
                if v as usize == req {
                    continue;
                }
                let mut b = base.clone();
                b[off + 2..off + 4].copy_from_slice(&v.to_le_bytes());
                add_invalid(s, "block-header", &b);
            }
            // (viii) padding perturbed
            if req % 2 == 1 {
                for (p, v) in [(0usize, 1u8), (1, 1), (0, 0x80), (1, 0xFF)] {
                    let mut b = base.clone();
                    b[off + 4 + 2 * req + p] = v;
                    add_invalid(s, "pad", &b);
                }
            }
        }
        // two blocks swapped (ascending order violated)
        if n >= 2 {
            let mut b = base.clone();
            let (x, y) = (52, 52 + bpc);
            for j in 0..bpc {
                b.swap(x + j, y + j);
            }
            add_invalid(s, "blocks-swapped", &b);
        }
        // marker perturbed
        let l = base.len();
        for p in 0..4 {
            for v in [0u8, 0xCD, 0x4C, 0xCE] {
                let mut b = base.clone();
                b[l - 1 - p] = v;
                add_invalid(s, "marker", &b);
            }
        }
        // (ix) bit 79 of both masks, other mask bits without matching data, threshold bits
        for (byte, bit) in [(33usize, 7u8), (43, 7)] {
            let mut b = base.clone();
            b[byte] |= 1 << bit;
            add_invalid(s, "mask-bit79", &b);
        }
        for bit in 0..80 {
            let mut b = base.clone();
            b[24 + bit / 8] ^= 1 << (bit % 8);
            add_invalid(s, "sent-mask-bitflip", &b);
            let mut b = base.clone();
            b[34 + bit / 8] ^= 1 << (bit % 8);
            add(s, "thr-mask-bitflip", &b);
        }
    }
    // bit 79 set *with* a matching block for "readout index 80" (must still be rejected)
    for req in [0u16, 1, 2] {
        let f = random_fields(&mut rng, 1u128 << 5, req);
        let mut b = encode(&f);
        b[24..34].copy_from_slice(&(1u128 << 79).to_le_bytes()[..10]);
        b[52..54].copy_from_slice(&80u16.to_le_bytes());
        add_invalid(s, "mask-bit79", &b);
        let mut b = encode(&f);
        b[34..44].copy_from_slice(&((1u128 << 79) | 5).to_le_bytes()[..10]);
        add_invalid(s, "mask-bit79", &b);
    }
    // (x) every single-bit flip of small packets
    for base in bases.iter().skip(4).take(3 * scale).chain(std::iter::once(&doc_packet)) {
        for bit in 0..base.len() * 8 {
            let mut b = base.clone();
            b[bit / 8] ^= 1 << (bit % 8);
            add(s, "bit-flip", &b);
        }
    }
    // (xi) malformed stream: random bytes with valid prefixes of growing length
    for _ in 0..300 * scale {
        let base = &bases[rng.below(bases.len() as u64) as usize];
        let keep = rng.below(base.len() as u64 + 1) as usize;
        let total = match rng.below(3) {
            0 => base.len(),
            1 => rng.below(200) as usize,
            _ => (base.len() as i64 + rng.range(0, 8) as i64 - 4).max(0) as usize,
        };
        let mut b = base[..keep.min(total)].to_vec();
        while b.len() < total {
            b.push(rng.next() as u8);
        }
        add(s, "random-tail", &b);
    }
    for _ in 0..100 * scale {
        let n = rng.below(160) as usize;
        add(s, "random", &rng.bytes(n));
    }
    // (xii) ChannelId::try_from(u16)
    let chan_inputs: Vec<u16> = if thorough {
        (0..=u16::MAX).collect()
    } else {
        (0..=300u16).chain([511, 512, 0x7FFF, 0x8000, 0xFFFE, 0xFFFF]).chain((0..200).map(|_| rng.next() as u16)).collect()
    };
    for n in chan_inputs {
        let (imp, why) = run_chan(n);
        s.push_oracle("chan", format!("chan {n}"), imp, why);
    }
    // (xiii) suppression_baseline: every length 0..=70, extremes, random
    let push_base = |s: &mut Session, w: Vec<i16>| {
        let (imp, why) = run_baseline(&w);
        let strs: Vec<String> = w.iter().map(|x| x.to_string()).collect();
        s.push_oracle("baseline", format!("baseline {}", join_or_dash(&strs, ",")), imp, why);
    };
    for len in 0..=70usize {
        push_base(s, vec![i16::MIN; len]);
        push_base(s, vec![i16::MAX; len]);
        push_base(s, (0..len).map(|_| rng.next() as i16).collect());
    }
    for _ in 0..100 * scale {
        let len = rng.range(68, 600) as usize;
        let bias = rng.next() as i16;
        push_base(s, (0..len).map(|_| if rng.bool() { bias } else { rng.next() as i16 }).collect());
    }
    for v in [-65i16, -64, -63, -1, 0, 1, 63, 64, 65] {
        // truncation toward zero: sum = v exactly
        let mut w = vec![0i16; 68];
        w[4] = v;
        push_base(s, w);
    }
    true
}
