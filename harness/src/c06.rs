//! C06: TRG packet decoding (also the TRG part of C01).
use crate::{guarded, hex, Rng, Session};
use alpha_g_detector::trigger::{TrgPacket, TryTrgPacketFromSliceError as E};

pub fn err_name(e: &E) -> &'static str {
    match e {
        E::SliceLengthMismatch { .. } => "SliceLengthMismatch",
        E::HeaderMaskMismatch { .. } => "HeaderMaskMismatch",
        E::FooterMaskMismatch { .. } => "FooterMaskMismatch",
        E::TrigOutMismatch { .. } => "TrigOutMismatch",
        E::BadTrigIn { .. } => "BadTrigIn",
        E::BadDriftCounter { .. } => "BadDriftCounter",
        E::BadScaledownCounter { .. } => "BadScaledownCounter",
        E::ZeroMismatch { .. } => "ZeroMismatch",
    }
}

/// Field values of a TRG packet, used by the valid builder and by the harness re-encoder.
#[derive(Clone, Debug)]
pub struct Fields {
    pub udp: u32,
    pub ts: u32,
    pub out: u32,
    pub inp: u32,
    pub pulser: u32,
    pub trig_bitmap: u32,
    pub nim: u32,
    pub esata: u32,
    pub mlu: bool,
    pub prompt: u16,
    pub drift: u32,
    pub scaledown: u32,
    pub aw_mult: u8,
    pub aw_bus: u16,
    pub bsc_bus: u64,
    pub bsc_mult: u8,
    pub latch: u8,
    pub fw: u32,
}

/// Independent encoder written from the documentation table (not from the decoder).
pub fn encode(f: &Fields) -> Vec<u8> {
    let mut v = Vec::with_capacity(80);
    v.extend(f.udp.to_le_bytes());
    v.extend((0x8000_0000u32 | (f.out & 0x0FFF_FFFF)).to_le_bytes());
    v.extend(f.ts.to_le_bytes());
    v.extend(f.out.to_le_bytes());
    v.extend(f.inp.to_le_bytes());
    v.extend(f.pulser.to_le_bytes());
    v.extend(f.trig_bitmap.to_le_bytes());
    v.extend(f.nim.to_le_bytes());
    v.extend(f.esata.to_le_bytes());
    v.extend((((f.mlu as u32) << 31) | f.prompt as u32).to_le_bytes());
    v.extend(f.drift.to_le_bytes());
    v.extend(f.scaledown.to_le_bytes());
    v.extend(0u32.to_le_bytes());
    v.extend((((f.aw_mult as u32) << 16) | f.aw_bus as u32).to_le_bytes());
    v.extend(f.bsc_bus.to_le_bytes());
    v.extend((f.bsc_mult as u32).to_le_bytes());
    v.extend((f.latch as u32).to_le_bytes());
    v.extend(f.fw.to_le_bytes());
    v.extend((0xE000_0000u32 | (f.out & 0x0FFF_FFFF)).to_le_bytes());
    v
}

pub fn random_fields(rng: &mut Rng) -> Fields {
    let edge = |rng: &mut Rng, max: u64| -> u64 {
        match rng.below(6) {
            0 => 0,
            1 => 1,
            2 => max,
            3 => max - 1,
            4 => max / 2,
            _ => if max == u64::MAX { rng.next() } else { rng.below(max + 1) },
        }
    };
    let mut c: Vec<u32> = (0..4).map(|_| edge(rng, u32::MAX as u64) as u32).collect();
    if rng.below(4) == 0 {
        let v = c[0];
        let k = rng.below(4) as usize;
        for x in c.iter_mut().take(k + 1) {
            *x = v;
        }
    }
    c.sort();
    Fields {
        udp: edge(rng, 0x7FFF_FFFF) as u32,
        ts: edge(rng, u32::MAX as u64) as u32,
        out: c[0],
        scaledown: c[1],
        drift: c[2],
        inp: c[3],
        pulser: edge(rng, u32::MAX as u64) as u32,
        trig_bitmap: rng.next() as u32,
        nim: rng.next() as u32,
        esata: rng.next() as u32,
        mlu: rng.bool(),
        prompt: edge(rng, 0xFFFF) as u16,
        aw_mult: edge(rng, 0xFF) as u8,
        aw_bus: edge(rng, 0xFFFF) as u16,
        bsc_bus: if rng.bool() { rng.next() } else { edge(rng, u64::MAX) },
        bsc_mult: edge(rng, 0xFF) as u8,
        latch: edge(rng, 0xFF) as u8,
        fw: edge(rng, u32::MAX as u64) as u32,
    }
}

/// Canonical answer of the implementation for `trg <hex>`, plus the oracle verdict.
pub fn run_impl(bytes: &[u8]) -> (String, Option<String>) {
    let res = guarded(|| TrgPacket::try_from(bytes));
    match res {
        Err(msg) => (format!("panic {msg}"), Some(format!("decoder panicked: {msg}"))),
        Ok(Err(e)) => (format!("err {}", err_name(&e)), None),
        Ok(Ok(p)) => {
            let f = Fields {
                udp: p.udp_counter(),
                ts: p.timestamp(),
                out: p.output_counter(),
                inp: p.input_counter(),
                pulser: p.pulser_counter(),
                trig_bitmap: p.trigger_bitmap(),
                nim: p.nim_bitmap(),
                esata: p.esata_bitmap(),
                mlu: p.satisfied_mlu().unwrap(),
                prompt: p.aw16_prompt().unwrap(),
                drift: p.drift_veto_counter().unwrap(),
                scaledown: p.scaledown_counter().unwrap(),
                aw_mult: p.aw16_multiplicity().unwrap(),
                aw_bus: p.aw16_bus().unwrap(),
                bsc_bus: p.bsc64_bus().unwrap(),
                bsc_mult: p.bsc64_multiplicity().unwrap(),
                latch: p.coincidence_latch().unwrap(),
                fw: p.firmware_revision().unwrap(),
            };
            let re = encode(&f);
            let mut why = None;
            if re != bytes {
                why = Some("re-encoding the accessors does not reproduce the input".to_string());
            } else if !(f.out <= f.scaledown && f.scaledown <= f.drift && f.drift <= f.inp) {
                why = Some("accepted packet violates output<=scaledown<=drift<=input".to_string());
            }
            (
                format!(
                    "ok {} {} {} {} {} {} {} {} {} {} {} {} {} {} {} {} {} {} {}",
                    f.udp, f.ts, f.out, f.inp, f.pulser, f.trig_bitmap, f.nim, f.esata, f.mlu as u8,
                    f.prompt, f.drift, f.scaledown, f.aw_mult, f.aw_bus, f.bsc_bus, f.bsc_mult,
                    f.latch, f.fw, hex(&re)
                ),
                why,
            )
        }
    }
}

/// Replay entry: answer one request line of this module (`None`: not this module's command).
pub fn run_request(cmd: &str, args: &[&str]) -> Option<String> {
    match (cmd, args) {
        ("trg", [h]) => crate::unhex(h).map(|b| run_impl(&b).0),
        _ => None,
    }
}

fn add(s: &mut Session, gen: &'static str, bytes: &[u8]) {
    let (imp, why) = run_impl(bytes);
    s.push_oracle(gen, format!("trg {}", hex(bytes)), imp, why);
}

pub fn generate(s: &mut Session, thorough: bool) -> bool {
    let mut rng = Rng::new(s.seed);
    let scale = if thorough { 40 } else { 1 };
    // (i) valid packets from the type-directed builder
    let mut valids = Vec::new();
    for _ in 0..300 * scale {
        let f = random_fields(&mut rng);
        let b = encode(&f);
        add(s, "valid", &b);
        valids.push(b);
    }
    // (ii) each 32-bit word of a valid packet replaced by boundary values
    let edges: [u32; 14] = [
        0, 1, 2, 0x7FFF_FFFF, 0x8000_0000, 0x8000_0001, 0xFFFF_FFFF, 0xFFFF_FFFE, 0x0FFF_FFFF,
        0x1000_0000, 0xE000_0000, 0x0000_FFFF, 0x0001_0000, 0x00FF_FFFF,
    ];
    for k in 0..(6 * scale).min(valids.len()) {
        let base = valids[k].clone();
        for w in 0..20 {
            for e in edges {
                let mut b = base.clone();
                b[4 * w..4 * w + 4].copy_from_slice(&e.to_le_bytes());
                add(s, "word-boundary", &b);
            }
        }
    }
    // (iii) every single-bit flip of valid packets (all 640 bits)
    for k in 0..(4 * scale).min(valids.len()) {
        let base = valids[valids.len() - 1 - k].clone();
        for bit in 0..640 {
            let mut b = base.clone();
            b[bit / 8] ^= 1 << (bit % 8);
            add(s, "bit-flip", &b);
        }
    }
    // (iii-b) every pair of reserved bits set together (a validation that combines the
    // reserved-bit tests of several words can cancel two of them)
    {
        let mut reserved: Vec<usize> = vec![31];
        reserved.extend((16..31).map(|b| 9 * 32 + b));
        reserved.extend((0..32).map(|b| 12 * 32 + b));
        reserved.extend((24..32).map(|b| 13 * 32 + b));
        reserved.extend((8..32).map(|b| 16 * 32 + b));
        reserved.extend((8..32).map(|b| 17 * 32 + b));
        let base = valids[0].clone();
        for (i, &a) in reserved.iter().enumerate() {
            for &c in reserved.iter().skip(i + 1) {
                let mut b = base.clone();
                b[a / 8] ^= 1 << (a % 8);
                b[c / 8] ^= 1 << (c % 8);
                add(s, "reserved-bit-pairs", &b);
            }
        }
    }
    // (iv) all orderings and tie patterns of the four counters around a common value
    for centre in [0u32, 1, 5, 0x0FFF_FFFF, 0x1000_0000, 0xFFFF_FFFD] {
        for pat in 0..81u32 {
            let mut f = random_fields(&mut rng);
            let d = |i: u32| centre.wrapping_add((pat / 3u32.pow(i)) % 3);
            f.out = d(0);
            f.scaledown = d(1);
            f.drift = d(2);
            f.inp = d(3);
            add(s, "counter-orderings", &encode(&f));
        }
    }
    // (v) header / footer / output low-28-bit agreement matrix, marks perturbed
    for _ in 0..20 * scale {
        let f = random_fields(&mut rng);
        let base = encode(&f);
        for hv in 0..3u32 {
            for fv in 0..3u32 {
                for (hm, fm) in [(0x8u32, 0xEu32), (0x8, 0x8), (0xE, 0xE), (0x0, 0xE), (0x8, 0xF), (0x9, 0xE)] {
                    let mut b = base.clone();
                    let lo = f.out & 0x0FFF_FFFF;
                    let h = (hm << 28) | ((lo.wrapping_add(hv)) & 0x0FFF_FFFF);
                    let ft = (fm << 28) | ((lo.wrapping_add(fv * 7)) & 0x0FFF_FFFF);
                    b[4..8].copy_from_slice(&h.to_le_bytes());
                    b[76..80].copy_from_slice(&ft.to_le_bytes());
                    add(s, "header-footer-matrix", &b);
                }
            }
        }
    }
    // (vi) every length 0..=160 (truncations / extensions of a valid packet, and zeros)
    for len in 0..=160usize {
        let mut b = valids[len % valids.len()].clone();
        b.resize(len, 0);
        add(s, "length", &b);
        add(s, "length", &vec![0u8; len]);
    }
    // (vi-b) lengths that equal 80 modulo a power of two (a length compared after a narrowing cast:
    // seed C06-8 accepted 80 + 65536 bytes), valid packet first, zeros or a second packet behind
    for extra in [256usize, 512, 1024, 4096, 65536, 2 * 65536, 65536 + 256, (1 << 20)] {
        for fill in [0u8, 0xFF] {
            let mut b = valids[extra % valids.len()].clone();
            b.resize(80 + extra, fill);
            add(s, "length-wrap", &b);
        }
        let mut b = valids[0].clone();
        while b.len() < 80 + extra {
            b.extend_from_slice(&valids[1]);
        }
        b.truncate(80 + extra);
        add(s, "length-wrap", &b);
    }
    // (vii) malformed stream: random bytes, with and without plausible marks
    for _ in 0..300 * scale {
        let mut b = rng.bytes(80);
        if rng.bool() {
            b[7] = (b[7] & 0x0F) | 0x80;
            b[79] = (b[79] & 0x0F) | 0xE0;
            b[3] &= 0x7F;
        }
        add(s, "random", &b);
    }
    true
}
