//! C19: alpha-g-vertices and alpha-g-trg-scalers, driven as real processes on generated MIDAS
//! files. The CSVs are compared (a) with the Lean row model (`scan`, `sortfiles` requests) and
//! (b) by an oracle written here from the property text, using the library in-process for the
//! per-event columns.
use crate::c06::{encode as trg_encode, random_fields};
use crate::midasw::*;
use crate::{Rng, Session};
use alpha_g_detector::trigger::TrgPacket;
use alpha_g_physics::MainEvent;
use std::path::PathBuf;

#[derive(Clone, Debug)]
struct FileDesc {
    name: String, // with extension
    run: u32,
    t0: u32,
    /// big-endian file
    big: bool,
    t1: u32,
    events: Vec<Event>,
}

/// Expected `(serial, decoded timestamp)` of the main events for the vertices binary
/// (decodable = `MainEvent::try_from_banks` succeeds) and the library's vertex.
fn vertices_view(run: u32, e: &Event) -> (u32, Option<u32>, Option<[f64; 3]>) {
    let banks = e.banks.iter().map(|b| (b.name.as_str(), &b.data[..]));
    match MainEvent::try_from_banks(run, banks) {
        Ok(ev) => {
            use uom::si::length::meter;
            let v = ev.vertex().map(|c| [c.x.get::<meter>(), c.y.get::<meter>(), c.z.get::<meter>()]);
            (e.serial, Some(ev.timestamp()), v)
        }
        Err(_) => (e.serial, None, None),
    }
}

/// Same for the scalers binary (decodable = exactly one ATAT bank and it decodes).
fn scalers_view(e: &Event) -> (u32, Option<TrgPacket>) {
    let trg: Vec<&Bank> = e.banks.iter().filter(|b| b.name == "ATAT").collect();
    if trg.len() != 1 {
        return (e.serial, None);
    }
    (e.serial, TrgPacket::try_from(&trg[0].data[..]).ok())
}

/// Oracle for the time column, from the property text: a time is present exactly for decodable
/// events, and for any two decodable events the difference of their clock counts equals the sum
/// of the 32-bit-wrapped timestamp differences between consecutive decodable events. (The
/// absolute offset of the first decodable event is not constrained by the property.)
fn check_times(times: &[Option<f64>], ts: &[Option<u32>]) -> Option<String> {
    let mut exp: u64 = 0;
    let mut prev: Option<u32> = None;
    let mut base: Option<(u64, u64)> = None; // (csv count, expected count) of the first decodable
    for (i, (t, d)) in times.iter().zip(ts.iter()).enumerate() {
        match (t, d) {
            (None, None) => {}
            (Some(t), Some(d)) => {
                if let Some(p) = prev {
                    exp += u64::from(d.wrapping_sub(p));
                }
                prev = Some(*d);
                let count = (t * 62.5e6).round();
                if !(count >= 0.0) || (count / 62.5e6).to_bits() != t.to_bits() {
                    return Some(format!("row {i}: trg_time {t:?} is not an integer count / 62.5 MHz"));
                }
                let count = count as u64;
                match base {
                    None => base = Some((count, exp)),
                    Some((c0, e0)) => {
                        if count.wrapping_sub(c0) != exp - e0 {
                            return Some(format!(
                                "row {i}: count difference to the first decodable event is {} but the wrapped timestamp differences sum to {}",
                                count.wrapping_sub(c0), exp - e0));
                        }
                    }
                }
            }
            (a, b) => return Some(format!("row {i}: time present = {}, event decodable = {}", a.is_some(), b.is_some())),
        }
    }
    None
}

fn fmt_opt<T: ToString>(v: Option<T>) -> String {
    v.map(|x| x.to_string()).unwrap_or_default()
}

fn random_event(rng: &mut Rng, serial: u32, ts: &mut u32) -> Event {
    // timestamps advance by large steps so that 2^32 is crossed several times per run
    *ts = ts.wrapping_add(match rng.below(4) {
        0 => rng.below(1000) as u32,
        1 => 0x3000_0000 + rng.below(0x2000_0000) as u32,
        2 => 0x7FFF_FFFF,
        _ => rng.next() as u32,
    });
    // one event in eight lands exactly on a special tick: the counter wrapped onto 0, its last tick,
    // the middle of the range (a timestamp of 0 must not be mistaken for "no timestamp yet")
    if rng.below(8) == 0 {
        *ts = *rng.pick(&[0u32, 0, 0xFFFF_FFFF, 0x8000_0000, 1]);
    }
    let kind = rng.below(100);
    let id: u16 = if kind < 70 { 1 } else if kind < 80 { 4 } else if kind < 90 { 8 } else { [2u16, 3, 0, 9][rng.below(4) as usize] };
    let mut banks = Vec::new();
    if id == 1 {
        let mut f = random_fields(rng);
        f.ts = *ts;
        let trg = trg_encode(&f);
        match rng.below(12) {
            0 => {} // no TRG bank at all
            1 => {
                let mut bad = trg.clone();
                bad.truncate(79);
                banks.push(Bank { name: "ATAT".into(), data: bad });
            }
            2 => {
                banks.push(Bank { name: "ATAT".into(), data: trg.clone() });
                banks.push(Bank { name: "ATAT".into(), data: trg });
            }
            3 => {
                banks.push(Bank { name: "ATAT".into(), data: trg });
                banks.push(Bank { name: "ZZZZ".into(), data: vec![1, 2, 3] }); // unknown bank: MainEvent fails, scalers fine
            }
            4 => {
                let mut bad = trg.clone();
                bad[79] = 0; // footer mark destroyed
                banks.push(Bank { name: "ATAT".into(), data: bad });
            }
            5 => {
                banks.push(Bank { name: "TRBA".into(), data: rng.bytes(13) });
                banks.push(Bank { name: "ATAT".into(), data: trg });
                banks.push(Bank { name: "MCVX".into(), data: rng.bytes(24) });
            }
            6 => {
                // a suppressed (16-byte) wire packet: accepted and ignored
                banks.push(Bank { name: "ATAT".into(), data: trg });
                let mut adc = vec![1u8, 3, 0, 0, 0, 128 + 5, 0, 0, 0, 0, 0, 0, 0x20, 0, 0, 0];
                adc[2] = rng.next() as u8;
                banks.push(Bank { name: "C095".into(), data: adc });
            }
            _ => banks.push(Bank { name: "ATAT".into(), data: trg }),
        }
    } else if id == 4 {
        banks.push(Bank { name: "CBF1".into(), data: rng.bytes(8) });
    } else {
        banks.push(Bank { name: "SEQ2".into(), data: rng.bytes(5) });
    }
    Event { id, serial, ts: *ts, banks }
}

fn random_run(rng: &mut Rng, max_events: u64) -> Vec<FileDesc> {
    let nfiles = rng.range(1, 4) as usize;
    let run = if rng.bool() { u32::MAX } else { [0u32, 5000, 11084, 2941][rng.below(4) as usize] };
    let mut serial = rng.below(1000) as u32;
    let mut ts = rng.next() as u32;
    // start of the run: anywhere, or just below a carry out of the low byte(s) of the timestamp (a
    // timestamp read in the wrong byte order sorts differently there: seed C19-7)
    let mut t = match rng.below(3) {
        0 => 0x6553_F0FCu32 + rng.below(4) as u32,
        1 => 0x6553_FFFDu32 + rng.below(3) as u32,
        _ => 1_700_000_000u32 + rng.below(1000) as u32,
    };
    // one run in three is written big-endian (midasio reads both byte orders)
    let big = rng.below(3) == 0;
    let mut files = Vec::new();
    for i in 0..nfiles {
        let n = rng.below(max_events + 1);
        let mut events = Vec::new();
        for _ in 0..n {
            events.push(random_event(rng, serial, &mut ts));
            serial = serial.wrapping_add(1 + rng.below(2) as u32);
        }
        let t0 = t;
        let t1 = t + 1 + rng.below(5) as u32;
        t = t1 + rng.below(2) as u32; // next file starts 0 or 1 s later
        let ext = if rng.below(3) == 0 { "mid.lz4" } else { "mid" };
        files.push(FileDesc { name: format!("run{:05}sub{:03}.{ext}", run % 100000, i), run, t0, big, t1, events });
    }
    files
}

struct Prepared {
    dir: PathBuf,
    paths: Vec<PathBuf>,
}

fn write_run(dir: &PathBuf, files: &[FileDesc]) -> Prepared {
    let mut paths = Vec::new();
    for f in files {
        let p = dir.join(&f.name);
        write_midas(&p, &file_bytes_endian(f.run, f.t0, f.t1, &f.events, f.big));
        paths.push(p);
    }
    Prepared { dir: dir.clone(), paths }
}

/// Describe a run compactly for the request line (replay regenerates files from seed + index).
fn describe(files: &[FileDesc]) -> String {
    files
        .iter()
        .map(|f| format!("{}:{}:{}:{}", f.name, f.run, f.t0, f.events.len()))
        .collect::<Vec<_>>()
        .join(",")
}

pub fn generate(s: &mut Session, thorough: bool) -> bool {
    let mut rng = Rng::new(s.seed);
    let nruns = if thorough { 1500 } else { 100 };
    let root = scratch_dir("c19");
    let mut n_rows = 0usize;
    for r in 0..nruns {
        let max_events = if r % 5 == 0 { 60 } else { 12 };
        let files = random_run(&mut rng, max_events);
        let dir = root.join(format!("r{r}"));
        std::fs::create_dir_all(&dir).unwrap();
        let prep = write_run(&dir, &files);
        let run = files[0].run;
        // processing order: by initial timestamp
        let mut order: Vec<usize> = (0..files.len()).collect();
        order.sort_by_key(|&i| files[i].t0);
        let mains: Vec<&Event> = order.iter().flat_map(|&i| files[i].events.iter().filter(|e| e.id == 1)).collect();

        // ---- model request 1: sort_run_files
        let heads: Vec<String> =
            files.iter().enumerate().map(|(i, f)| format!("{i}:1:{}:{}", f.run, f.t0)).collect();
        let imp_sort = format!(
            "ok {} {}",
            run,
            order.iter().map(|i| i.to_string()).collect::<Vec<_>>().join(" ")
        );
        // the implementation's order is observed through the CSV below; this case ties the
        // model's sort to the order the harness expects
        s.push("sortfiles-valid", format!("sortfiles {}", heads.join(" ")), imp_sort.trim_end().to_string());

        // ---- vertices
        let views: Vec<(u32, Option<u32>, Option<[f64; 3]>)> = mains.iter().map(|e| vertices_view(run, e)).collect();
        let req = format!(
            "scan {}",
            views.iter().map(|(sn, ts, _)| format!("{sn}:{}", ts.map(|t| t.to_string()).unwrap_or("-".into()))).collect::<Vec<_>>().join(" ")
        );
        let mut first_csv: Option<String> = None;
        let mut why: Option<String> = None;
        let mut imp = String::new();
        let thread_counts: &[usize] = if r % 4 == 0 { &[1, 2, 5, 16] } else { &[1, 5] };
        for (k, &threads) in thread_counts.iter().enumerate() {
            let mut args = prep.paths.clone();
            if k % 2 == 1 {
                args.reverse();
            } else if k > 0 {
                rng.shuffle(&mut args);
            }
            let res = run_binary("alpha-g-vertices", &args, &prep.dir.join("out_v"), threads);
            let Some(csv) = res.csv.filter(|_| res.status_ok) else {
                why = Some(format!("alpha-g-vertices failed on a valid run ({} threads): {}", threads, res.stderr));
                imp = "failed".into();
                break;
            };
            let rows = csv_rows(&csv);
            // canonical: serial:cum derived back from trg_time is not possible; print serial and
            // whether a time is present, and check the numeric value against the model below
            let body: String = rows.iter().map(|r| r.join(",")).collect::<Vec<_>>().join(";");
            match &first_csv {
                None => first_csv = Some(body.clone()),
                Some(b) if *b != body => {
                    why = Some(format!("CSV rows differ between thread counts / argument orders ({} threads)", threads));
                }
                _ => {}
            }
            if k == 0 {
                // oracle: one row per main event, in order, serial, columns = library
                if rows.len() != views.len() {
                    why = Some(format!("{} rows for {} main events", rows.len(), views.len()));
                }
                let times: Vec<Option<f64>> = rows.iter().map(|r| r.get(1).and_then(|x| x.parse::<f64>().ok())).collect();
                let tss: Vec<Option<u32>> = views.iter().map(|v| v.1).collect();
                if why.is_none() && rows.len() == views.len() {
                    why = check_times(&times, &tss);
                }
                for (row, (sn, _ts, vtx)) in rows.iter().zip(views.iter()) {
                    let same = row.len() == 5
                        && row[0] == sn.to_string()
                        && (2..5).all(|c| row[c].parse::<f64>().ok().map(f64::to_bits) == vtx.map(|v| v[c - 2].to_bits()));
                    if !same && why.is_none() {
                        why = Some(format!("vertices row {:?}: serial/vertex columns differ from the library's ({sn}, {vtx:?})", row));
                    }
                }
                // and the CSV's own time column must be the model's cumulative count / 62.5 MHz:
                // re-derive the counts from the CSV to put the *binary's* numbers in the answer
                let from_csv: Vec<String> = rows
                    .iter()
                    .map(|r| {
                        let t = r.get(1).and_then(|x| x.parse::<f64>().ok());
                        format!("{}:{}", r[0], t.map(|t| ((t * 62.5e6).round() as u64).to_string()).unwrap_or("-".into()))
                    })
                    .collect();
                imp = format!("rows {}", from_csv.join(" "));
                n_rows += rows.len();
            }
        }
        s.push_oracle("vertices", format!("{req}"), imp.trim_end().to_string(), why.map(|w| format!("{w} [run {}]", describe(&files))));

        // ---- trg-scalers
        let sviews: Vec<(u32, Option<TrgPacket>)> = mains.iter().map(|e| scalers_view(e)).collect();
        let req = format!(
            "scan {}",
            sviews.iter().map(|(sn, p)| format!("{sn}:{}", p.map(|p| p.timestamp().to_string()).unwrap_or("-".into()))).collect::<Vec<_>>().join(" ")
        );
        let mut args = prep.paths.clone();
        rng.shuffle(&mut args);
        let res = run_binary("alpha-g-trg-scalers", &args, &prep.dir.join("out_s"), 1);
        let mut why: Option<String> = None;
        let imp;
        if let Some(csv) = res.csv.filter(|_| res.status_ok) {
            let rows = csv_rows(&csv);
            if rows.len() != sviews.len() {
                why = Some(format!("{} rows for {} main events", rows.len(), sviews.len()));
            }
            let times: Vec<Option<f64>> = rows.iter().map(|r| r.get(1).and_then(|x| x.parse::<f64>().ok())).collect();
            let tss: Vec<Option<u32>> = sviews.iter().map(|v| v.1.map(|p| p.timestamp())).collect();
            if why.is_none() {
                why = check_times(&times, &tss);
            }
            for (row, (sn, p)) in rows.iter().zip(sviews.iter()) {
                let exp = vec![
                    sn.to_string(),
                    String::new(),
                    fmt_opt(p.map(|p| p.input_counter())),
                    fmt_opt(p.and_then(|p| p.drift_veto_counter())),
                    fmt_opt(p.and_then(|p| p.scaledown_counter())),
                    fmt_opt(p.map(|p| p.pulser_counter())),
                    fmt_opt(p.map(|p| p.output_counter())),
                ];
                let same = row.len() == 7 && row[0] == exp[0] && (2..7).all(|c| row[c] == exp[c]);
                if !same && why.is_none() {
                    why = Some(format!("scalers row {:?} != expected {:?} (time column aside)", row, exp));
                }
            }
            let from_csv: Vec<String> = rows
                .iter()
                .map(|r| {
                    let t = r.get(1).and_then(|x| x.parse::<f64>().ok());
                    format!("{}:{}", r[0], t.map(|t| ((t * 62.5e6).round() as u64).to_string()).unwrap_or("-".into()))
                })
                .collect();
            imp = format!("rows {}", from_csv.join(" "));
            n_rows += rows.len();
        } else {
            why = Some(format!("alpha-g-trg-scalers failed on a valid run: {}", res.stderr));
            imp = "failed".into();
        }
        s.push_oracle("scalers", req, imp.trim_end().to_string(), why.map(|w| format!("{w} [run {}]", describe(&files))));

        // ---- refusals (every 3rd run): mixed run numbers, duplicate t0, unknown extension
        if r % 3 == 0 && files.len() >= 2 {
            for fault in 0..3 {
                let mut bad = files.clone();
                let (heads, expect_err): (Vec<String>, &str) = match fault {
                    0 => {
                        let k = 1 + rng.below(bad.len() as u64 - 1) as usize;
                        bad[k].run = bad[k].run.wrapping_add(1);
                        (bad.iter().enumerate().map(|(i, f)| format!("{i}:1:{}:{}", f.run, f.t0)).collect(), "BadRunNumber")
                    }
                    1 => {
                        // two files with the same initial timestamp; their final timestamp equals
                        // the initial one so that no other check (the "missing file" test) can
                        // be what refuses the run
                        let k = 1 + rng.below(bad.len() as u64 - 1) as usize;
                        bad[k].t0 = bad[0].t0;
                        bad[0].t1 = bad[0].t0;
                        bad[k].t1 = bad[0].t0;
                        (bad.iter().enumerate().map(|(i, f)| format!("{i}:1:{}:{}", f.run, f.t0)).collect(), "DuplicateInitialTimestamp")
                    }
                    _ => {
                        let k = rng.below(bad.len() as u64) as usize;
                        bad[k].name = format!("{}.gz", bad[k].name);
                        (bad.iter().enumerate().map(|(i, f)| format!("{i}:{}:{}:{}", if i == k { 0 } else { 1 }, f.run, f.t0)).collect(), "UnknownExtension")
                    }
                };
                let d2 = root.join(format!("r{r}f{fault}"));
                std::fs::create_dir_all(&d2).unwrap();
                // unknown extension: the file content is still a plain MIDAS file
                let mut paths = Vec::new();
                for f in &bad {
                    let p = d2.join(&f.name);
                    if f.name.ends_with(".gz") {
                        std::fs::write(&p, file_bytes_endian(f.run, f.t0, f.t1, &f.events, f.big)).unwrap();
                    } else {
                        write_midas(&p, &file_bytes_endian(f.run, f.t0, f.t1, &f.events, f.big));
                    }
                    paths.push(p);
                }
                // every order of the arguments must be refused (a check that looks at neighbours
                // on the command line, or at the first file only, depends on the order)
                let mut why = None;
                let mut observed = String::new();
                let mut orders: Vec<Vec<usize>> = Vec::new();
                {
                    let n = paths.len();
                    let mut idx: Vec<usize> = (0..n).collect();
                    // Heap's algorithm, iterative
                    let mut c = vec![0usize; n];
                    orders.push(idx.clone());
                    let mut i = 0;
                    while i < n {
                        if c[i] < i {
                            if i % 2 == 0 { idx.swap(0, i) } else { idx.swap(c[i], i) }
                            orders.push(idx.clone());
                            c[i] += 1;
                            i = 0;
                        } else {
                            c[i] = 0;
                            i += 1;
                        }
                    }
                }
                for (oi, order) in orders.iter().enumerate() {
                    let args: Vec<PathBuf> = order.iter().map(|&i| paths[i].clone()).collect();
                    // both binaries on the first order, alternating afterwards
                    let bins: &[&str] = if oi == 0 { &["alpha-g-vertices", "alpha-g-trg-scalers"] } else if oi % 2 == 0 { &["alpha-g-vertices"] } else { &["alpha-g-trg-scalers"] };
                    for bin in bins {
                        let res = run_binary(bin, &args, &d2.join("out"), 2);
                        if res.status_ok || res.csv.is_some() {
                            why = Some(format!("{bin} did not refuse a run with {expect_err} given in argument order {order:?} [run {}]", describe(&bad)));
                        }
                        if observed.is_empty() {
                            observed = if res.stderr.contains("bad run number") {
                                "err BadRunNumber".into()
                            } else if res.stderr.contains("duplicate initial timestamp") {
                                "err DuplicateInitialTimestamp".into()
                            } else if res.stderr.contains("unknown file extension") {
                                "err UnknownExtension".into()
                            } else if res.status_ok {
                                "ok".into()
                            } else {
                                format!("failed {}", res.stderr.chars().take(100).collect::<String>().replace(' ', "_"))
                            };
                        }
                    }
                }
                s.push_oracle("refusal", format!("sortfiles {}", heads.join(" ")), observed, why);
                let _ = std::fs::remove_dir_all(&d2);
            }
        }
        // ---- a hole in the run (every 3rd run): one file starts exactly 2 s (or more) after the previous
        // one ended; the files of a run follow each other within 1 s, so a file is missing and the
        // programs must say so instead of writing a CSV (implementation-only: the check is in the
        // binaries, not in sort_run_files)
        if r % 3 == 1 && files.len() >= 2 {
            let mut bad = files.clone();
            let k = 1 + rng.below(bad.len() as u64 - 1) as usize;
            let gap = *rng.pick(&[2u32, 2, 3, 60]);
            let shift = (bad[k - 1].t1 + gap).wrapping_sub(bad[k].t0);
            for f in bad.iter_mut().skip(k) {
                f.t0 = f.t0.wrapping_add(shift);
                f.t1 = f.t1.wrapping_add(shift);
            }
            let d2 = root.join(format!("r{r}gap"));
            std::fs::create_dir_all(&d2).unwrap();
            let mut paths = Vec::new();
            for f in &bad {
                let p = d2.join(&f.name);
                write_midas(&p, &file_bytes_endian(f.run, f.t0, f.t1, &f.events, f.big));
                paths.push(p);
            }
            let mut why = None;
            let mut observed = String::new();
            for (oi, rev) in [false, true].iter().enumerate() {
                let mut args = paths.clone();
                if *rev {
                    args.reverse();
                }
                for bin in ["alpha-g-vertices", "alpha-g-trg-scalers"] {
                    let res = run_binary(bin, &args, &d2.join("out"), 2);
                    if res.status_ok || res.csv.is_some() {
                        why = Some(format!("{bin} did not refuse a run with a {gap} s hole before file {k} [run {}]", describe(&bad)));
                    }
                    if oi == 0 && observed.is_empty() {
                        observed = if res.stderr.contains("missing file") { "err MissingFile".into() } else if res.status_ok { "ok".into() } else { "failed".into() };
                    }
                }
            }
            s.push_oracle("missing-file", format!("impl-only hole {gap} {} => {observed}", describe(&bad).replace(' ', "_")), observed.clone(), why);
            let _ = std::fs::remove_dir_all(&d2);
        }
        let _ = std::fs::remove_dir_all(&dir);
    }
    let _ = std::fs::remove_dir_all(&root);
    s.notes.insert("csv_rows_checked".into(), serde_json::json!(n_rows));
    s.notes.insert("binaries".into(), serde_json::json!(bin_dir().display().to_string()));
    true
}

pub fn run_request(_cmd: &str, _args: &[&str]) -> Option<String> {
    // Replays of C19 go through the full generator (files are regenerated from the seed); the
    // model requests themselves (`scan`, `sortfiles`) have no in-process implementation.
    None
}
