//! C08: channel identity (bank names, boards, detector elements biject) and the bank-name part of
//! C01 (the string parsers are total).
//!
//! Requests (see lean/AlphaG/Driver/C08.lean): `bank`, `bankx`, `cbbank`, `seq2bank`, `eventid`,
//! `wire`, `pwbpos`, `padinpwb`, `pad`, `wiremap`, `pwbmap`, `padmap`, `w2c`, `c2w`, `phiidx`,
//! `calhas`. The oracle verdicts are computed from the real functions only (never from the model):
//! panics, partial maps, non-bijective maps, gaps, simulation != run 5000, geometry.
use crate::{guarded, hex, Rng, Session};
use alpha_g_detector::alpha16::aw_map::{MapTpcWirePositionError, TpcWirePosition};
use alpha_g_detector::alpha16::{self, Adc16ChannelId, Adc32ChannelId, ChannelId};
use alpha_g_detector::midas::*;
use alpha_g_detector::padwing::map::{
    MapTpcPadPositionError, MapTpcPwbPositionError, PwbPadColumn, PwbPadPosition, PwbPadRow,
    TpcPadColumn, TpcPadPosition, TpcPadRow, TpcPwbColumn, TpcPwbPosition, TpcPwbRow,
};
use alpha_g_detector::padwing::{self, AfterId, PadChannelId};
use std::collections::{BTreeMap, BTreeSet};

// ------------------------------------------------------------------------------------------
// board discovery (the tables are private: every two-character name over a wide alphabet is tried)
fn name_alphabet() -> Vec<char> {
    let mut v: Vec<char> = ('0'..='9').collect();
    v.extend('A'..='Z');
    v.extend('a'..='z');
    v
}

pub fn a16_boards() -> Vec<String> {
    let al = name_alphabet();
    let mut out = Vec::new();
    for &a in &al {
        for &b in &al {
            let n: String = [a, b].iter().collect();
            if alpha16::BoardId::try_from(n.as_str()).is_ok() {
                out.push(n);
            }
        }
    }
    out
}

pub fn pwb_boards() -> Vec<String> {
    let al = name_alphabet();
    let mut out = Vec::new();
    for &a in &al {
        for &b in &al {
            let n: String = [a, b].iter().collect();
            if padwing::BoardId::try_from(n.as_str()).is_ok() {
                out.push(n);
            }
        }
    }
    out
}

// ------------------------------------------------------------------------------------------
// bank names
fn adc16_num(c: Adc16ChannelId) -> u8 {
    (0..=255u8).find(|&k| Adc16ChannelId::try_from(k).map(|x| x == c).unwrap_or(false)).unwrap()
}
fn adc32_num(c: Adc32ChannelId) -> u8 {
    (0..=255u8).find(|&k| Adc32ChannelId::try_from(k).map(|x| x == c).unwrap_or(false)).unwrap()
}

fn a16_err(e: &ParseAlpha16BankNameError) -> &'static str {
    match e {
        ParseAlpha16BankNameError::PatternMismatch { .. } => "PatternMismatch",
        ParseAlpha16BankNameError::UnknownBoardId(_) => "UnknownBoardId",
        ParseAlpha16BankNameError::UnknownChannelId(_) => "UnknownChannelId",
    }
}
fn pwb_err(e: &ParsePadwingBankNameError) -> &'static str {
    match e {
        ParsePadwingBankNameError::PatternMismatch { .. } => "PatternMismatch",
        ParsePadwingBankNameError::UnknownBoardId(_) => "UnknownBoardId",
    }
}
fn main_err(e: &ParseMainEventBankNameError) -> String {
    match e {
        ParseMainEventBankNameError::PatternMismatch { .. } => "PatternMismatch".into(),
        ParseMainEventBankNameError::BadAlpha16(e) => format!("BadAlpha16.{}", a16_err(e)),
        ParseMainEventBankNameError::BadPadwing(e) => format!("BadPadwing.{}", pwb_err(e)),
        ParseMainEventBankNameError::BadTrigger(_) => "BadTrigger".into(),
        ParseMainEventBankNameError::BadTrb3(_) => "BadTrb3".into(),
        ParseMainEventBankNameError::BadMcVertex(_) => "BadMcVertex".into(),
    }
}
fn show_a16(n: &Alpha16BankName) -> String {
    match n.channel_id() {
        ChannelId::A16(c) => format!("adc16 {} {}", n.board_id().name(), adc16_num(c)),
        ChannelId::A32(c) => format!("adc32 {} {}", n.board_id().name(), adc32_num(c)),
    }
}
fn show_main(n: &MainEventBankName) -> String {
    match n {
        MainEventBankName::Alpha16(a) => show_a16(a),
        MainEventBankName::Padwing(p) => format!("padwing {} -", p.board_id().name()),
        MainEventBankName::Trg(_) => "trg - -".into(),
        MainEventBankName::Trb3(_) => "trb3 - -".into(),
        MainEventBankName::McVertex(_) => "mcvx - -".into(),
    }
}

fn fin(r: Result<Result<String, String>, String>) -> (String, Option<String>) {
    match r {
        Err(msg) => (format!("panic {msg}"), Some(format!("parser panicked: {msg}"))),
        Ok(Ok(v)) => (if v.is_empty() { "ok".into() } else { format!("ok {v}") }, None),
        Ok(Err(e)) => (format!("err {e}"), None),
    }
}

pub fn bank_impl(s: &str) -> (String, Option<String>) {
    fin(guarded(|| MainEventBankName::try_from(s).map(|n| show_main(&n)).map_err(|e| main_err(&e))))
}

pub const SUBPARSERS: [&str; 8] = ["adc16", "adc32", "alpha16", "padwing", "trigger", "trb3", "seq2", "mcvx"];

pub fn bankx_impl(which: &str, s: &str) -> Option<(String, Option<String>)> {
    fn pm<E>(_: E) -> String {
        "PatternMismatch".to_string()
    }
    Some(match which {
        "adc16" => fin(guarded(|| {
            Adc16BankName::try_from(s)
                .map(|n| format!("adc16 {} {}", n.board_id().name(), adc16_num(n.channel_id())))
                .map_err(|e| a16_err(&e).to_string())
        })),
        "adc32" => fin(guarded(|| {
            Adc32BankName::try_from(s)
                .map(|n| format!("adc32 {} {}", n.board_id().name(), adc32_num(n.channel_id())))
                .map_err(|e| a16_err(&e).to_string())
        })),
        "alpha16" => fin(guarded(|| {
            Alpha16BankName::try_from(s).map(|n| show_a16(&n)).map_err(|e| a16_err(&e).to_string())
        })),
        "padwing" => fin(guarded(|| {
            PadwingBankName::try_from(s)
                .map(|n| format!("padwing {} -", n.board_id().name()))
                .map_err(|e| pwb_err(&e).to_string())
        })),
        "trigger" => fin(guarded(|| TriggerBankName::try_from(s).map(|_| String::new()).map_err(pm))),
        "trb3" => fin(guarded(|| Trb3BankName::try_from(s).map(|_| String::new()).map_err(pm))),
        "seq2" => fin(guarded(|| Seq2BankName::try_from(s).map(|_| String::new()).map_err(pm))),
        "mcvx" => fin(guarded(|| McVertexBankName::try_from(s).map(|_| String::new()).map_err(pm))),
        _ => return None,
    })
}

pub fn cbbank_impl(s: &str) -> (String, Option<String>) {
    fin(guarded(|| {
        ChronoboxBankName::try_from(s)
            .map(|n| n.board_id.name().to_string())
            .map_err(|_| "PatternMismatch".to_string())
    }))
}

pub fn eventid_impl(n: u16) -> (String, Option<String>) {
    fin(guarded(|| EventId::try_from(n).map(|e| format!("{e:?}")).map_err(|_| "Unknown".to_string())))
}

/// Independent statement of the documented grammar (the property text), used as an oracle on the
/// implementation's answer for `bank`: kind/board/channel expected for a string, or None.
fn documented(s: &str, a16: &[String], pwb: &[String]) -> Option<String> {
    let b = s.as_bytes();
    match s {
        "ATAT" => return Some("trg - -".into()),
        "TRBA" => return Some("trb3 - -".into()),
        "MCVX" => return Some("mcvx - -".into()),
        _ => {}
    }
    if b.len() != 4 || !s.is_ascii() {
        return None;
    }
    let mid = &s[1..3];
    let last = b[3] as char;
    if b[0] == b'B' && a16.iter().any(|x| x == mid) {
        if let Some(d) = "0123456789ABCDEF".find(last) {
            return Some(format!("adc16 {mid} {d}"));
        }
    }
    if b[0] == b'C' && a16.iter().any(|x| x == mid) {
        if let Some(d) = "0123456789ABCDEFGHIJKLMNOPQRSTUV".find(last) {
            return Some(format!("adc32 {mid} {d}"));
        }
    }
    if &s[0..2] == "PC" && pwb.iter().any(|x| x == &s[2..4]) {
        return Some(format!("padwing {} -", &s[2..4]));
    }
    None
}

// ------------------------------------------------------------------------------------------
// maps
fn wire_err(e: &MapTpcWirePositionError) -> &'static str {
    match e {
        MapTpcWirePositionError::MissingPreampMap { .. } => "MissingPreampMap",
        MapTpcWirePositionError::BoardIdNotFound { .. } => "BoardIdNotFound",
        MapTpcWirePositionError::MissingWireMap { .. } => "MissingWireMap",
    }
}
fn pwbpos_err(e: &MapTpcPwbPositionError) -> &'static str {
    match e {
        MapTpcPwbPositionError::MissingMap { .. } => "MissingMap",
        MapTpcPwbPositionError::BoardIdNotFound { .. } => "BoardIdNotFound",
    }
}
fn pad_err(e: &MapTpcPadPositionError) -> &'static str {
    match e {
        MapTpcPadPositionError::BadTpcPwbPosition(e) => pwbpos_err(e),
        MapTpcPadPositionError::BadPwbPadPosition(_) => "BadPwbPadPosition",
    }
}
fn pwb_col(p: &TpcPwbPosition) -> usize {
    (0..64).find(|&k| TpcPwbColumn::try_from(k).map(|c| c == p.column()).unwrap_or(false)).unwrap()
}
fn pwb_row(p: &TpcPwbPosition) -> usize {
    (0..64).find(|&k| TpcPwbRow::try_from(k).map(|c| c == p.row()).unwrap_or(false)).unwrap()
}
fn padin_col(p: &PwbPadPosition) -> usize {
    (0..256).find(|&k| PwbPadColumn::try_from(k).map(|c| c == p.column()).unwrap_or(false)).unwrap()
}
fn padin_row(p: &PwbPadPosition) -> usize {
    (0..256).find(|&k| PwbPadRow::try_from(k).map(|c| c == p.row()).unwrap_or(false)).unwrap()
}

/// Result of one element lookup: value, error variant or panic message.
#[derive(Clone, Debug, PartialEq)]
pub enum El<T> {
    Ok(T),
    Err(String),
    Panic(String),
}
impl<T> El<T> {
    fn tok(&self, f: impl Fn(&T) -> String) -> String {
        match self {
            El::Ok(v) => f(v),
            El::Err(e) => format!("e:{e}"),
            El::Panic(m) => format!("p:{m}"),
        }
    }
    fn line(&self, f: impl Fn(&T) -> String) -> String {
        match self {
            El::Ok(v) => format!("ok {}", f(v)),
            El::Err(e) => format!("err {e}"),
            El::Panic(m) => format!("panic {m}"),
        }
    }
}
fn el<T>(r: Result<Result<T, String>, String>) -> El<T> {
    match r {
        Err(m) => El::Panic(m),
        Ok(Ok(v)) => El::Ok(v),
        Ok(Err(e)) => El::Err(e),
    }
}

pub fn wire_impl(run: u32, board: &str, ch: u8) -> Option<El<usize>> {
    let b = alpha16::BoardId::try_from(board).ok()?;
    let c = Adc32ChannelId::try_from(ch).ok()?;
    Some(el(guarded(|| TpcWirePosition::try_new(run, b, c).map(usize::from).map_err(|e| wire_err(&e).to_string()))))
}
pub fn pwbpos_impl(run: u32, board: &str) -> Option<El<(usize, usize)>> {
    let b = padwing::BoardId::try_from(board).ok()?;
    Some(el(guarded(|| {
        TpcPwbPosition::try_new(run, b).map(|p| (pwb_col(&p), pwb_row(&p))).map_err(|e| pwbpos_err(&e).to_string())
    })))
}
pub fn padinpwb_impl(run: u32, chip: u8, ch: u16) -> Option<El<(usize, usize)>> {
    let a = AfterId::try_from(chip).ok()?;
    let c = PadChannelId::try_from(ch).ok()?;
    Some(el(guarded(|| {
        PwbPadPosition::try_new(run, a, c).map(|p| (padin_col(&p), padin_row(&p))).map_err(|_| "MissingMap".to_string())
    })))
}
pub fn pad_impl(run: u32, board: &str, chip: u8, ch: u16) -> Option<El<(usize, usize)>> {
    let b = padwing::BoardId::try_from(board).ok()?;
    let a = AfterId::try_from(chip).ok()?;
    let c = PadChannelId::try_from(ch).ok()?;
    Some(el(guarded(|| {
        TpcPadPosition::try_new(run, b, a, c)
            .map(|p| (usize::from(p.column), usize::from(p.row)))
            .map_err(|e| pad_err(&e).to_string())
    })))
}

fn pr(p: &(usize, usize)) -> String {
    format!("{} {}", p.0, p.1)
}
fn cpr(p: &(usize, usize)) -> String {
    format!("{},{}", p.0, p.1)
}

/// The whole wire map of a run: boards (given order) × channels 0..31.
pub fn wiremap_impl(run: u32, boards: &[String]) -> Option<Vec<El<usize>>> {
    let mut v = Vec::new();
    for b in boards {
        for ch in 0..32u8 {
            v.push(wire_impl(run, b, ch)?);
        }
    }
    Some(v)
}
pub fn pwbmap_impl(run: u32, boards: &[String]) -> Option<Vec<El<(usize, usize)>>> {
    boards.iter().map(|b| pwbpos_impl(run, b)).collect()
}
pub fn padmap_impl(run: u32, board: &str) -> Option<Vec<El<(usize, usize)>>> {
    let mut v = Vec::new();
    for chip in 0..4u8 {
        for ch in 1..=72u16 {
            v.push(pad_impl(run, board, chip, ch)?);
        }
    }
    Some(v)
}

/// Oracle for one run's wire map: all-or-nothing, and a bijection onto 0..256 when present.
/// Returns (has_map, failure).
fn judge_wiremap(v: &[El<usize>]) -> (bool, Option<String>) {
    if let Some(El::Panic(m)) = v.iter().find(|e| matches!(e, El::Panic(_))) {
        return (false, Some(format!("wire lookup panicked: {m}")));
    }
    let oks: Vec<usize> = v.iter().filter_map(|e| if let El::Ok(w) = e { Some(*w) } else { None }).collect();
    if oks.is_empty() {
        return (false, None);
    }
    if oks.len() != v.len() {
        return (true, Some(format!("partial wire map: {} of {} (board, channel) pairs map", oks.len(), v.len())));
    }
    let set: BTreeSet<usize> = oks.iter().copied().collect();
    if v.len() != 256 || set.len() != 256 || *set.iter().next_back().unwrap() != 255 {
        return (true, Some(format!(
            "(board, channel) -> wire is not a bijection onto 0..256: {} pairs, {} distinct wires, max {}",
            v.len(), set.len(), set.iter().next_back().unwrap()
        )));
    }
    (true, None)
}

/// Oracle for one run's PWB map: no panic; when a map exists exactly 64 installed boards in
/// distinct positions covering 8 x 8.
fn judge_pwbmap(v: &[El<(usize, usize)>]) -> (bool, Option<String>) {
    if let Some(El::Panic(m)) = v.iter().find(|e| matches!(e, El::Panic(_))) {
        return (false, Some(format!("pwb lookup panicked: {m}")));
    }
    let missing = v.iter().filter(|e| matches!(e, El::Err(x) if x == "MissingMap")).count();
    if missing == v.len() {
        return (false, None);
    }
    if missing != 0 {
        return (true, Some("MissingMap for some boards only".into()));
    }
    let oks: Vec<(usize, usize)> = v.iter().filter_map(|e| if let El::Ok(w) = e { Some(*w) } else { None }).collect();
    let set: BTreeSet<(usize, usize)> = oks.iter().copied().collect();
    let full: BTreeSet<(usize, usize)> = (0..8).flat_map(|c| (0..8).map(move |r| (c, r))).collect();
    if oks.len() != 64 || set != full {
        return (true, Some(format!("installed boards -> (column, row) is not a bijection onto 8x8: {} boards, {} positions", oks.len(), set.len())));
    }
    (true, None)
}

// ------------------------------------------------------------------------------------------
// calibration dispatch
pub fn calhas_impl(which: &str, run: u32) -> Option<String> {
    use alpha_g_physics::verif as v;
    let r = guarded(|| -> Option<String> {
        let wires = || (0..256usize).map(|w| TpcWirePosition::try_from(w).unwrap());
        let pads = || {
            (0..32usize).flat_map(|c| {
                (0..576usize).map(move |r| TpcPadPosition {
                    column: TpcPadColumn::try_from(c).unwrap(),
                    row: TpcPadRow::try_from(r).unwrap(),
                })
            })
        };
        let b = |x: bool| if x { "some".to_string() } else { "none".to_string() };
        Some(match which {
            "wire_baseline" => b(wires().any(|w| v::wire_baseline(run, w).is_some())),
            "wire_gain" => b(wires().any(|w| v::wire_gain(run, w).is_some())),
            "wire_delay" => v::wire_delay(run).map(|n| format!("some {n}")).unwrap_or("none".into()),
            "pad_baseline" => b(pads().any(|p| v::pad_baseline(run, p).is_some())),
            "pad_gain" => b(pads().any(|p| v::pad_gain(run, p).is_some())),
            "pad_delay" => v::pad_delay(run).map(|n| format!("some {n}")).unwrap_or("none".into()),
            _ => return None,
        })
    });
    match r {
        Ok(x) => x,
        Err(m) => Some(format!("panic {m}")),
    }
}
pub const CALS: [&str; 6] = ["wire_baseline", "wire_gain", "wire_delay", "pad_baseline", "pad_gain", "pad_delay"];

// ------------------------------------------------------------------------------------------
// replay
fn utf8(h: &str) -> Option<String> {
    String::from_utf8(crate::unhex(h)?).ok()
}

pub fn run_request(cmd: &str, args: &[&str]) -> Option<String> {
    let list = |s: &str| -> Vec<String> { s.split(',').map(|x| x.to_string()).collect() };
    match (cmd, args) {
        ("bank", [h]) => utf8(h).map(|s| bank_impl(&s).0),
        ("bankx", [w, h]) => utf8(h).and_then(|s| bankx_impl(w, &s)).map(|x| x.0),
        ("cbbank", [h]) => utf8(h).map(|s| cbbank_impl(&s).0),
        ("seq2bank", [h]) => utf8(h).and_then(|s| bankx_impl("seq2", &s)).map(|x| x.0),
        ("eventid", [n]) => n.parse::<u16>().ok().map(|n| eventid_impl(n).0),
        ("wire", [run, b, ch]) => wire_impl(run.parse().ok()?, b, ch.parse().ok()?).map(|e| e.line(|w| w.to_string())),
        ("pwbpos", [run, b]) => pwbpos_impl(run.parse().ok()?, b).map(|e| e.line(pr)),
        ("padinpwb", [chip, ch]) => padinpwb_impl(5000, chip.parse().ok()?, ch.parse().ok()?).map(|e| e.line(pr)),
        ("pad", [run, b, chip, ch]) => {
            pad_impl(run.parse().ok()?, b, chip.parse().ok()?, ch.parse().ok()?).map(|e| e.line(pr))
        }
        ("wiremap", [run, bs]) => wiremap_impl(run.parse().ok()?, &list(bs))
            .map(|v| format!("ok {}", v.iter().map(|e| e.tok(|w| w.to_string())).collect::<Vec<_>>().join(" "))),
        ("pwbmap", [run, bs]) => pwbmap_impl(run.parse().ok()?, &list(bs))
            .map(|v| format!("ok {}", v.iter().map(|e| e.tok(cpr)).collect::<Vec<_>>().join(" "))),
        ("padmap", [run, b]) => padmap_impl(run.parse().ok()?, b)
            .map(|v| format!("ok {}", v.iter().map(|e| e.tok(cpr)).collect::<Vec<_>>().join(" "))),
        ("w2c", [w]) => Some(format!("ok {}", alpha_g_physics::verif::verif_wire_to_pad_column(w.parse().ok()?))),
        ("c2w", [c]) => {
            let c: usize = c.parse().ok()?;
            Some(match guarded(|| alpha_g_physics::verif::verif_pad_column_to_wires(c)) {
                Ok(r) => format!("ok {} {}", r.start, r.end),
                Err(m) => format!("panic {m}"),
            })
        }
        ("phiidx", [w]) => {
            // shifted index recovered from the real phi(): phi / pitch - 0.5
            let w: usize = w.parse().ok()?;
            let p = TpcWirePosition::try_from(w).ok()?.phi();
            let idx = (p / (2.0 * std::f64::consts::PI / 256.0) - 0.5).round();
            Some(format!("ok {}", idx as i64))
        }
        ("calhas", [which, run]) => calhas_impl(which, run.parse().ok()?),
        _ => None,
    }
}

// ------------------------------------------------------------------------------------------
// generators
fn alphabet() -> Vec<char> {
    let mut v: Vec<char> = ('0'..='9').collect();
    v.extend('A'..='Z');
    v.extend(['a', 'f', 'z', '+', '-', ' ', '\0', 'é', '€']);
    // non-ASCII characters on which the Unicode predicates differ from the ASCII ones (is_uppercase,
    // is_alphanumeric, is_numeric, to_digit): upper-case letters of 2 and 3 bytes, digits and numerics
    // of other scripts (seed C09-6: `is_uppercase()` let "B0É" through to a byte-index slice)
    v.extend(['É', 'Σ', 'Я', 'Ａ', '٣', '¹', '௧', 'ǅ']);
    v
}

fn add_bank(s: &mut Session, gen: &'static str, name: &str, a16: &[String], pwb: &[String]) {
    let (imp, mut why) = bank_impl(name);
    if why.is_none() {
        // the documented grammar, stated independently of the model
        let want = documented(name, a16, pwb);
        let got = imp.strip_prefix("ok ").map(|x| x.to_string());
        if want != got {
            why = Some(format!("documented grammar says {want:?}, implementation says `{imp}`"));
        }
    }
    s.push_oracle(gen, format!("bank {}", hex(name.as_bytes())), imp, why);
}

fn add_sub(s: &mut Session, gen: &'static str, name: &str) {
    for w in SUBPARSERS {
        let (imp, why) = bankx_impl(w, name).unwrap();
        s.push_oracle(gen, format!("bankx {w} {}", hex(name.as_bytes())), imp, why);
    }
    let (imp, why) = cbbank_impl(name);
    let mut why = why;
    if why.is_none() {
        let want = match name {
            "CBF1" => Some("ok cb01"),
            "CBF2" => Some("ok cb02"),
            "CBF3" => Some("ok cb03"),
            "CBF4" => Some("ok cb04"),
            _ => None,
        };
        if want.map(|x| x.to_string()) != imp.strip_prefix("ok").map(|_| imp.clone()) {
            why = Some(format!("documented Chronobox names say {want:?}, implementation says `{imp}`"));
        }
    }
    s.push_oracle(gen, format!("cbbank {}", hex(name.as_bytes())), imp, why);
    let (imp, mut why) = bankx_impl("seq2", name).unwrap();
    if why.is_none() && ((name == "SEQ2") != (imp == "ok")) {
        why = Some(format!("only SEQ2 is documented, implementation says `{imp}`"));
    }
    s.push_oracle(gen, format!("seq2bank {}", hex(name.as_bytes())), imp, why);
}

fn valid_names(a16: &[String], pwb: &[String]) -> Vec<String> {
    let mut v = vec!["ATAT".to_string(), "TRBA".into(), "MCVX".into(), "SEQ2".into(), "CBF1".into(), "CBF2".into(),
                     "CBF3".into(), "CBF4".into()];
    for b in a16 {
        for d in "0123456789ABCDEF".chars() {
            v.push(format!("B{b}{d}"));
        }
        for d in "0123456789ABCDEFGHIJKLMNOPQRSTUV".chars() {
            v.push(format!("C{b}{d}"));
        }
    }
    for b in pwb {
        v.push(format!("PC{b}"));
    }
    v
}

pub fn thresholds() -> Vec<u32> {
    // every run number that appears in the sources' map / calibration names, +-2, and edge values
    let centres: [u32; 14] = [0, 2724, 2941, 4418, 5000, 7000, 7026, 9277, 10418, 11084, 11186, 11192, 20000, u32::MAX];
    let mut v = BTreeSet::new();
    for c in centres {
        for d in -2i64..=2 {
            let x = c as i64 + d;
            if (0..=u32::MAX as i64).contains(&x) {
                v.insert(x as u32);
            }
        }
    }
    for x in [1u32 << 31, (1 << 31) - 1, 65535, 65536, 1 << 24] {
        v.insert(x);
    }
    v.into_iter().collect()
}

pub fn generate(s: &mut Session, thorough: bool) -> bool {
    let mut rng = Rng::new(s.seed);
    let a16 = a16_boards();
    let pwb = pwb_boards();
    let al = alphabet();
    let valid = valid_names(&a16, &pwb);
    s.notes.insert("alpha16_boards".into(), serde_json::json!(a16));
    s.notes.insert("padwing_boards".into(), serde_json::json!(pwb.len()));

    // ---- (1) every documented name, through the main parser and every sub-parser
    for n in &valid {
        add_bank(s, "names-valid", n, &a16, &pwb);
        add_sub(s, "names-valid-sub", n);
    }
    // ---- (2) 4-char strings over the 45-symbol alphabet
    if thorough {
        for &a in &al {
            for &b in &al {
                for &c in &al {
                    for &d in &al {
                        let n: String = [a, b, c, d].iter().collect();
                        add_bank(s, "names-4char-exhaustive", &n, &a16, &pwb);
                    }
                }
            }
        }
    } else {
        for _ in 0..150_000 {
            let n: String = (0..4).map(|_| *rng.pick(&al)).collect();
            add_bank(s, "names-4char-sampled", &n, &a16, &pwb);
        }
    }
    // prefix B/C + two digits + any symbol; PC + any two symbols; first symbol any + valid tail
    for p in ['B', 'C'] {
        for x in '0'..='9' {
            for y in '0'..='9' {
                for &d in &al {
                    let n: String = [p, x, y, d].iter().collect();
                    add_bank(s, "names-alpha16-grid", &n, &a16, &pwb);
                }
            }
        }
    }
    for &x in &al {
        for &y in &al {
            let n: String = ['P', 'C', x, y].iter().collect();
            add_bank(s, "names-padwing-grid", &n, &a16, &pwb);
            add_sub(s, "names-padwing-grid-sub", &n);
        }
    }
    // ---- (3) every documented name with each position replaced by each symbol (incl. multi-byte),
    //          through main and sub-parsers for a subset
    let stride = if thorough { 1 } else { 7 };
    for (k, n) in valid.iter().enumerate() {
        let cs: Vec<char> = n.chars().collect();
        for i in 0..cs.len() {
            for &x in &al {
                let mut m = cs.clone();
                m[i] = x;
                let m: String = m.into_iter().collect();
                add_bank(s, "names-substitute", &m, &a16, &pwb);
                if k % stride == 0 {
                    add_sub(s, "names-substitute-sub", &m);
                }
            }
        }
        // truncations and one-symbol extensions (lengths 0..=5 chars)
        for len in 0..=cs.len() {
            let m: String = cs[..len].iter().collect();
            add_bank(s, "names-truncate", &m, &a16, &pwb);
            add_sub(s, "names-truncate-sub", &m);
        }
        if k % stride == 0 {
            for &x in &al {
                let m = format!("{n}{x}");
                add_bank(s, "names-extend", &m, &a16, &pwb);
                let m = format!("{x}{n}");
                add_bank(s, "names-extend", &m, &a16, &pwb);
            }
        }
    }
    // ---- (4) all strings over the alphabet whose UTF-8 length is exactly 4 bytes but that have
    //          fewer than 4 chars (the `&name[1..][..2]` / `name[2..]` char-boundary candidates),
    //          with a 4-byte scalar too
    let mut wide = al.clone();
    wide.push('𝄞');
    wide.push('ß');
    for &a in &wide {
        for &b in &wide {
            let n2: String = [a, b].iter().collect();
            if n2.len() == 4 {
                add_bank(s, "names-4bytes-multibyte", &n2, &a16, &pwb);
                add_sub(s, "names-4bytes-multibyte-sub", &n2);
            }
            for &c in &wide {
                let n3: String = [a, b, c].iter().collect();
                if n3.len() == 4 {
                    add_bank(s, "names-4bytes-multibyte", &n3, &a16, &pwb);
                    if a == 'B' || a == 'C' || a == 'P' || !a.is_ascii() {
                        add_sub(s, "names-4bytes-multibyte-sub", &n3);
                    }
                }
            }
        }
    }
    {
        let n = "𝄞".to_string();
        add_bank(s, "names-4bytes-multibyte", &n, &a16, &pwb);
        add_sub(s, "names-4bytes-multibyte-sub", &n);
    }
    // ---- (4b) every documented name with each symbol INSERTED at each position (lengths 5: lenient
    //          numeric parsing such as "CBF01", "CBF+1", "B+09"…), through the main parser and, for the
    //          Chronobox/sequencer names and a stride of the others, every sub-parser; and the
    //          Chronobox prefix followed by every number 0..=300 with 0..=3 leading zeros / a sign
    for (k, n) in valid.iter().enumerate() {
        let cs: Vec<char> = n.chars().collect();
        let sub = n.starts_with("CBF") || n.starts_with("SEQ") || k % (stride * 5) == 0;
        for i in 0..=cs.len() {
            for &x in &al {
                let mut m = cs.clone();
                m.insert(i, x);
                let m: String = m.into_iter().collect();
                add_bank(s, "names-insert", &m, &a16, &pwb);
                if sub {
                    add_sub(s, "names-insert-sub", &m);
                }
            }
        }
    }
    for v in 0..=300u32 {
        for z in 0..=3usize {
            for sign in ["", "+", "-", " "] {
                let m = format!("CBF{sign}{}{v}", "0".repeat(z));
                add_bank(s, "names-cbf-numeric", &m, &a16, &pwb);
                add_sub(s, "names-cbf-numeric-sub", &m);
                let m = format!("cbf{sign}{}{v}", "0".repeat(z));
                add_sub(s, "names-cbf-numeric-sub", &m);
            }
        }
    }
    // ---- (5) other lengths 0..=8, random over the alphabet, biased to documented prefixes
    let per_len = if thorough { 20_000 } else { 1_500 };
    for len in 0..=8usize {
        for _ in 0..per_len {
            let mut cs: Vec<char> = (0..len).map(|_| *rng.pick(&al)).collect();
            if len > 0 && rng.below(3) == 0 {
                cs[0] = *rng.pick(&['A', 'B', 'C', 'P', 'T', 'M', 'S']);
            }
            if len > 2 && rng.below(3) == 0 {
                let b: Vec<char> = rng.pick(&a16).chars().collect();
                cs[1] = b[0];
                cs[2] = b[1];
            }
            let n: String = cs.into_iter().collect();
            add_bank(s, "names-lengths", &n, &a16, &pwb);
            if rng.below(8) == 0 {
                add_sub(s, "names-lengths-sub", &n);
            }
        }
    }
    // ---- (6) event ids: all u16 in thorough, 0..=64 + edges in quick
    let ids: Vec<u16> = if thorough { (0..=u16::MAX).collect() } else { (0..=64).chain([255, 256, 65535, 32768]).collect() };
    for n in ids {
        let (imp, mut why) = eventid_impl(n);
        let want = match n {
            1 => "ok Main",
            4 => "ok Chronobox",
            8 => "ok Sequencer2",
            _ => "err Unknown",
        };
        if why.is_none() && imp != want {
            why = Some(format!("documented event ids say `{want}`"));
        }
        s.push_oracle("eventid", format!("eventid {n}"), imp, why);
    }

    // ---- (7) maps per run number
    let mut runs: Vec<u32> = thresholds();
    if thorough {
        runs.extend(0..=20000u32);
        for _ in 0..5000 {
            runs.push(rng.next() as u32);
        }
    } else {
        for _ in 0..1200 {
            runs.push(rng.below(20001) as u32);
        }
        for _ in 0..800 {
            runs.push(rng.next() as u32);
        }
    }
    runs.sort();
    runs.dedup();
    let a16_list = a16.join(",");
    let pwb_list = pwb.join(",");
    let mut wire_has: BTreeMap<u32, bool> = BTreeMap::new();
    let mut pwb_has: BTreeMap<u32, bool> = BTreeMap::new();
    let sim_wire = wiremap_impl(u32::MAX, &a16).unwrap();
    let r5000_wire = wiremap_impl(5000, &a16).unwrap();
    let sim_pwb = pwbmap_impl(u32::MAX, &pwb).unwrap();
    let r5000_pwb = pwbmap_impl(5000, &pwb).unwrap();
    for &run in &runs {
        let v = wiremap_impl(run, &a16).unwrap();
        let (has, mut why) = judge_wiremap(&v);
        wire_has.insert(run, has);
        if why.is_none() && run == u32::MAX && v != r5000_wire {
            why = Some("simulation run number does not map wires like run 5000".into());
        }
        let imp = format!("ok {}", v.iter().map(|e| e.tok(|w| w.to_string())).collect::<Vec<_>>().join(" "));
        s.push_oracle("wiremap", format!("wiremap {run} {a16_list}"), imp, why);
        let v = pwbmap_impl(run, &pwb).unwrap();
        let (has, mut why) = judge_pwbmap(&v);
        pwb_has.insert(run, has);
        if why.is_none() && run == u32::MAX && v != r5000_pwb {
            why = Some("simulation run number does not map PWBs like run 5000".into());
        }
        let imp = format!("ok {}", v.iter().map(|e| e.tok(cpr)).collect::<Vec<_>>().join(" "));
        s.push_oracle("pwbmap", format!("pwbmap {run} {pwb_list}"), imp, why);
    }
    let _ = (&sim_wire, &sim_pwb);
    // no gap: once a (non-simulation) run has a map every later run has one
    for (what, has) in [("wire", &wire_has), ("pwb", &pwb_has)] {
        let mut first: Option<u32> = None;
        for (&run, &h) in has.iter() {
            if h && first.is_none() {
                first = Some(run);
            }
            if let Some(f) = first {
                if !h {
                    let list = if what == "wire" { &a16_list } else { &pwb_list };
                    let cmd = format!("{what}map");
                    let imp = run_request(&cmd, &[&run.to_string(), list]).unwrap();
                    s.push_oracle("no-gap", format!("{what}map {run} {list}"), imp,
                        Some(format!("run {run} has no {what} map although run {f} has one (gap)")));
                }
            }
        }
        s.notes.insert(format!("first_run_with_{what}_map_among_tested"), serde_json::json!(first));
    }
    // ---- (8) single-element requests and full pad maps
    let pad_runs: Vec<u32> = if thorough { runs.iter().copied().filter(|r| *r <= 20000 || *r >= u32::MAX - 2).collect() } else { thresholds() };
    // padinpwb: all 288 (run independent), injective and onto 4 x 72
    {
        let mut seen = BTreeSet::new();
        for chip in 0..4u8 {
            for ch in 1..=72u16 {
                let e = padinpwb_impl(5000, chip, ch).unwrap();
                let mut why = None;
                match &e {
                    El::Ok(p) => {
                        if p.0 >= 4 || p.1 >= 72 || !seen.insert(*p) {
                            why = Some(format!("pad ({chip},{ch}) -> {p:?} out of range or already taken"));
                        }
                    }
                    other => why = Some(format!("pad lookup failed: {other:?}")),
                }
                // the run number must not matter
                for r in [0u32, 1, 4417, u32::MAX] {
                    if padinpwb_impl(r, chip, ch).unwrap() != e {
                        why = Some(format!("PwbPadPosition depends on the run number ({r})"));
                    }
                }
                s.push_oracle("padinpwb", format!("padinpwb {chip} {ch}"), e.line(pr), why);
            }
        }
    }
    for (k, &run) in pad_runs.iter().enumerate() {
        // all boards at threshold runs; a rotating board otherwise
        let is_thr = thresholds().contains(&run);
        let boards: Vec<&String> = if is_thr { pwb.iter().collect() } else { vec![&pwb[k % pwb.len()]] };
        let mut all: BTreeSet<(usize, usize)> = BTreeSet::new();
        let mut n_ok = 0usize;
        let mut fail: Option<String> = None;
        for b in &boards {
            let v = padmap_impl(run, b).unwrap();
            let oks = v.iter().filter(|e| matches!(e, El::Ok(_))).count();
            let mut why = None;
            if v.iter().any(|e| matches!(e, El::Panic(_))) {
                why = Some("pad lookup panicked".to_string());
            } else if oks != 0 && oks != v.len() {
                why = Some("a board maps only some of its pads".to_string());
            }
            for e in &v {
                if let El::Ok(p) = e {
                    n_ok += 1;
                    if p.0 >= 32 || p.1 >= 576 || !all.insert(*p) {
                        fail = Some(format!("run {run}: pad position {p:?} out of range or hit twice"));
                    }
                }
            }
            let imp = format!("ok {}", v.iter().map(|e| e.tok(cpr)).collect::<Vec<_>>().join(" "));
            s.push_oracle("padmap", format!("padmap {run} {b}"), imp, why);
        }
        if is_thr && fail.is_none() && pwb_has.get(&run) == Some(&true) && (n_ok != 18432 || all.len() != 18432) {
            fail = Some(format!("run {run}: installed boards x chips x channels -> pads is not a bijection onto 18432 ({n_ok} ok, {} distinct)", all.len()));
        }
        if let Some(f) = fail {
            let imp = run_request("pwbmap", &[&run.to_string(), &pwb_list]).unwrap();
            s.push_oracle("pad-bijection", format!("pwbmap {run} {pwb_list}"), imp, Some(f));
        }
    }
    // simulation == 5000 for pads
    for b in &pwb {
        if padmap_impl(u32::MAX, b) != padmap_impl(5000, b) {
            let imp = run_request("padmap", &["4294967295", b]).unwrap();
            s.push_oracle("sim-eq-5000", format!("padmap 4294967295 {b}"), imp,
                Some("simulation run number does not map pads like run 5000".into()));
        }
    }
    // single requests
    let n_single = if thorough { 60_000 } else { 3_000 };
    for _ in 0..n_single {
        let run = if rng.bool() { *rng.pick(&runs) } else { rng.below(20001) as u32 };
        match rng.below(3) {
            0 => {
                let b = rng.pick(&a16);
                let ch = rng.below(32) as u8;
                let e = wire_impl(run, b, ch).unwrap();
                let why = if let El::Panic(m) = &e { Some(format!("panicked: {m}")) } else { None };
                s.push_oracle("wire", format!("wire {run} {b} {ch}"), e.line(|w| w.to_string()), why);
            }
            1 => {
                let b = rng.pick(&pwb);
                let e = pwbpos_impl(run, b).unwrap();
                let why = if let El::Panic(m) = &e { Some(format!("panicked: {m}")) } else { None };
                s.push_oracle("pwbpos", format!("pwbpos {run} {b}"), e.line(pr), why);
            }
            _ => {
                let b = rng.pick(&pwb);
                let chip = rng.below(4) as u8;
                let ch = rng.range(1, 72) as u16;
                let e = pad_impl(run, b, chip, ch).unwrap();
                let mut why = if let El::Panic(m) = &e { Some(format!("panicked: {m}")) } else { None };
                // product structure, from the real component functions
                if let (El::Ok(p), Some(El::Ok(bp)), Some(El::Ok(pp))) = (&e, pwbpos_impl(run, b), padinpwb_impl(run, chip, ch)) {
                    if *p != (bp.0 * 4 + pp.0, bp.1 * 72 + pp.1) {
                        why = Some("pad position is not (pwb column*4 + pad column, pwb row*72 + pad row)".into());
                    }
                }
                s.push_oracle("pad", format!("pad {run} {b} {chip} {ch}"), e.line(pr), why);
            }
        }
    }

    // ---- (9) geometry: wires and pad columns
    let two_pi = 2.0 * std::f64::consts::PI;
    for w in 0..256usize {
        let c = alpha_g_physics::verif::verif_wire_to_pad_column(w);
        let mut why = None;
        let phi_w = TpcWirePosition::try_from(w).unwrap().phi();
        let shifted = (w + 256 - 8) % 256;
        let want_w = two_pi * (shifted as f64 + 0.5) / 256.0;
        if (phi_w - want_w).abs() > 1e-12 {
            why = Some(format!("wire {w}: phi() = {phi_w}, rational formula gives {want_w}"));
        }
        if c >= 32 {
            why = Some(format!("wire {w}: pad column {c} out of range"));
        } else {
            let phi_c = TpcPadColumn::try_from(c).unwrap().phi();
            let want_c = two_pi * (c as f64 + 0.5) / 32.0;
            if (phi_c - want_c).abs() > 1e-12 {
                why = Some(format!("column {c}: phi() = {phi_c}, rational formula gives {want_c}"));
            }
            if (phi_w - phi_c).abs() >= std::f64::consts::PI / 32.0 {
                why = Some(format!("wire {w} (phi {phi_w}) is not inside pad column {c} (phi {phi_c})"));
            }
            let r = alpha_g_physics::verif::verif_pad_column_to_wires(c);
            if !r.contains(&w) {
                why = Some(format!("wire {w} is not in pad_column_to_wires({c}) = {r:?}"));
            }
        }
        s.push_oracle("w2c", format!("w2c {w}"), format!("ok {c}"), why.clone());
        s.push_oracle("phiidx", format!("phiidx {w}"), run_request("phiidx", &[&w.to_string()]).unwrap(), why);
    }
    for c in 0..32usize {
        let r = alpha_g_physics::verif::verif_pad_column_to_wires(c);
        let mut why = None;
        if r.end > 256 || r.end - r.start != 8 {
            why = Some(format!("pad_column_to_wires({c}) = {r:?} wraps or has not 8 wires"));
        } else if !r.clone().all(|w| alpha_g_physics::verif::verif_wire_to_pad_column(w) == c) {
            why = Some(format!("pad_column_to_wires({c}) = {r:?} contains a wire of another column"));
        }
        s.push_oracle("c2w", format!("c2w {c}"), format!("ok {} {}", r.start, r.end), why);
    }
    // a few wire indices beyond 255 (the functions take a usize)
    for w in [256usize, 257, 263, 264, 511, 512, 1 << 20, usize::MAX, usize::MAX - 7, usize::MAX - 8] {
        let c = alpha_g_physics::verif::verif_wire_to_pad_column(w);
        s.push_oracle("w2c-wide", format!("w2c {w}"), format!("ok {c}"), None);
    }

    // ---- (10) calibration dispatch
    let cal_runs: Vec<u32> = if thorough { thresholds() } else {
        thresholds().into_iter().filter(|r| {
            [6999u32, 7000, 7001, 7025, 7026, 7027, 9276, 9277, 9278, 11083, 11084, 11085, 0, 5000, u32::MAX, u32::MAX - 1, 20000].contains(r)
        }).collect()
    };
    for which in CALS {
        for &run in &cal_runs {
            let imp = calhas_impl(which, run).unwrap();
            let why = if imp.starts_with("panic") { Some("calibration lookup panicked".to_string()) } else { None };
            s.push_oracle("calhas", format!("calhas {which} {run}"), imp, why);
        }
    }

    // ---- (10b) history: the same element looked up again and again under alternating run numbers on
    // one thread (a lookup must not remember anything: seed C08-6 memoised the last board's position
    // across the run-10418 layout change). Answers are computed in this order; the model has no state.
    {
        let pr = |p: &(usize, usize)| format!("{} {}", p.0, p.1);
        let runs: [u32; 10] = [5000, 10418, 5000, u32::MAX, 10418, 4417, 20000, 4418, 10417, 10418];
        for b in &pwb {
            for &run in &runs {
                let e = pwbpos_impl(run, b).unwrap();
                let why = if let El::Panic(m) = &e { Some(format!("panicked: {m}")) } else { None };
                s.push_oracle("history-pwbpos", format!("pwbpos {run} {b}"), e.line(pr), why);
            }
            for &run in &runs[..6] {
                let (chip, ch) = (rng.below(4) as u8, rng.range(1, 72) as u16);
                let e = pad_impl(run, b, chip, ch).unwrap();
                let why = if let El::Panic(m) = &e { Some(format!("panicked: {m}")) } else { None };
                s.push_oracle("history-pad", format!("pad {run} {b} {chip} {ch}"), e.line(pr), why);
            }
        }
        let wruns: [u32; 8] = [5000, 2940, 2941, 2723, u32::MAX, 2724, 0, 11192];
        for b in &a16 {
            for ch in [0u8, 7, 15, 16, 31] {
                for &run in &wruns {
                    let e = wire_impl(run, b, ch).unwrap();
                    let why = if let El::Panic(m) = &e { Some(format!("panicked: {m}")) } else { None };
                    s.push_oracle("history-wire", format!("wire {run} {b} {ch}"), e.line(|w| w.to_string()), why);
                }
            }
        }
        // calibration presence under alternating runs
        for which in CALS {
            for &run in &[11084u32, 9277, 11083, 0, u32::MAX, 9276, 11084, 7000, 6999, 7026] {
                let imp = calhas_impl(which, run).unwrap();
                s.push_oracle("history-calhas", format!("calhas {which} {run}"), imp, None);
            }
        }
    }

    // ---- (11) documented run history (independent of the model and of the source's match arms):
    // which runs share a calibration / a map is a documented fact (data file names, source comments,
    // detector/CHANGELOG.md; the same record as lean/AlphaG/Spec/RunHistory.lean). History is
    // immutable up to HORIZON: every run of a documented validity interval must see exactly what the
    // first run of the interval sees, runs before the first interval see nothing, and consecutive
    // intervals of a file-backed calibration / the PadWing layout differ.
    const HORIZON: u32 = 11192;
    let documented: [(&str, &[u32]); 9] = [
        ("wire_baseline", &[7026]), ("wire_gain", &[9277, 11084]), ("wire_delay", &[7000]),
        ("pad_baseline", &[9277, 11084]), ("pad_gain", &[9277, 11084]), ("pad_delay", &[7000]),
        ("wiremap", &[2941]), ("pwbmap", &[4418, 10418]), ("wiremap-channel", &[2724]),
    ];
    let fingerprint = |which: &str, run: u32| -> Result<Vec<u64>, String> {
        use alpha_g_physics::verif as v;
        let which = which.to_string();
        let a16 = a16.clone();
        let pwb = pwb.clone();
        guarded(move || {
            let wires = || (0..256usize).map(|w| TpcWirePosition::try_from(w).unwrap());
            let pads = || {
                (0..32usize).flat_map(|c| {
                    (0..576usize).map(move |r| TpcPadPosition {
                        column: TpcPadColumn::try_from(c).unwrap(),
                        row: TpcPadRow::try_from(r).unwrap(),
                    })
                })
            };
            const NONE: u64 = 0xFFFF_FFFF_FFFF_FFF1;
            match which.as_str() {
                "wire_baseline" => wires().map(|w| v::wire_baseline(run, w).map(|x| x as u16 as u64).unwrap_or(NONE)).collect(),
                "wire_gain" => wires().map(|w| v::wire_gain(run, w).map(f64::to_bits).unwrap_or(NONE)).collect(),
                "wire_delay" => vec![v::wire_delay(run).map(|x| x as u64).unwrap_or(NONE)],
                "pad_baseline" => pads().map(|p| v::pad_baseline(run, p).map(|x| x as u16 as u64).unwrap_or(NONE)).collect(),
                "pad_gain" => pads().map(|p| v::pad_gain(run, p).map(f64::to_bits).unwrap_or(NONE)).collect(),
                "pad_delay" => vec![v::pad_delay(run).map(|x| x as u64).unwrap_or(NONE)],
                "wiremap" | "wiremap-channel" => a16
                    .iter()
                    .flat_map(|b| (0..32u8).map(move |ch| (b.clone(), ch)))
                    .map(|(b, ch)| match wire_impl(run, &b, ch) {
                        Some(El::Ok(w)) => w as u64,
                        _ => NONE,
                    })
                    .collect(),
                _ => pwb
                    .iter()
                    .map(|b| match pwbpos_impl(run, b) {
                        Some(El::Ok((c, r))) => (c * 1000 + r) as u64,
                        _ => NONE,
                    })
                    .collect(),
            }
        })
    };
    for (which, steps) in documented {
        // the wire map needs both the preamp map (2941) and the channel map (2724): nothing before 2941
        let steps: &[u32] = if which == "wiremap-channel" { &[2941] } else { steps };
        let mut probes: Vec<u32> = vec![0, 1, HORIZON, HORIZON - 1];
        for (k, &st) in steps.iter().enumerate() {
            let end = steps.get(k + 1).map(|x| x - 1).unwrap_or(HORIZON);
            probes.extend([st.saturating_sub(2), st - 1, st, st + 1, st + 2, end, (st + end) / 2]);
            for _ in 0..(if thorough { 200 } else { 12 }) {
                probes.push(st + rng.below((end - st + 1) as u64) as u32);
                probes.push(rng.below(steps[0] as u64) as u32);
            }
        }
        if thorough {
            probes.extend((0..=HORIZON).step_by(7));
        }
        probes.sort();
        probes.dedup();
        let reps: Vec<Result<Vec<u64>, String>> = steps.iter().map(|&st| fingerprint(which, st)).collect();
        for k in 1..reps.len() {
            if reps[k] == reps[k - 1] && !which.ends_with("delay") {
                let run = steps[k];
                let req = if which.contains("map") { format!("pwbpos {run} {}", pwb[0]) } else { format!("calhas {which} {run}") };
                let imp = run_request(req.split(' ').next().unwrap(), &req.split(' ').skip(1).collect::<Vec<_>>()).unwrap();
                s.push_oracle("documented-history", req, imp,
                    Some(format!("documented history: {which} of run {run} must differ from that of run {} (a new calibration/layout starts there)", steps[k - 1])));
            }
        }
        for run in probes {
            let class = steps.iter().filter(|&&st| st <= run).count();
            let fp = fingerprint(which, run);
            let why = match (&fp, class) {
                (Err(m), _) => Some(format!("lookup panicked: {m}")),
                (Ok(v), 0) => {
                    if v.iter().all(|&x| x == 0xFFFF_FFFF_FFFF_FFF1) { None } else {
                        Some(format!("documented history: run {run} precedes the first {which} (run {}), yet the lookup succeeds", steps[0]))
                    }
                }
                (Ok(v), c) => {
                    if Ok(v) == reps[c - 1].as_ref() { None } else {
                        let n = match &reps[c - 1] { Ok(r) => v.iter().zip(r).filter(|(a, b)| a != b).count(), Err(_) => v.len() };
                        Some(format!("documented history: {which} of run {run} differs from that of run {} (first run of its documented validity interval) in {n} elements", steps[c - 1]))
                    }
                }
            };
            let req = match which {
                "wiremap" | "wiremap-channel" => format!("wire {run} {} 0", a16[0]),
                "pwbmap" => format!("pwbpos {run} {}", pwb[0]),
                _ => format!("calhas {which} {run}"),
            };
            let parts: Vec<&str> = req.split(' ').collect();
            let imp = run_request(parts[0], &parts[1..]).unwrap();
            s.push_oracle("documented-history", req, imp, why);
        }
    }
    true
}
