//! C16: `Helix::closest_t` through the cfg-guarded hook. The model (Lean `closestT` on `Float`)
//! is compared to 1e-9 (Lean has no `hypot`; libm calls are not relied on bit-for-bit); the
//! property itself is decided on the implementation by an independent oracle: the returned t is
//! finite, in [-pi, pi], and, if strictly inside, no t' in [-pi, pi] is closer by more than 1e-9 m
//! (dense grid + golden-section refinement of every grid minimum).
use crate::{guarded, Rng, Session};
use alpha_g_physics::verif::reconstruction as hook;
use alpha_g_physics::SpacePoint;
use std::f64::consts::PI;
use uom::si::angle::radian;
use uom::si::f64::{Angle, Length};
use uom::si::length::meter;

fn point(r: f64, phi: f64, z: f64) -> SpacePoint {
    SpacePoint { r: Length::new::<meter>(r), phi: Angle::new::<radian>(phi), z: Length::new::<meter>(z) }
}

/// Independent evaluation of the helix (from the documented parametrisation).
fn helix_xyz(p: &[f64; 6], t: f64) -> (f64, f64, f64) {
    (p[3] * (t + p[4]).cos() + p[0], p[3] * (t + p[4]).sin() + p[1], p[5] / (2.0 * PI) * t + p[2])
}

fn dist(p: &[f64; 6], q: (f64, f64, f64), t: f64) -> f64 {
    let h = helix_xyz(p, t);
    ((h.0 - q.0).powi(2) + (h.1 - q.1).powi(2) + (h.2 - q.2).powi(2)).sqrt()
}

/// Minimum distance over t in [-pi, pi]: grid of `n` points, then golden-section refinement
/// around every local grid minimum.
fn min_dist(p: &[f64; 6], q: (f64, f64, f64), n: usize) -> (f64, f64) {
    let step = 2.0 * PI / n as f64;
    let vals: Vec<f64> = (0..=n).map(|i| dist(p, q, -PI + step * i as f64)).collect();
    let mut best = (f64::INFINITY, 0.0);
    for i in 0..=n {
        let l = if i == 0 { f64::INFINITY } else { vals[i - 1] };
        let r = if i == n { f64::INFINITY } else { vals[i + 1] };
        if vals[i] <= l && vals[i] <= r {
            let mut a = (-PI + step * (i as f64 - 1.0)).max(-PI);
            let mut b = (-PI + step * (i as f64 + 1.0)).min(PI);
            let g = 0.618_033_988_749_894_9;
            for _ in 0..60 {
                let c = b - g * (b - a);
                let d = a + g * (b - a);
                if dist(p, q, c) < dist(p, q, d) {
                    b = d;
                } else {
                    a = c;
                }
            }
            let t = 0.5 * (a + b);
            for cand in [t, a, b, -PI + step * i as f64] {
                let v = dist(p, q, cand);
                if v < best.0 {
                    best = (v, cand);
                }
            }
        }
    }
    best
}

fn bits(x: f64) -> u64 {
    x.to_bits()
}

fn parse_td(s: &str) -> Option<(f64, f64)> {
    let v: Vec<&str> = s.split(' ').collect();
    if v.len() == 4 && v[0] == "t" && v[2] == "d" {
        Some((f64::from_bits(v[1].parse().ok()?), f64::from_bits(v[3].parse().ok()?)))
    } else {
        None
    }
}

/// Agreement up to 1e-9 in t, or (different stationary point / branch flip by one ulp) in distance².
fn agree(imp: &str, model: &str) -> bool {
    match (parse_td(imp), parse_td(model)) {
        (Some((t1, d1)), Some((t2, d2))) => {
            (t1.is_nan() && t2.is_nan()) || (t1 - t2).abs() <= 1e-9 || (d1.sqrt() - d2.sqrt()).abs() <= 1e-9
        }
        _ => false,
    }
}

pub fn run_case(p: [f64; 6], pt: (f64, f64, f64), grid: usize) -> (String, String, Option<String>) {
    let tol = f64::EPSILON;
    let iters = 20usize;
    let req = format!(
        "closest {} {} {} {} {} {} {} {} {} {} {}",
        bits(p[0]), bits(p[1]), bits(p[2]), bits(p[3]), bits(p[4]), bits(p[5]), bits(pt.0), bits(pt.1), bits(pt.2), bits(tol), iters
    );
    let sp = point(pt.0, pt.1, pt.2);
    let res = guarded(|| hook::closest_t(p, sp, tol, iters));
    match res {
        Err(msg) => (req, format!("panic {msg}"), Some(format!("closest_t panicked: {msg}"))),
        Ok(t) => {
            use uom::si::length::meter;
            let q = (sp.x().get::<meter>(), sp.y().get::<meter>(), pt.2);
            let c = hook::helix_at(p, t);
            let d2 = (c.x.get::<meter>() - q.0).powi(2) + (c.y.get::<meter>() - q.1).powi(2) + (c.z.get::<meter>() - q.2).powi(2);
            let mut why = None;
            if t.is_nan() {
                why = Some("closest_t returned NaN".to_string());
            } else if !(-PI..=PI).contains(&t) {
                why = Some(format!("closest_t returned {t} outside [-pi, pi]"));
            } else if t > -PI && t < PI {
                let (best, tb) = min_dist(&p, q, grid);
                let mine = dist(&p, q, t);
                if mine > best + 1e-9 {
                    why = Some(format!(
                        "closest_t={t:?} (strictly inside (-pi,pi)) is at distance {mine:e} m but t'={tb:?} is at {best:e} m (closer by {:e} m); e={:e}",
                        mine - best,
                        4.0 * PI * PI * ((q.0 - p[0]).hypot(q.1 - p[1])) * p[3] / (p[5] * p[5])
                    ));
                }
            }
            (req, format!("t {} d {}", bits(t), bits(d2)), why)
        }
    }
}

fn random_params(rng: &mut Rng) -> [f64; 6] {
    let u = |rng: &mut Rng, lo: f64, hi: f64| lo + (hi - lo) * rng.f64_unit();
    let h = match rng.below(12) {
        0 => 0.0,
        1 => f64::from_bits(1 + rng.below(1000)),          // subnormal
        2 => -f64::from_bits(1 + rng.below(1000)),
        3 => f64::EPSILON * [0.5, 1.0, 2.0][rng.below(3) as usize],
        _ => {
            let e = u(rng, -17.0, 2.0);
            let s = if rng.bool() { 1.0 } else { -1.0 };
            s * 10f64.powf(e)
        }
    };
    [u(rng, -3.0, 3.0), u(rng, -3.0, 3.0), u(rng, -1.2, 1.2), 10f64.powf(u(rng, (0.03f64).log10(), (5.0f64).log10())), u(rng, -2.0 * PI, 2.0 * PI), h]
}

pub fn generate(s: &mut Session, thorough: bool) -> bool {
    s.agree = Some(agree);
    let mut rng = Rng::new(s.seed);
    let n = if thorough { 100_000 } else { 10_000 };
    let grid = if thorough { 1 << 14 } else { 1 << 12 };
    for i in 0..n {
        let p = random_params(&mut rng);
        // points anywhere in the drift volume, or within 1 cm of the helix
        let (gen, pt): (&'static str, (f64, f64, f64)) = if i % 2 == 0 {
            ("drift-volume", (0.109 + 0.081 * rng.f64_unit(), (2.0 * rng.f64_unit() - 1.0) * PI, (2.0 * rng.f64_unit() - 1.0) * 1.152))
        } else {
            let t = (2.0 * rng.f64_unit() - 1.0) * PI;
            let (x, y, z) = helix_xyz(&p, t);
            let j = |rng: &mut Rng| (2.0 * rng.f64_unit() - 1.0) * 0.01 / 3f64.sqrt();
            let (x, y, z) = (x + j(&mut rng), y + j(&mut rng), z + j(&mut rng));
            ("near-helix", (x.hypot(y), y.atan2(x), z))
        };
        let (req, imp, why) = run_case(p, pt, grid);
        s.push_oracle(gen, req, imp, why);
    }
    // eccentricity-targeted: pitch chosen so that e = 4 pi^2 rho R / h^2 lies in [0.5, 200], where
    // Kepler's equation has several roots per revolution (the case DESIGN.md C16 (c) worries about)
    for _ in 0..n {
        let mut p = random_params(&mut rng);
        let t = (2.0 * rng.f64_unit() - 1.0) * PI;
        let e = 10f64.powf(-0.3 + 2.6 * rng.f64_unit());
        // point at radial distance rho from the axis of the helix
        let rho = p[3] * (0.05 + 2.0 * rng.f64_unit());
        let ang = (2.0 * rng.f64_unit() - 1.0) * PI;
        p[5] = (if rng.bool() { 1.0 } else { -1.0 }) * 2.0 * PI * (rho * p[3] / e).sqrt();
        let z = p[5] / (2.0 * PI) * t + p[2] + (2.0 * rng.f64_unit() - 1.0) * p[5].abs() * 0.6;
        let (x, y) = (p[0] + rho * ang.cos(), p[1] + rho * ang.sin());
        let (req, imp, why) = run_case(p, (x.hypot(y), y.atan2(x), z), grid);
        s.push_oracle("eccentricity-targeted", req, imp, why);
    }
    // near-parabolic: e = 1 +- 10^-k (k in [0.3, 7]) and a stationary point at a small eccentric anomaly
    // E0 (log-uniform in [1e-5, 3], both signs), i.e. mean anomaly M = E0 - e sin E0 close to 0 where
    // Kepler's function is nearly flat and the Newton start decides convergence (seed C16-3); both
    // phase conventions (stationary point at the near and at the far side of the circle) are sampled
    for i in 0..n {
        let mut p = random_params(&mut rng);
        let k = 0.3 + 6.7 * rng.f64_unit();
        let e = if rng.below(3) == 0 { 1.0 + 10f64.powf(-k) } else { 1.0 - 10f64.powf(-k) };
        let rho = p[3] * (0.05 + 2.0 * rng.f64_unit());
        p[5] = (if rng.bool() { 1.0 } else { -1.0 }) * 2.0 * PI * (rho * p[3] / e).sqrt();
        let t0 = (2.0 * rng.f64_unit() - 1.0) * (PI - 0.2);
        let e0 = (if rng.bool() { 1.0 } else { -1.0 }) * 10f64.powf(-5.0 + 5.48 * rng.f64_unit());
        let m = e0 - e * e0.sin();
        let far = i % 2 == 0;
        let ang = p[4] + t0 - e0 - if far { PI } else { 0.0 };
        let z = p[2] + p[5] / (2.0 * PI) * (t0 - e0 + m);
        let (x, y) = (p[0] + rho * ang.cos(), p[1] + rho * ang.sin());
        let (req, imp, why) = run_case(p, (x.hypot(y), y.atan2(x), z), grid);
        s.push_oracle("near-parabolic", req, imp, why);
    }
    // degenerate geometry: the point exactly on the helix axis (r = 0, so e = 0 * R / h^2 is 0 or 0/0),
    // exactly on the helix, or at exactly the helix radius from the axis, for every class of pitch
    // (zero, subnormal, < EPSILON, tiny, ordinary, up to 1e2 m as the property quantifies) - seed C16-4
    for i in 0..n / 2 {
        use uom::si::length::meter;
        let mut p = random_params(&mut rng);
        p[5] = match i % 8 {
            0 => 0.0,
            1 => f64::from_bits(1 + rng.below(1 << 20)),
            2 => -f64::from_bits(1 + rng.below(1 << 52)),
            3 => 10f64.powf(-300.0 + 280.0 * rng.f64_unit()),
            4 => -10f64.powf(-20.0 + 5.0 * rng.f64_unit()),
            5 => f64::EPSILON * (0.25 + 2.0 * rng.f64_unit()),
            6 => (2.0 * rng.f64_unit() - 1.0) * 2.0,
            _ => 10f64.powf(-2.0 + 4.0 * rng.f64_unit()),
        };
        let (r, phi, z) = (0.1 + 0.09 * rng.f64_unit(), (2.0 * rng.f64_unit() - 1.0) * PI, (2.0 * rng.f64_unit() - 1.0) * 1.152);
        let sp = point(r, phi, z);
        let (x, y) = (sp.x().get::<meter>(), sp.y().get::<meter>());
        let kind = (i / 8) % 4;
        if kind == 3 {
            // exactly axis-aligned: centre on the x axis beyond the point, phase 0, point at phi = 0, so that
            // the vector to the phase-0 point and the vector to the point are exactly antiparallel (cross
            // product exactly 0, angle pi): for a circle the closest t is +-pi, not 0 (seed C16-11)
            p[0] = r + p[3] * (1.0 + 2.0 * rng.f64_unit());
            p[1] = 0.0;
            p[4] = 0.0;
            let (req, imp, why) = run_case(p, (r, 0.0, z), grid);
            s.push_oracle("degenerate-geometry", req, imp, why);
            // and exactly parallel (angle 0)
            p[0] = r - p[3] * (1.0 + 2.0 * rng.f64_unit());
            let (req, imp, why) = run_case(p, (r, 0.0, z), grid);
            s.push_oracle("degenerate-geometry", req, imp, why);
            continue;
        }
        if kind == 0 {
            // axis through the point
            p[0] = x;
            p[1] = y;
        } else if kind == 1 {
            // point on the helix at parameter t (up to rounding of the centre)
            let t = (2.0 * rng.f64_unit() - 1.0) * PI;
            p[0] = x - p[3] * (t + p[4]).cos();
            p[1] = y - p[3] * (t + p[4]).sin();
            p[2] = z - p[5] / (2.0 * PI) * t;
        } else {
            // axis at exactly the helix radius from the point, along x
            p[0] = x - p[3];
            p[1] = y;
        }
        let (req, imp, why) = run_case(p, (r, phi, z), grid);
        s.push_oracle("degenerate-geometry", req, imp, why);
    }
    // realistic tracks: helices through the origin region crossing the drift volume
    for _ in 0..n / 3 {
        let r = 0.3 + 3.0 * rng.f64_unit();
        let phic = (2.0 * rng.f64_unit() - 1.0) * PI;
        let d = r + (2.0 * rng.f64_unit() - 1.0) * 0.01;
        let p = [d * phic.cos(), d * phic.sin(), (2.0 * rng.f64_unit() - 1.0) * 0.8, r, phic + PI, (2.0 * rng.f64_unit() - 1.0) * 10.0];
        let t = (2.0 * rng.f64_unit() - 1.0) * 0.5;
        let (x, y, z) = helix_xyz(&p, t);
        let (req, imp, why) = run_case(p, (x.hypot(y), y.atan2(x), z + 0.001), grid);
        s.push_oracle("track-like", req, imp, why);
    }
    // the parameter reported for each track of a primary vertex: closest approach of that track to the
    // FITTED vertex position (seed C16-6 computed it at the seed z of the fit)
    {
        use alpha_g_physics::reconstruction::find_vertices;
        use uom::si::length::meter;
        let mut checked = 0usize;
        for _ in 0..n / 20 {
            // 2-4 tracks through a common point 0-3 cm off the beamline, with unequal slopes
            let (vx, vy, vz) = ((2.0 * rng.f64_unit() - 1.0) * 0.03, (2.0 * rng.f64_unit() - 1.0) * 0.03, (2.0 * rng.f64_unit() - 1.0) * 0.8);
            let nt = rng.range(2, 4) as usize;
            let mut specs: Vec<[f64; 8]> = Vec::new();
            for _ in 0..nt {
                let r = 0.3 + 3.0 * rng.f64_unit();
                let ang = (2.0 * rng.f64_unit() - 1.0) * PI;
                let h = (2.0 * rng.f64_unit() - 1.0) * 6.0;
                let (x0, y0) = (vx + r * ang.cos(), vy + r * ang.sin());
                let phi0 = ang + PI;
                specs.push([x0, y0, vz, r, phi0, h, 0.03, 0.25 + 0.3 * rng.f64_unit()]);
            }
            let tracks: Vec<_> = specs.iter().map(|t| hook::track_from_params([t[0], t[1], t[2], t[3], t[4], t[5]], t[6], t[7])).collect();
            let req = format!("vertexfit {}", specs.iter().map(|t| t.iter().map(|x| format!("{:016x}", x.to_bits())).collect::<Vec<_>>().join(",")).collect::<Vec<_>>().join(" "));
            let (imp, why) = match guarded(move || find_vertices(tracks)) {
                Err(m) => (format!("panic {m}"), Some(format!("find_vertices panicked: {m}"))),
                Ok(res) => match res.primary {
                    None => ("ok none".to_string(), None),
                    Some(v) => {
                        let q = (v.position.x.get::<meter>(), v.position.y.get::<meter>(), v.position.z.get::<meter>());
                        let mut why = None;
                        let mut out = format!("ok {:016x} {:016x} {:016x}", q.0.to_bits(), q.1.to_bits(), q.2.to_bits());
                        for (tr, t) in &v.tracks {
                            let p = hook::track_params(tr);
                            out.push_str(&format!(" {:016x}", t.to_bits()));
                            checked += 1;
                            if t.is_nan() || !(-PI..=PI).contains(t) {
                                why = Some(format!("vertex track parameter {t} is NaN or outside [-pi, pi]"));
                            } else if *t > -PI && *t < PI {
                                let (best, tb) = min_dist(&p, q, grid);
                                let mine = dist(&p, q, *t);
                                if mine > best + 1e-9 {
                                    why = Some(format!(
                                        "vertex track parameter t={t:?} is at distance {mine:e} m from the fitted vertex but t'={tb:?} is at {best:e} m (closer by {:e} m)",
                                        mine - best
                                    ));
                                }
                            }
                        }
                        (out, why)
                    }
                },
            };
            // implementation-only request (the vertex fit itself is tied to the model by module c14c):
            // the driver echoes the recorded answer after `=>`
            s.push_oracle("vertex-track-t", format!("impl-only {req} => {imp}"), imp, why);
        }
        s.notes.insert("vertex_track_parameters_checked".into(), serde_json::json!(checked));
    }
    let inside = s.cases.iter().filter(|c| parse_td(&c.imp).map(|(t, _)| t > -PI && t < PI).unwrap_or(false)).count();
    s.notes.insert("t_strictly_inside".into(), serde_json::json!(inside));
    s.notes.insert("grid_points_per_case".into(), serde_json::json!(grid));
    false
}

pub fn run_request(cmd: &str, args: &[&str]) -> Option<String> {
    if cmd != "closest" || args.len() != 11 {
        return None;
    }
    let f: Vec<f64> = args[..10].iter().filter_map(|a| a.parse::<u64>().ok().map(f64::from_bits)).collect();
    if f.len() != 10 {
        return None;
    }
    let (_, imp, why) = run_case([f[0], f[1], f[2], f[3], f[4], f[5]], (f[6], f[7], f[8]), 1 << 14);
    Some(match why {
        Some(w) => format!("{imp}   # ORACLE: {w}"),
        None => imp,
    })
}
