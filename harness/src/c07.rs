//! C07: Chronobox FIFO parsing is faithful, resumable and split-invariant (also the chronobox
//! part of C01: `chronobox_fifo`, `ChannelId::try_from(u8)`, `BoardId::try_from(&str)`).
//!
//! Requests: `cbfifo <hex>` / `cbparse <hex>` (one call of `chronobox_fifo`; the two names
//! select the two layers of the Lean model), `cbfeed <hex>|<hex>|…` (resume protocol),
//! `cbchan <n>`, `cbboard <hex of the name>`.
use crate::{guarded, hex, Rng, Session};
use alpha_g_detector::chronobox::{chronobox_fifo, BoardId, ChannelId, EdgeType, FifoEntry};
use std::collections::BTreeMap;

#[derive(Clone, Debug, PartialEq, Eq)]
pub enum E {
    Ts(u8, bool, u32),
    Mk(bool, u32),
}

fn conv(e: &FifoEntry) -> E {
    match e {
        FifoEntry::TimestampCounter(t) => {
            E::Ts(u8::from(t.channel), matches!(t.edge, EdgeType::Trailing), t.timestamp())
        }
        FifoEntry::WrapAroundMarker(m) => E::Mk(m.timestamp_top_bit, m.wrap_around_counter()),
    }
}

fn show(es: &[E], rest: &[u8]) -> String {
    let mut s = format!("ok {}", es.len());
    for e in es {
        match e {
            E::Ts(ch, edge, t) => s.push_str(&format!(" ts:{}:{}:{}", ch, *edge as u8, t)),
            E::Mk(top, c) => s.push_str(&format!(" mk:{}:{}", *top as u8, c)),
        }
    }
    s.push_str(&format!(" rest={}", hex(rest)));
    s
}

/// One call of the real parser: entries, number of bytes consumed, and whether the advanced
/// slice is literally the tail of the input (same end address, same bytes).
fn one_shot(bytes: &[u8]) -> Result<(Vec<E>, usize, bool), String> {
    guarded(|| {
        let mut input = bytes;
        let v = chronobox_fifo(&mut input);
        let es: Vec<E> = v.iter().map(conv).collect();
        let consumed = bytes.len() - input.len().min(bytes.len());
        let end_ok = input.len() <= bytes.len()
            && input.as_ptr_range().end == bytes.as_ptr_range().end
            && input == &bytes[bytes.len() - input.len()..];
        (es, consumed, end_ok)
    })
}

/// The documented resume protocol with the real function: append the piece to the previous
/// remainder, parse, accumulate the entries, keep the remainder.
fn feed_impl(pieces: &[Vec<u8>]) -> Result<(Vec<E>, Vec<u8>), String> {
    guarded(|| {
        let mut buf: Vec<u8> = Vec::new();
        let mut out: Vec<E> = Vec::new();
        for p in pieces {
            buf.extend_from_slice(p);
            let rest = {
                let mut input = &buf[..];
                let v = chronobox_fifo(&mut input);
                out.extend(v.iter().map(conv));
                input.to_vec()
            };
            buf = rest;
        }
        (out, buf)
    })
}

/// Why the scanner stopped (coverage bookkeeping only).
#[derive(Clone, Copy, Debug, PartialEq, Eq, PartialOrd, Ord)]
pub enum Stop {
    Empty,
    ShortWord,
    BadChannel,
    NoTopBit,
    IncompleteBlock,
    FeNotTag,
}

pub struct Scan {
    pub entries: Vec<E>,
    pub words: usize,
    pub blocks: usize,
    pub consumed: usize,
    pub stop: Stop,
    pub block_then_nonentry: bool,
}

/// Independent scanner written from the property text (the grammar), not from the parser:
/// longest prefix made of timestamp words, marker words and complete 244-byte scaler blocks.
pub fn scan(b: &[u8]) -> Scan {
    let mut pos = 0usize;
    let mut sc = Scan { entries: vec![], words: 0, blocks: 0, consumed: 0, stop: Stop::Empty, block_then_nonentry: false };
    let mut after_block = false;
    loop {
        let r = &b[pos..];
        if r.is_empty() {
            sc.stop = Stop::Empty;
            break;
        }
        if r.len() < 4 {
            sc.stop = Stop::ShortWord;
            break;
        }
        let top = r[3];
        let low = r[0] as u32 | (r[1] as u32) << 8 | (r[2] as u32) << 16;
        if top == 0xFF {
            sc.entries.push(E::Mk(low >> 23 == 1, low % (1 << 23)));
            sc.words += 1;
            pos += 4;
            after_block = false;
            continue;
        }
        if top >= 0x80 && top - 0x80 < 59 {
            sc.entries.push(E::Ts(top - 0x80, low % 2 == 1, low - low % 2));
            sc.words += 1;
            pos += 4;
            after_block = false;
            continue;
        }
        if r[..4] == [0x3C, 0x00, 0x00, 0xFE] {
            if r.len() >= 244 {
                sc.blocks += 1;
                pos += 244;
                after_block = true;
                continue;
            }
            sc.stop = Stop::IncompleteBlock;
            break;
        }
        sc.stop = if top < 0x80 {
            Stop::NoTopBit
        } else if top == 0xFE {
            Stop::FeNotTag
        } else {
            Stop::BadChannel
        };
        break;
    }
    if after_block {
        sc.block_then_nonentry = true;
    }
    sc.consumed = pos;
    sc
}

struct Cover {
    stops: BTreeMap<String, usize>,
    ts: usize,
    mk: usize,
    blocks: usize,
    block_then_nonentry: usize,
    feed_rest_nonempty: usize,
    feed_cut_in_word: usize,
    feed_cut_in_block: usize,
    feed_empty_piece: usize,
    max_len: usize,
}

/// Canonical answer for a one-shot parse, with the oracle verdict.
fn run_one(bytes: &[u8], cov: Option<&mut Cover>) -> (String, Option<String>) {
    match one_shot(bytes) {
        Err(msg) => (format!("panic {msg}"), Some(format!("chronobox_fifo panicked: {msg}"))),
        Ok((es, consumed, end_ok)) => {
            let sc = scan(bytes);
            let mut why = None;
            if !end_ok {
                why = Some("the advanced slice is not a suffix of the input".to_string());
            } else if consumed != 4 * sc.words + 244 * sc.blocks || consumed != sc.consumed {
                why = Some(format!(
                    "consumed {} bytes, the grammar's longest prefix is {} bytes ({} words, {} blocks)",
                    consumed, sc.consumed, sc.words, sc.blocks
                ));
            } else if es != sc.entries {
                why = Some("entries differ from the grammar scanner's fields".to_string());
            } else if 4 * es.len() > bytes.len() {
                why = Some("more entries than len/4".to_string());
            }
            if let Some(c) = cov {
                *c.stops.entry(format!("{:?}", sc.stop)).or_default() += 1;
                c.ts += es.iter().filter(|e| matches!(e, E::Ts(..))).count();
                c.mk += es.iter().filter(|e| matches!(e, E::Mk(..))).count();
                c.blocks += sc.blocks;
                c.block_then_nonentry += sc.block_then_nonentry as usize;
                c.max_len = c.max_len.max(bytes.len());
            }
            (show(&es, &bytes[consumed.min(bytes.len())..]), why)
        }
    }
}

/// Canonical answer for the resume protocol, with the oracle verdict (pieces ≡ whole).
fn run_feed(pieces: &[Vec<u8>], cov: Option<&mut Cover>) -> (String, Option<String>) {
    let whole: Vec<u8> = pieces.concat();
    match feed_impl(pieces) {
        Err(msg) => (format!("panic {msg}"), Some(format!("chronobox_fifo panicked: {msg}"))),
        Ok((es, rest)) => {
            let mut why = None;
            match one_shot(&whole) {
                Err(msg) => why = Some(format!("one-shot parse panicked: {msg}")),
                Ok((wes, consumed, end_ok)) => {
                    if !end_ok {
                        why = Some("one-shot: advanced slice is not a suffix".to_string());
                    } else if wes != es {
                        why = Some(format!(
                            "pieces give {} entries, the whole stream {} (or different ones)",
                            es.len(),
                            wes.len()
                        ));
                    } else if rest != whole[consumed..] {
                        why = Some("final remainder differs between pieces and whole".to_string());
                    }
                }
            }
            if let Some(c) = cov {
                let sc = scan(&whole);
                // classify cut positions against the grammar's item boundaries of the whole
                let mut bounds = vec![false; whole.len() + 1];
                let mut in_block = vec![false; whole.len() + 1];
                let mut pos = 0;
                bounds[0] = true;
                while pos < sc.consumed {
                    let step = if whole[pos + 3] == 0xFE { 244 } else { 4 };
                    if step == 244 {
                        for k in pos + 1..pos + 244 {
                            in_block[k] = true;
                        }
                    }
                    pos += step;
                    bounds[pos] = true;
                }
                let mut off = 0;
                for p in &pieces[..pieces.len().saturating_sub(1)] {
                    off += p.len();
                    if off < sc.consumed && !bounds[off] {
                        if in_block[off] {
                            c.feed_cut_in_block += 1;
                        } else {
                            c.feed_cut_in_word += 1;
                        }
                    }
                }
                c.feed_empty_piece += pieces.iter().filter(|p| p.is_empty()).count();
                c.feed_rest_nonempty += (!rest.is_empty()) as usize;
                c.max_len = c.max_len.max(whole.len());
            }
            (show(&es, &rest), why)
        }
    }
}

fn chan_answer(n: u8) -> (String, Option<String>) {
    match guarded(|| ChannelId::try_from(n).map(u8::from)) {
        Err(msg) => (format!("panic {msg}"), Some(format!("ChannelId::try_from panicked: {msg}"))),
        Ok(Ok(c)) => (
            format!("ok {c}"),
            if c != n || n >= 59 { Some("accepted channel is not the input or is >= 59".into()) } else { None },
        ),
        Ok(Err(_)) => (
            "err TryChannelIdFromUnsignedError".to_string(),
            if n < 59 { Some("channel < 59 rejected".into()) } else { None },
        ),
    }
}

fn board_answer(name: &str) -> (String, Option<String>) {
    let known = ["cb01", "cb02", "cb03", "cb04"].contains(&name);
    match guarded(|| BoardId::try_from(name).map(|b| b.name().to_string())) {
        Err(msg) => (format!("panic {msg}"), Some(format!("BoardId::try_from panicked: {msg}"))),
        Ok(Ok(n)) => (
            format!("ok {n}"),
            if n != name || !known { Some("accepted board name is not a documented one".into()) } else { None },
        ),
        Ok(Err(_)) => (
            "err ParseBoardIdError".to_string(),
            if known { Some("documented board name rejected".into()) } else { None },
        ),
    }
}

fn pieces_arg(pieces: &[Vec<u8>]) -> String {
    pieces.iter().map(|p| hex(p)).collect::<Vec<_>>().join("|")
}

/// Replay entry.
pub fn run_request(cmd: &str, args: &[&str]) -> Option<String> {
    match (cmd, args) {
        ("cbfifo", [h]) | ("cbparse", [h]) => crate::unhex(h).map(|b| run_one(&b, None).0),
        ("cbfeed", [p]) => {
            let pieces: Option<Vec<Vec<u8>>> = p.split('|').map(crate::unhex).collect();
            pieces.map(|ps| run_feed(&ps, None).0)
        }
        ("cbchan", [n]) => n.parse::<u64>().ok().and_then(|k| u8::try_from(k).ok()).map(|k| chan_answer(k).0),
        ("cbboard", [h]) => crate::unhex(h)
            .and_then(|b| String::from_utf8(b).ok())
            .map(|s| board_answer(&s).0),
        _ => None,
    }
}

// ---------------------------------------------------------------------------------------------
// builders

fn ts_word(ch: u8, t24: u32) -> [u8; 4] {
    [(t24 & 0xFF) as u8, (t24 >> 8 & 0xFF) as u8, (t24 >> 16 & 0xFF) as u8, 0x80 | ch]
}
fn mk_word(top: bool, counter: u32) -> [u8; 4] {
    let v = (counter & 0x7F_FFFF) | (top as u32) << 23;
    [(v & 0xFF) as u8, (v >> 8 & 0xFF) as u8, (v >> 16 & 0xFF) as u8, 0xFF]
}
const TAG: [u8; 4] = [0x3C, 0x00, 0x00, 0xFE];

/// A word that is neither a timestamp nor a marker (and, unless `allow_tag`, not the tag).
fn invalid_word(rng: &mut Rng) -> [u8; 4] {
    let low = rng.bytes(3);
    let top = match rng.below(8) {
        0 => 0x80 + 59,                       // first invalid channel
        1 => rng.range(0x80 + 59, 0xFD) as u8, // channel >= 59
        2 => rng.range(0, 0x7F) as u8,        // no 0x80 bit
        3 => 59,                              // valid channel number without the 0x80 bit
        4 => 0xFE,                            // tag-like top byte, random low bytes
        5 => 0x7F,
        6 => 0x00,
        _ => 0xFE,
    };
    let mut w = [low[0], low[1], low[2], top];
    if w == TAG {
        w[0] = 0x3D;
    }
    w
}

/// 240 payload bytes of a scalers block that deliberately look like FIFO words and tags.
fn tricky_payload(rng: &mut Rng) -> Vec<u8> {
    let mut v = Vec::with_capacity(240);
    while v.len() < 240 {
        match rng.below(7) {
            0 => v.extend(ts_word(rng.below(59) as u8, rng.next() as u32 & 0xFF_FFFF)),
            1 => v.extend(mk_word(rng.bool(), rng.next() as u32)),
            2 => v.extend(TAG),
            3 => v.extend(invalid_word(rng)),
            4 => v.extend([0u8; 4]),
            5 => v.extend((rng.next() as u32 % 100_000).to_le_bytes()), // plausible scaler count
            _ => v.extend(rng.bytes(4)),
        }
    }
    v.truncate(240);
    v
}

fn block(rng: &mut Rng) -> Vec<u8> {
    let mut v = TAG.to_vec();
    v.extend(tricky_payload(rng));
    v
}

/// Hardware-like stream: timestamps on random channels with advancing time, wrap-around
/// markers with alternating top bit and incrementing counter, scaler blocks interleaved.
fn hw_stream(rng: &mut Rng, items: usize, block_share: u64) -> Vec<u8> {
    let mut v = Vec::new();
    let mut t: u32 = rng.next() as u32 & 0xFF_FFFF;
    let mut counter: u32 = if rng.below(4) == 0 { 0x7F_FFF0 + rng.below(16) as u32 } else { rng.below(5) as u32 };
    let mut top = rng.bool();
    for _ in 0..items {
        let k = rng.below(100);
        if k < block_share {
            v.extend(block(rng));
        } else if k < block_share + 8 {
            v.extend(mk_word(top, counter));
            top = !top;
            if !top {
                counter = counter.wrapping_add(1);
            }
        } else {
            let dt = match rng.below(4) {
                0 => 0,
                1 => 1,
                2 => rng.below(1 << 20) as u32,
                _ => rng.below(300) as u32,
            };
            t = (t + dt) & 0xFF_FFFF;
            let ch = match rng.below(6) {
                0 => 0,
                1 => 58,
                _ => rng.below(59) as u8,
            };
            v.extend(ts_word(ch, t));
        }
    }
    v
}

/// Random word soup: `bad_pct` percent of the words are invalid.
fn soup(rng: &mut Rng, words: usize, bad_pct: u64, block_pct: u64) -> Vec<u8> {
    let mut v = Vec::new();
    for _ in 0..words {
        let k = rng.below(100);
        if k < bad_pct {
            v.extend(invalid_word(rng));
        } else if k < bad_pct + block_pct {
            v.extend(block(rng));
        } else if rng.below(5) == 0 {
            v.extend(mk_word(rng.bool(), rng.next() as u32));
        } else {
            v.extend(ts_word(rng.below(59) as u8, rng.next() as u32));
        }
    }
    v
}

fn cut(bytes: &[u8], cuts: &[usize]) -> Vec<Vec<u8>> {
    let mut out = Vec::new();
    let mut prev = 0;
    for &c in cuts {
        out.push(bytes[prev..c].to_vec());
        prev = c;
    }
    out.push(bytes[prev..].to_vec());
    out
}

pub fn generate(s: &mut Session, thorough: bool) -> bool {
    let mut rng = Rng::new(s.seed);
    let scale: usize = if thorough { 30 } else { 1 };
    let mut cov = Cover {
        stops: BTreeMap::new(), ts: 0, mk: 0, blocks: 0, block_then_nonentry: 0, feed_rest_nonempty: 0,
        feed_cut_in_word: 0, feed_cut_in_block: 0, feed_empty_piece: 0, max_len: 0,
    };
    // the Lean combinator-level model is quadratic in the length; long inputs use `cbparse`
    let one = |s: &mut Session, cov: &mut Cover, gen: &'static str, b: &[u8]| {
        let (imp, why) = run_one(b, Some(cov));
        let cmd = if b.len() <= 4096 { "cbfifo" } else { "cbparse" };
        s.push_oracle(gen, format!("{cmd} {}", hex(b)), imp, why);
    };
    let both = |s: &mut Session, cov: &mut Cover, gen: &'static str, b: &[u8]| {
        let (imp, why) = run_one(b, Some(cov));
        s.push_oracle(gen, format!("cbfifo {}", hex(b)), imp.clone(), why.clone());
        s.push_oracle(gen, format!("cbparse {}", hex(b)), imp, why);
    };
    let feed = |s: &mut Session, cov: &mut Cover, gen: &'static str, p: &[Vec<u8>]| {
        let (imp, why) = run_feed(p, Some(cov));
        s.push_oracle(gen, format!("cbfeed {}", pieces_arg(p)), imp, why);
    };

    // (i) classification: top byte 0..=255 x random / boundary low bytes, alone and followed by
    // a valid word (does the parser stop in front of it?)
    let lows: [u32; 8] = [0, 1, 2, 0x7F_FFFF, 0x80_0000, 0x80_0001, 0xFF_FFFE, 0xFF_FFFF];
    for top in 0..=255u8 {
        for k in 0..(10 + 6 * (scale - 1)) {
            let low = if k < lows.len() { lows[k] } else { rng.next() as u32 & 0xFF_FFFF };
            let w = [(low & 0xFF) as u8, (low >> 8 & 0xFF) as u8, (low >> 16) as u8, top];
            both(s, &mut cov, "top-byte-sweep", &w);
            if k % 3 == 0 {
                let mut b = w.to_vec();
                b.extend(ts_word(7, 0x123456));
                b.extend(&w[..(k % 4)]);
                one(s, &mut cov, "top-byte-sweep", &b);
            }
        }
    }
    // every single-bit flip of a timestamp word, a marker word and the tag (followed by a payload)
    for base in [ts_word(58, 0xABCDEF), ts_word(0, 0), mk_word(true, 0x7F_FFFF), mk_word(false, 0)] {
        for bit in 0..32 {
            let mut w = base;
            w[bit / 8] ^= 1 << (bit % 8);
            both(s, &mut cov, "bit-flip", &w);
        }
    }
    {
        let blk = block(&mut rng);
        for bit in 0..32 {
            let mut b = blk.clone();
            b[bit / 8] ^= 1 << (bit % 8);
            b.extend(ts_word(3, 5));
            both(s, &mut cov, "bit-flip", &b);
        }
    }
    // (ii) hardware-like streams, one shot
    for _ in 0..150 * scale {
        let n = rng.range(0, 120) as usize;
        let share = *rng.pick(&[0u64, 2, 5, 20]);
        let b = hw_stream(&mut rng, n, share);
        one(s, &mut cov, "hardware-like", &b);
    }
    // (iii) word soups with a tuned share of invalid words, one shot; short random byte strings
    for _ in 0..300 * scale {
        let n = rng.range(0, 60) as usize;
        let bad = *rng.pick(&[0u64, 1, 3, 10, 50]);
        let blk = *rng.pick(&[0u64, 3, 10]);
        let mut b = soup(&mut rng, n, bad, blk);
        let extra = rng.below(4) as usize;
        b.extend(rng.bytes(extra));
        one(s, &mut cov, "word-soup", &b);
    }
    for len in 0..=16usize {
        for _ in 0..12 * scale {
            let mut b = rng.bytes(len);
            if len >= 4 && rng.bool() {
                b[3] = 0x80 | rng.below(64) as u8;
            }
            both(s, &mut cov, "short-random", &b);
        }
    }
    // (iv) truncations inside a block: words + block + words cut at every length; block followed
    // by a non-entry (block is consumed), by an incomplete block, by a second block
    for _ in 0..2 * scale {
        let mut b = soup(&mut rng, 3, 0, 0);
        let start = b.len();
        b.extend(block(&mut rng));
        b.extend(soup(&mut rng, 2, 0, 0));
        for len in start.saturating_sub(5)..=b.len() {
            both(s, &mut cov, "block-truncation", &b[..len]);
        }
    }
    for _ in 0..40 * scale {
        let nw = rng.below(4) as usize;
        let mut b = soup(&mut rng, nw, 0, 0);
        b.extend(block(&mut rng));
        match rng.below(5) {
            0 => b.extend(invalid_word(&mut rng)),
            1 => {
                let blk = block(&mut rng);
                let k = rng.range(0, 243) as usize;
                b.extend(&blk[..k]);
            }
            2 => {
                b.extend(block(&mut rng));
                b.extend(invalid_word(&mut rng));
            }
            3 => {
                let k = rng.range(0, 3) as usize;
                b.extend(rng.bytes(k));
            }
            _ => {
                b.extend(block(&mut rng));
                b.extend(soup(&mut rng, 2, 0, 0));
            }
        }
        both(s, &mut cov, "block-followers", &b);
    }
    // (v) exhaustive 2-cuts of streams <= 600 bytes (every cut position, including 0 and len)
    for k in 0..6 * scale {
        let b = match k % 6 {
            0 => hw_stream(&mut rng, 40, 4),
            1 => {
                let mut b = soup(&mut rng, 10, 0, 0);
                b.extend(block(&mut rng));
                b.extend(soup(&mut rng, 5, 0, 0));
                b.extend(block(&mut rng));
                b
            }
            2 => soup(&mut rng, 100, 2, 1),
            3 => {
                let mut b = block(&mut rng);
                b.extend(block(&mut rng));
                b.extend(soup(&mut rng, 8, 0, 0));
                b.truncate(b.len() - rng.below(3) as usize);
                b
            }
            4 => {
                // stuck stream: valid, invalid word, valid again
                let mut b = hw_stream(&mut rng, 20, 3);
                b.extend(invalid_word(&mut rng));
                b.extend(hw_stream(&mut rng, 10, 10));
                b
            }
            _ => hw_stream(&mut rng, 30, 10),
        };
        let b = &b[..b.len().min(600)];
        for c in 0..=b.len() {
            feed(s, &mut cov, "all-2-cuts", &cut(b, &[c]));
        }
    }
    // exhaustive 3-cuts (all c1 <= c2) of short streams, incl. empty pieces
    for k in 0..3 * scale {
        let b = match k % 3 {
            0 => soup(&mut rng, 9, 0, 0),
            1 => {
                let mut b = soup(&mut rng, 6, 0, 0);
                b.extend(invalid_word(&mut rng));
                b.extend(soup(&mut rng, 2, 0, 0));
                b
            }
            _ => soup(&mut rng, 10, 10, 0),
        };
        for c1 in 0..=b.len() {
            for c2 in c1..=b.len() {
                feed(s, &mut cov, "all-3-cuts-short", &cut(&b, &[c1, c2]));
            }
        }
    }
    // 3-cuts around a block: both cuts range over the neighbourhood of the block
    for _ in 0..scale {
        let mut b = soup(&mut rng, 2, 0, 0);
        b.extend(block(&mut rng));
        b.extend(soup(&mut rng, 2, 0, 0));
        let pts: Vec<usize> = (0..=b.len()).filter(|&c| c <= 16 || c >= b.len() - 16 || c % 37 == 0).collect();
        for (i, &c1) in pts.iter().enumerate() {
            for &c2 in &pts[i..] {
                feed(s, &mut cov, "3-cuts-around-block", &cut(&b, &[c1, c2]));
            }
        }
    }
    // (vi) random k-cuts of long streams (up to ~64 KiB), pieces of any size incl. empty
    for k in 0..40 * scale {
        let items = match k % 8 {
            0 => rng.range(8000, 16000) as usize,
            1 | 2 => rng.range(1000, 4000) as usize,
            _ => rng.range(50, 600) as usize,
        };
        let mut b = if rng.bool() { hw_stream(&mut rng, items, 3) } else { soup(&mut rng, items, 0, 2) };
        if rng.below(3) == 0 {
            // make it stuck somewhere
            let pos = rng.below(b.len() as u64 / 4 + 1) as usize * 4;
            let w = invalid_word(&mut rng);
            let pos = pos.min(b.len());
            b.splice(pos..pos, w);
        }
        if rng.below(3) == 0 {
            let t = rng.below(250) as usize;
            b.truncate(b.len().saturating_sub(t));
        }
        let kcuts = rng.range(1, 20) as usize;
        let mut cuts: Vec<usize> = (0..kcuts)
            .map(|_| if rng.below(6) == 0 { 0 } else { rng.below(b.len() as u64 + 1) as usize })
            .collect();
        if rng.below(4) == 0 && !cuts.is_empty() {
            let c = cuts[0];
            cuts.push(c); // an empty piece in the middle
        }
        cuts.sort();
        feed(s, &mut cov, "random-k-cuts-long", &cut(&b, &cuts));
        if k % 8 == 0 {
            one(s, &mut cov, "long-one-shot", &b);
        }
    }
    // (vi-b) very long runs of entries with no scalers block in between (a bound on the number of
    // entries per run: seed C07-7 stopped after 8192), one shot and fed in two pieces
    for n in [4095usize, 4096, 8191, 8192, 8193, 10_000, 16_384, 20_000, 65_537] {
        let mut b = Vec::with_capacity(4 * n);
        for i in 0..n {
            if i % 977 == 976 {
                b.extend(mk_word(i % 2 == 0, (i as u32) & 0x7F_FFFF));
            } else {
                b.extend(ts_word((i % 59) as u8, (i as u32 * 7919) & 0xFF_FFFF));
            }
        }
        one(s, &mut cov, "long-run-no-blocks", &b);
        let c = 4 * (n / 3) + 2;
        feed(s, &mut cov, "long-run-no-blocks", &cut(&b, &[c]));
    }
    // byte-by-byte feeding of a medium stream (every piece has length 1), and all-empty pieces
    for _ in 0..3 * scale {
        let mut b = hw_stream(&mut rng, 30, 5);
        if rng.bool() {
            b.extend(invalid_word(&mut rng));
            b.extend(soup(&mut rng, 3, 0, 0));
        }
        let pieces: Vec<Vec<u8>> = b.iter().map(|&x| vec![x]).collect();
        feed(s, &mut cov, "byte-by-byte", &pieces);
    }
    feed(s, &mut cov, "byte-by-byte", &[vec![]]);
    feed(s, &mut cov, "byte-by-byte", &[vec![], vec![], vec![]]);
    // (vii) id conversions (C01): every u8; board names: the four known ones and near misses
    for n in 0..=255u8 {
        let (imp, why) = chan_answer(n);
        s.push_oracle("channel-id", format!("cbchan {n}"), imp, why);
    }
    let mut names: Vec<String> = ["cb01", "cb02", "cb03", "cb04", "cb00", "cb05", "cb1", "cb010", "CB01", "cb0", "", "cb", "c", "cb01\u{e9}", "\u{e9}b01", " cb01", "cb01 ", "cbé1", "cb０１"]
        .iter().map(|x| x.to_string()).collect();
    for a in ['c', 'C', 'd'] {
        for d in ['0', '1', '2', '3', '4', '5', '9', 'a'] {
            names.push(format!("{a}b0{d}"));
            names.push(format!("{a}b{d}1"));
        }
    }
    for n in names {
        if n.contains(' ') {
            continue; // a space would split the request line; covered by the others
        }
        let (imp, why) = board_answer(&n);
        s.push_oracle("board-id", format!("cbboard {}", hex(n.as_bytes())), imp, why);
    }
    s.notes.insert("stop_reasons_one_shot".into(), serde_json::json!(cov.stops));
    s.notes.insert(
        "coverage".into(),
        serde_json::json!({
            "timestamp_entries": cov.ts, "marker_entries": cov.mk, "blocks_skipped": cov.blocks,
            "block_consumed_then_no_entry": cov.block_then_nonentry,
            "feed_final_remainder_nonempty": cov.feed_rest_nonempty,
            "feed_cuts_inside_word": cov.feed_cut_in_word, "feed_cuts_inside_block": cov.feed_cut_in_block,
            "feed_empty_pieces": cov.feed_empty_piece, "max_stream_len": cov.max_len,
        }),
    );
    true
}
