//! C14b: the initial-guess stage of `fit_cluster_to_helix` and the initial simplex / beamline
//! bookkeeping of the vertex fit, tied bit for bit to the Lean model `AlphaG.TrackInit`
//! (lean/AlphaG/Model/TrackInit.lean) through the cfg-guarded hooks
//! `verif_three_template_points`, `verif_circle_through_three_points`, `verif_center_of_mass`,
//! `verif_take_track_simplex`, `verif_track_cost`, `verif_beamline_clusters`,
//! `verif_take_vertex_simplex`, `verif_vertex_cost`.
//!
//! Request lines (every `f64` is its bit pattern, 16 lowercase hex digits; answers print `nan` for
//! any NaN so that payloads never matter):
//!   template <r phi z per point …>          three_template_points
//!   circle <x1 y1 x2 y2 x3 y3>               circle_through_three_points
//!   com <r phi z per point …>                center_of_mass
//!   trackinit <delta> <r phi z per point …>  Track::try_from(Cluster) → recorded initial simplex (7×6)
//!   beamline <maxdist> <8 values per track>  beamline_clusters → clusters (canonical indices) + mean z
//!   vertexinit <delta> <8 values per track>  find_vertices → recorded initial simplex (4×3) | none
//! Comparison is exact (string equality): `sin`, `cos`, `atan2`, `hypot` are the same libm
//! functions on both sides. The only canonicalisation is the panic *site*: a Rust panic message
//! carries no location, so `called Option::unwrap() on a None value` is mapped to the one site that
//! can produce it for the given request (see `site_of`), and for `vertexinit`, where two sites can,
//! to the class `unwrap_none` (see `agree`).
//!
//! Generators (quick tier about 23 k cases in 5 s, thorough x20): random clusters of 3..200 points in
//! the drift volume; helical tracks (with noise, shuffled); exactly / nearly collinear clusters
//! (rays, chords, dyadic chords with ulp nudges, repeated points, equal radii, vertical lines,
//! near-equal triples); radius ties placed at random positions (first-minimum / last-maximum rule of
//! `minmax_impl`'s pairwise loop, first minimum of `min_by`, signed zero keys) and near ties that
//! depend on the last bit of `middle_r`; NaN / infinite / `f64::MAX` coordinates and slices of
//! 0, 1, 2 points (panic sites); clusters that make a guess entry exactly `0.0` or `-0.0` (symmetric
//! z, equal z, slivers); clusters found by a bounded search for which `theta == 0` (the `h = 0`
//! rule); radii of subnormal-square scale (outside the physical domain: the collinearity test passes
//! but `norm_sqr(z2 - z1)` underflows and the circle is NaN); circles on raw coordinates (random,
//! collinear, equal points, signed zeros, symmetric, scales 1e-170..1e160, NaN/inf) and on the
//! coordinates of cluster points; track sets of 0..=8 tracks with duplicates, z ties, NaN.
//!
//! Oracles on the real code, written independently of the model: the circle returned for
//! well-separated, clearly non-collinear points passes through them to 1e-6 relative; the template
//! points are members of the input with extremal radii; the centre of mass equals an independently
//! accumulated mean; every entry of a recorded simplex is finite when the fit returned `Ok`; the cost
//! at the initial guess is finite; no panic on finite input of at least three points.
use crate::{guarded, Rng, Session};
use alpha_g_physics::reconstruction::{find_vertices, Track};
use alpha_g_physics::verif::reconstruction as hook;
use alpha_g_physics::SpacePoint;
use std::f64::consts::PI;
use uom::si::f64::Length;
use uom::si::length::meter;

const DELTA: f64 = 0.05;

pub fn sp(r: f64, phi: f64, z: f64) -> SpacePoint {
    let mut p = SpacePoint { r: Default::default(), phi: Default::default(), z: Default::default() };
    p.r.value = r;
    p.phi.value = phi;
    p.z.value = z;
    p
}
fn sp_xyz(x: f64, y: f64, z: f64) -> SpacePoint {
    sp(x.hypot(y), y.atan2(x), z)
}
fn bits(v: f64) -> String {
    format!("{:016x}", v.to_bits())
}
/// Answer-side printing: NaN payloads are not compared.
fn show(v: f64) -> String {
    if v.is_nan() {
        "nan".to_string()
    } else {
        bits(v)
    }
}
fn show_all(vs: &[f64]) -> String {
    vs.iter().map(|v| show(*v)).collect::<Vec<_>>().join(" ")
}
fn point_bits(points: &[SpacePoint]) -> String {
    let mut s = String::new();
    for p in points {
        s.push_str(&format!(" {} {} {}", bits(p.r.value), bits(p.phi.value), bits(p.z.value)));
    }
    s
}
fn same_point(a: &SpacePoint, b: &SpacePoint) -> bool {
    a.r.value.to_bits() == b.r.value.to_bits()
        && a.phi.value.to_bits() == b.phi.value.to_bits()
        && a.z.value.to_bits() == b.z.value.to_bits()
}
/// Precondition of the panic / finiteness oracles: the property's domain "inside (or slightly
/// around) the drift volume" (r in [0.05, 0.25] m, |z| <= 1.3 m), widened to r in [0.01, 1] m,
/// |z| <= 10 m, any finite phi up to 1e3. Everything outside (zero or subnormal-scale radii,
/// `±f64::MAX`, infinities, NaN) is sent for the model/implementation comparison only.
fn finite_points(points: &[SpacePoint]) -> bool {
    points.iter().all(|p| {
        p.r.value >= 0.01 && p.r.value <= 1.0 && p.phi.value.is_finite() && p.phi.value.abs() <= 1e3 && p.z.value.abs() <= 10.0
    })
}

/// The site a panic message belongs to. `Option::unwrap()` on `None` is produced in
/// `three_template_points` by `into_option().unwrap()` only for an empty slice and otherwise only by
/// `partial_cmp(..).unwrap()` (the `.copied().unwrap()` after `min_by` cannot fire once the slice
/// is non-empty).
fn site_of(msg: &str, n_points: usize) -> String {
    if msg.contains("sp.len() >= 3") {
        "fit_cluster_to_helix:assert_len".to_string()
    } else if msg.contains("Option::unwrap()") {
        if n_points == 0 {
            "three_template_points:minmax_unwrap".to_string()
        } else {
            "three_template_points:partial_cmp_unwrap".to_string()
        }
    } else {
        format!("other:{}", msg.replace(' ', "_"))
    }
}

// ------------------------------------------------------------------ template

pub fn run_template(points: &[SpacePoint]) -> (String, Option<String>) {
    let pts = points.to_vec();
    let n = pts.len();
    match guarded(move || hook::verif_three_template_points(&pts)) {
        Err(m) => {
            let why = if n >= 3 && finite_points(points) { Some(format!("three_template_points panicked on finite radii: {m}")) } else { None };
            (format!("panic {}", site_of(&m, n)), why)
        }
        Ok(Err(_)) => ("err NoInitialParameters".to_string(), None),
        Ok(Ok((f, m, l))) => {
            let mut why = None;
            for (name, q) in [("first", &f), ("middle", &m), ("last", &l)] {
                if !points.iter().any(|p| same_point(p, q)) {
                    why = Some(format!("{name} template point is not an element of the input"));
                }
            }
            if points.iter().all(|p| p.r.value.is_finite() && p.r.value.abs() <= 1e300) {
                let lo = points.iter().map(|p| p.r.value).fold(f64::INFINITY, f64::min);
                let hi = points.iter().map(|p| p.r.value).fold(f64::NEG_INFINITY, f64::max);
                if f.r.value != lo || l.r.value != hi {
                    why = Some("first/last template points do not have the extremal radii".to_string());
                }
                let mid = (lo + hi) / 2.0;
                let best = points.iter().map(|p| (p.r.value - mid).abs()).fold(f64::INFINITY, f64::min);
                if (m.r.value - mid).abs() != best {
                    why = Some("middle template point is not closest to the mid radius".to_string());
                }
            }
            let s = format!(
                "ok {} {} {}",
                show_all(&[f.r.value, f.phi.value, f.z.value]),
                show_all(&[m.r.value, m.phi.value, m.z.value]),
                show_all(&[l.r.value, l.phi.value, l.z.value])
            );
            (s, why)
        }
    }
}

// ------------------------------------------------------------------ circle

/// Independent test "well separated and clearly not collinear" (the oracle's precondition).
fn well_conditioned(p: [f64; 6]) -> bool {
    if p.iter().any(|v| !v.is_finite() || v.abs() > 1e3) {
        return false;
    }
    let d = |i: usize, j: usize| (p[2 * i] - p[2 * j]).hypot(p[2 * i + 1] - p[2 * j + 1]);
    let (a, b, c) = (d(0, 1), d(0, 2), d(1, 2));
    let longest = a.max(b).max(c);
    let shortest = a.min(b).min(c);
    if shortest < 1e-3 * longest || longest < 1e-6 {
        return false;
    }
    // twice the triangle area over the product of two sides = sine of the enclosed angle
    let cross = (p[2] - p[0]) * (p[5] - p[1]) - (p[3] - p[1]) * (p[4] - p[0]);
    (cross / (a * b)).abs() >= 1e-3
}

pub fn run_circle(p: [f64; 6]) -> (String, Option<String>) {
    match guarded(move || hook::verif_circle_through_three_points((p[0], p[1]), (p[2], p[3]), (p[4], p[5]))) {
        Err(m) => (format!("panic other:{}", m.replace(' ', "_")), Some(format!("circle_through_three_points panicked: {m}"))),
        Ok((x, y, r)) => {
            let mut why = None;
            if well_conditioned(p) {
                if !(x.is_finite() && y.is_finite() && r.is_finite() && r > 0.0) {
                    why = Some("circle of well separated points is not finite / positive".to_string());
                } else {
                    for i in 0..3 {
                        let d = (p[2 * i] - x).hypot(p[2 * i + 1] - y);
                        if ((d - r) / r).abs() > 1e-6 {
                            why = Some(format!("point {i} is at distance {d:e} from the centre, r = {r:e}"));
                        }
                    }
                }
            }
            (format!("ok {}", show_all(&[x, y, r])), why)
        }
    }
}

// ------------------------------------------------------------------ centre of mass

pub fn run_com(points: &[SpacePoint]) -> (String, Option<String>) {
    let pts = points.to_vec();
    match guarded(move || hook::verif_center_of_mass(&pts)) {
        Err(m) => (format!("panic other:{}", m.replace(' ', "_")), Some(format!("center_of_mass panicked: {m}"))),
        Ok(c) => {
            let mut why = None;
            if !points.is_empty() && points.iter().all(|p| p.r.value.is_finite() && p.phi.value.is_finite() && p.z.value.is_finite() && p.r.value.abs() < 1e3 && p.phi.value.abs() < 1e3 && p.z.value.abs() < 1e3) {
                // independent accumulation: pairwise (tree) summation, from the documented x = r cos(phi)
                fn tree(v: &[f64]) -> f64 {
                    if v.len() <= 2 {
                        v.iter().sum()
                    } else {
                        let (a, b) = v.split_at(v.len() / 2);
                        tree(a) + tree(b)
                    }
                }
                let n = points.len() as f64;
                let xs: Vec<f64> = points.iter().map(|p| p.r.value * p.phi.value.cos()).collect();
                let ys: Vec<f64> = points.iter().map(|p| p.r.value * p.phi.value.sin()).collect();
                let zs: Vec<f64> = points.iter().map(|p| p.z.value).collect();
                let scale = points.iter().map(|p| p.r.value.abs().max(p.z.value.abs())).fold(0.0, f64::max).max(1e-300);
                for (name, got, want) in [("x", c.x.value, tree(&xs) / n), ("y", c.y.value, tree(&ys) / n), ("z", c.z.value, tree(&zs) / n)] {
                    if !((got - want).abs() <= 1e-12 * scale) {
                        why = Some(format!("centre of mass {name} = {got:e}, independent mean = {want:e}"));
                    }
                }
            }
            (format!("ok {}", show_all(&[c.x.value, c.y.value, c.z.value])), why)
        }
    }
}

// ------------------------------------------------------------------ trackinit

/// `Track::try_from` with the recorder emptied before and read after. The answer is the recorded
/// initial simplex when the code got past the initial guess (whatever the minimiser did later),
/// otherwise the error or the panic site.
pub fn run_trackinit(points: &[SpacePoint]) -> (String, Option<String>) {
    let _ = hook::verif_take_track_simplex();
    let pts = points.to_vec();
    let n = pts.len();
    let res = guarded(move || Track::try_from(hook::cluster_from_points(pts)));
    let simplex = hook::verif_take_track_simplex();
    let finite_in = finite_points(points);
    let mut why = None;
    if let Err(m) = &res {
        if n >= 3 && finite_in {
            why = Some(format!("Track::try_from panicked on finite input: {m}"));
        }
    }
    if !simplex.is_empty() {
        let flat: Vec<f64> = simplex.iter().flatten().copied().collect();
        if simplex.len() != 7 || simplex.iter().any(|r| r.len() != 6) {
            why = Some("recorded simplex is not 7x6".to_string());
        }
        if matches!(res, Ok(Ok(_))) && flat.iter().any(|v| !v.is_finite()) {
            why = Some("non-finite entry in the initial simplex of a fit that returned Ok".to_string());
        }
        if finite_in && flat.iter().any(|v| !v.is_finite()) && why.is_none() {
            why = Some("non-finite entry in the initial simplex for finite input".to_string());
        }
        if finite_in && flat.iter().all(|v| v.is_finite()) {
            let guess = simplex[0].clone();
            let pts = points.to_vec();
            match guarded(move || hook::verif_track_cost(pts, f64::EPSILON, 20, &guess)) {
                Ok(c) if c.is_finite() => {}
                Ok(c) => why = Some(format!("cost at the initial guess is {c:e}")),
                Err(m) => why = Some(format!("cost at the initial guess panicked: {m}")),
            }
        }
        return (format!("ok {}", show_all(&flat)), why);
    }
    match res {
        Err(m) => (format!("panic {}", site_of(&m, n)), why),
        Ok(Err(_)) => ("err NoInitialParameters".to_string(), None),
        Ok(Ok(_)) => ("ok <no simplex recorded>".to_string(), Some("fit returned Ok without recording a simplex".to_string())),
    }
}

// ------------------------------------------------------------------ vertex side

pub type TrackSpec = [f64; 8]; // x0 y0 z0 r phi0 h t_inner t_outer

fn build_tracks(specs: &[TrackSpec]) -> Vec<Track> {
    specs.iter().map(|t| hook::track_from_params([t[0], t[1], t[2], t[3], t[4], t[5]], t[6], t[7])).collect()
}
fn spec_bits(specs: &[TrackSpec]) -> String {
    let mut s = String::new();
    for t in specs {
        for v in t {
            s.push(' ');
            s.push_str(&bits(*v));
        }
    }
    s
}
fn spec_of(t: &Track) -> [u64; 8] {
    let p = hook::track_params(t);
    [
        p[0].to_bits(), p[1].to_bits(), p[2].to_bits(), p[3].to_bits(), p[4].to_bits(), p[5].to_bits(),
        t.t_inner().to_bits(), t.t_outer().to_bits(),
    ]
}
/// Smallest index of a track with the same bit patterns.
fn canon_index(specs: &[TrackSpec], t: &Track) -> Option<usize> {
    let b = spec_of(t);
    specs.iter().position(|s| s.iter().map(|v| v.to_bits()).collect::<Vec<_>>() == b)
}

pub fn run_beamline(max: f64, specs: &[TrackSpec]) -> (String, Option<String>) {
    let tracks = build_tracks(specs);
    match guarded(move || hook::verif_beamline_clusters(tracks, Length::new::<meter>(max))) {
        Err(m) => {
            let s = if m.contains("Option::unwrap()") { "beamline_clusters:partial_cmp".to_string() } else { format!("other:{}", m.replace(' ', "_")) };
            (format!("panic {s}"), None)
        }
        Ok(cls) => {
            let mut why = None;
            let mut s = format!("ok {}", cls.len());
            let mut total = 0;
            for (c, z) in &cls {
                s.push_str(&format!(" {}", c.len()));
                total += c.len();
                for t in c {
                    match canon_index(specs, t) {
                        Some(i) => s.push_str(&format!(" {i}")),
                        None => {
                            s.push_str(" ?");
                            why = Some("beamline cluster holds a track that is not in the input".to_string());
                        }
                    }
                }
                s.push(' ');
                s.push_str(&show(z.value));
            }
            if total != specs.len() {
                why = Some("beamline clusters lose or duplicate tracks".to_string());
            }
            (s, why)
        }
    }
}

pub fn run_vertexinit(specs: &[TrackSpec]) -> (String, Option<String>) {
    let _ = hook::verif_take_vertex_simplex();
    let tracks = build_tracks(specs);
    let res = guarded(move || find_vertices(tracks));
    let simplex = hook::verif_take_vertex_simplex();
    let finite_in = specs.iter().all(|t| t.iter().all(|v| v.is_finite() && v.abs() <= 1e3));
    let mut why = None;
    if let Err(m) = &res {
        if finite_in {
            why = Some(format!("find_vertices panicked on finite tracks: {m}"));
        }
    }
    if !simplex.is_empty() {
        let flat: Vec<f64> = simplex.iter().flatten().copied().collect();
        if simplex.len() != 4 || simplex.iter().any(|r| r.len() != 3) {
            why = Some("recorded vertex simplex is not 4x3".to_string());
        }
        if finite_in && flat.iter().any(|v| !v.is_finite()) {
            why = Some("non-finite entry in the vertex simplex for finite tracks".to_string());
        }
        if let Ok(r) = &res {
            match &r.primary {
                None => why = Some("simplex recorded but no primary vertex".to_string()),
                Some(v) => {
                    if finite_in && flat.iter().all(|x| x.is_finite()) {
                        let guess = simplex[0].clone();
                        let ts: Vec<Track> = v.tracks.iter().map(|(t, _)| *t).collect();
                        match guarded(move || hook::verif_vertex_cost(ts, f64::EPSILON, 20, &guess)) {
                            Ok(c) if c.is_finite() => {}
                            Ok(c) => why = Some(format!("vertex cost at the initial guess is {c:e}")),
                            Err(m) => why = Some(format!("vertex cost at the initial guess panicked: {m}")),
                        }
                    }
                }
            }
        }
        return (format!("ok {}", show_all(&flat)), why);
    }
    match res {
        Err(m) => {
            let s = if m.contains("Option::unwrap()") { "unwrap_none".to_string() } else { format!("other:{}", m.replace(' ', "_")) };
            (format!("panic {s}"), why)
        }
        Ok(r) => {
            if r.primary.is_some() {
                why = Some("primary vertex without a recorded simplex".to_string());
            }
            ("ok none".to_string(), why)
        }
    }
}

/// Exact comparison, except that the implementation's `panic unwrap_none` (no location in a Rust
/// panic message) stands for either `partial_cmp(..).unwrap()` of the vertex stage.
pub fn agree(imp: &str, model: &str) -> bool {
    imp == "panic unwrap_none" && (model == "panic beamline_clusters:partial_cmp" || model == "panic find_vertices:partial_cmp")
}

// ------------------------------------------------------------------ replay

fn parse_floats(args: &[&str]) -> Option<Vec<f64>> {
    args.iter().map(|a| u64::from_str_radix(a, 16).ok().map(f64::from_bits)).collect()
}
fn to_points(f: &[f64]) -> Option<Vec<SpacePoint>> {
    if f.len() % 3 != 0 {
        return None;
    }
    Some(f.chunks(3).map(|c| sp(c[0], c[1], c[2])).collect())
}
fn to_specs(f: &[f64]) -> Option<Vec<TrackSpec>> {
    if f.len() % 8 != 0 {
        return None;
    }
    Some(f.chunks(8).map(|c| c.try_into().unwrap()).collect())
}

pub fn run_request(cmd: &str, args: &[&str]) -> Option<String> {
    match cmd {
        "template" => Some(run_template(&to_points(&parse_floats(args)?)?).0),
        "circle" => {
            let f = parse_floats(args)?;
            if f.len() != 6 {
                return None;
            }
            Some(run_circle([f[0], f[1], f[2], f[3], f[4], f[5]]).0)
        }
        "com" => Some(run_com(&to_points(&parse_floats(args)?)?).0),
        "trackinit" => {
            let f = parse_floats(args)?;
            if f.is_empty() || f[0].to_bits() != DELTA.to_bits() {
                return None;
            }
            Some(run_trackinit(&to_points(&f[1..])?).0)
        }
        "beamline" => {
            let f = parse_floats(args)?;
            if f.is_empty() {
                return None;
            }
            Some(run_beamline(f[0], &to_specs(&f[1..])?).0)
        }
        "vertexinit" => {
            let f = parse_floats(args)?;
            if f.is_empty() || f[0].to_bits() != DELTA.to_bits() {
                return None;
            }
            Some(run_vertexinit(&to_specs(&f[1..])?).0)
        }
        _ => None,
    }
}

// ------------------------------------------------------------------ generators

fn physical(rng: &mut Rng) -> (f64, f64, f64) {
    (0.05 + 0.2 * rng.f64_unit(), (rng.f64_unit() * 2.0 - 1.0) * PI, (rng.f64_unit() * 2.0 - 1.0) * 1.3)
}
fn sign(rng: &mut Rng) -> f64 {
    if rng.bool() {
        1.0
    } else {
        -1.0
    }
}
fn ulps(v: f64, k: i64) -> f64 {
    f64::from_bits((v.to_bits() as i64 + k) as u64)
}

fn random_cluster(rng: &mut Rng, max_n: u64) -> Vec<SpacePoint> {
    let n = match rng.below(4) {
        0 => 3,
        1 => rng.range(3, 8),
        2 => rng.range(3, 30),
        _ => rng.range(3, max_n),
    };
    (0..n).map(|_| { let (r, p, z) = physical(rng); sp(r, p, z) }).collect()
}

/// Points on a helix through the drift volume (circle close to the beamline), optional noise.
fn helix_cluster(rng: &mut Rng, max_n: u64) -> Vec<SpacePoint> {
    let n = rng.range(3, max_n) as usize;
    let rr = 0.08 + 2.0 * rng.f64_unit() * rng.f64_unit();
    let alpha = rng.f64_unit() * 2.0 * PI;
    let d = (rng.f64_unit() - 0.5) * 0.04;
    let (cx, cy) = ((rr + d) * alpha.cos(), (rr + d) * alpha.sin());
    let z0 = rng.f64_unit() - 0.5;
    let pitch = *rng.pick(&[0.0, 1e-3, 0.1, 1.0, 5.0, -0.1, -1.0, -5.0]);
    let noise = *rng.pick(&[0.0, 0.0, 1e-6, 1e-3]);
    let dir = sign(rng);
    let mut pts = Vec::new();
    let mut k = 0u64;
    while pts.len() < n && k < 100_000 {
        let t = dir * (k as f64) * 0.2 / rr / 400.0;
        k += 1;
        let s = alpha + PI + t;
        let (x, y) = (cx + rr * s.cos(), cy + rr * s.sin());
        let r = x.hypot(y);
        if r > 0.25 {
            break;
        }
        if r >= 0.05 && k % 5 == 0 {
            pts.push(sp_xyz(
                x + noise * (rng.f64_unit() - 0.5),
                y + noise * (rng.f64_unit() - 0.5),
                (z0 + pitch * t / (2.0 * PI)).clamp(-1.3, 1.3),
            ));
        }
    }
    while pts.len() < 3 {
        let (r, p, z) = physical(rng);
        pts.push(sp(r, p, z));
    }
    if rng.bool() {
        rng.shuffle(&mut pts);
    }
    pts
}

const PERTURB: [f64; 12] = [0.0, 0.0, 1e-18, 1e-17, 1e-16, 3e-16, 1e-15, 1e-13, 1e-10, 1e-7, 1e-4, 1e-2];

/// Exactly and nearly collinear clusters, equal points, equal radii.
fn collinear_cluster(rng: &mut Rng) -> Vec<SpacePoint> {
    let n = *rng.pick(&[3usize, 3, 3, 4, 5, 13, 20]);
    let eps = *rng.pick(&PERTURB);
    let mut pts = Vec::new();
    match rng.below(7) {
        // a ray through the beamline (same phi)
        0 => {
            let phi = *rng.pick(&[0.0, -0.0, PI / 2.0, PI, -PI / 2.0, 0.3, 1.0, -2.5]);
            for k in 0..n {
                let r = 0.05 + 0.2 * (k as f64 + rng.f64_unit()) / n as f64;
                pts.push(sp(r, phi + eps * sign(rng) * rng.f64_unit(), rng.f64_unit() - 0.5));
            }
        }
        // an arbitrary chord, perturbed across
        1 => {
            let (a, b) = (0.06 + 0.05 * rng.f64_unit(), (rng.f64_unit() - 0.5) * 0.1);
            let ang = rng.f64_unit() * PI;
            let (dx, dy) = (ang.cos(), ang.sin());
            for k in 0..n {
                let t = 0.12 * (k as f64 + 0.5 * rng.f64_unit()) / n as f64;
                let e = eps * sign(rng);
                pts.push(sp_xyz(a + t * dx - e * dy, b + t * dy + e * dx, 0.3 * t - 0.1));
            }
        }
        // dyadic chord: x, y exactly representable multiples of 2^-10 on the line y = m x + c
        // (as r, phi these are rounded again; the middle point is then nudged by a few ulps)
        2 => {
            let m = rng.range(0, 4) as f64 - 2.0;
            let c = (rng.range(0, 64) as f64 - 32.0) / 1024.0;
            for k in 0..n {
                let x = (60.0 + 12.0 * k as f64 + rng.below(8) as f64) / 1024.0;
                pts.push(sp_xyz(x, m * x + c, rng.f64_unit() - 0.5));
            }
            let j = rng.below(n as u64) as usize;
            let k = rng.range(0, 4) as i64 - 2;
            pts[j].phi.value = ulps(pts[j].phi.value, k);
        }
        // repeated points: one, two or three distinct values
        3 => {
            let kinds = rng.range(1, 3) as usize;
            let base: Vec<_> = (0..kinds).map(|_| physical(rng)).collect();
            for k in 0..n {
                let (r, p, z) = base[k % kinds];
                pts.push(sp(r, p, z));
            }
        }
        // equal radii (every |r - mid| is 0: the middle point is the first element)
        4 => {
            let r = 0.05 + 0.2 * rng.f64_unit();
            for _ in 0..n {
                let (_, p, z) = physical(rng);
                pts.push(sp(r, p, z));
            }
            if rng.bool() {
                let j = rng.below(n as u64) as usize;
                pts[j].r.value = ulps(r, rng.range(0, 2) as i64 - 1);
            }
        }
        // vertical line: same (r, phi), different z
        5 => {
            let (r, p, _) = physical(rng);
            for k in 0..n {
                pts.push(sp(r + eps * (k % 2) as f64, p, -1.0 + 2.0 * k as f64 / n as f64));
            }
        }
        // three points, two of them equal or all nearly equal
        _ => {
            let (r, p, z) = physical(rng);
            pts.push(sp(r, p, z));
            pts.push(sp(r + eps, p, z));
            pts.push(sp(r + 2.0 * eps, p + eps, z + eps));
            if rng.bool() {
                rng.shuffle(&mut pts);
            }
        }
    }
    pts
}

/// Radius ties: several points share the minimal radius, several the maximal one, several are
/// equally far from the mid radius; every point has its own (phi, z) so that the identity of the
/// selected point is visible. Positions are random, so the ties fall on both halves of the pairs
/// consumed by `minmax_impl` and on its trailing element.
fn tie_cluster(rng: &mut Rng) -> Vec<SpacePoint> {
    if rng.below(4) == 0 {
        // near ties for the middle point: two candidates at mid -+ d with arbitrary (non-dyadic)
        // radii, so that which one is closer depends on the last bit of `middle_r`
        let (a, b) = (0.05 + 0.2 * rng.f64_unit(), 0.05 + 0.2 * rng.f64_unit());
        let (lo, hi) = (a.min(b), a.max(b));
        let mid = (lo + hi) / 2.0;
        let d = (hi - lo) / 2.0 * rng.f64_unit();
        let mut pts = Vec::new();
        for r in [lo, hi, mid - d, mid + d, ulps(mid - d, rng.range(0, 2) as i64 - 1), ulps(mid + d, rng.range(0, 2) as i64 - 1)] {
            let (_, p, z) = physical(rng);
            pts.push(sp(r, p, z));
        }
        pts.truncate(rng.range(4, 6) as usize);
        rng.shuffle(&mut pts);
        return pts;
    }
    let n = rng.range(3, 12) as usize;
    let (lo, hi) = (0.0625, 0.1875);
    let mid = (lo + hi) / 2.0;
    let d = 0.015625;
    let vals = [lo, lo, hi, hi, mid - d, mid + d, mid - d, mid + d, mid, 0.09375];
    let mut pts: Vec<SpacePoint> = (0..n)
        .map(|_| {
            let (_, p, z) = physical(rng);
            sp(*rng.pick(&vals), p, z)
        })
        .collect();
    // make sure both extremes occur (so that mid is the designed one) in most cases
    if rng.below(4) != 0 {
        let i = rng.below(n as u64) as usize;
        let mut j = rng.below(n as u64) as usize;
        if j == i {
            j = (i + 1) % n;
        }
        pts[i].r.value = lo;
        pts[j].r.value = hi;
    }
    if rng.below(8) == 0 {
        // signed zeros compare equal as keys
        for p in pts.iter_mut() {
            if p.r.value == lo {
                p.r.value = if rng.bool() { 0.0 } else { -0.0 };
            }
        }
    }
    pts
}

/// NaN / infinite coordinates and too-short inputs (panic-site comparison).
fn nan_cluster(rng: &mut Rng) -> Vec<SpacePoint> {
    let n = *rng.pick(&[0usize, 1, 2, 3, 3, 4, 5, 6, 7, 13]);
    let mut pts: Vec<SpacePoint> = (0..n).map(|_| { let (r, p, z) = physical(rng); sp(r, p, z) }).collect();
    if n == 0 {
        return pts;
    }
    let bad = [f64::NAN, f64::NAN, f64::INFINITY, f64::NEG_INFINITY, f64::MAX, -f64::MAX];
    let hits = rng.range(0, 2);
    for _ in 0..hits {
        let j = rng.below(n as u64) as usize;
        let v = *rng.pick(&bad);
        match rng.below(5) {
            0 | 1 | 2 => pts[j].r.value = v,
            3 => pts[j].phi.value = v,
            _ => pts[j].z.value = v,
        }
    }
    pts
}

/// Clusters that make an entry of the initial guess exactly `0.0` or `-0.0`: the centre of mass
/// has z = 0 (symmetric z), first and last have the same z (h = ±0.0 with the sign of theta), or
/// the three template points are nearly collinear (theta == 0: the `h = 0` rule).
fn zero_entry_cluster(rng: &mut Rng) -> Vec<SpacePoint> {
    let mut pts = Vec::new();
    match rng.below(6) {
        // sliver: all points on the ray phi = 0 (x = r, y = 0 exactly) except one whose phi is
        // +-2^-k — far too small for `cos` to notice, so y = r * 2^-k exactly. The collinearity test
        // sees it, the circle has a radius of 1e10..1e25 m, and for the larger radii
        // `last - c == first - c` bit for bit: theta == 0, the `h = 0` rule.
        4 | 5 => {
            let n = rng.range(3, 7) as usize;
            let base = *rng.pick(&[0.0, -0.0]);
            for k in 0..n {
                let r = 0.05 + 0.2 * (k as f64 + rng.f64_unit()) / n as f64;
                pts.push(sp(r, base, rng.f64_unit() - 0.5));
            }
            let k = rng.range(30, 90) as i32;
            let j = rng.below(n as u64) as usize;
            pts[j].phi.value = sign(rng) * (2.0f64).powi(-k);
            if rng.below(4) == 0 {
                let z = pts[0].z.value;
                for p in pts.iter_mut() {
                    p.z.value = z;
                }
            }
            if rng.bool() {
                rng.shuffle(&mut pts);
            }
        }
        // symmetric z: z0 = +0.0
        0 => {
            let n = rng.range(2, 6) as usize;
            for _ in 0..n {
                let (r, p, _) = physical(rng);
                let z = (rng.below(64) as f64) / 64.0;
                pts.push(sp(r, p, z));
                let (r2, p2, _) = physical(rng);
                pts.push(sp(r2, p2, -z));
            }
        }
        // all z equal (possibly -0.0): first.z - last.z = 0, h = ±0.0 by the sign of theta
        1 => {
            let n = rng.range(3, 9) as usize;
            let z = *rng.pick(&[0.0, -0.0, 0.25, -1.0]);
            for _ in 0..n {
                let (r, p, _) = physical(rng);
                pts.push(sp(r, p, z));
            }
        }
        // theta == 0 by absorption: three points on a chord, the middle one a few ulps off the chord
        2 => {
            let m = rng.range(0, 4) as f64 - 2.0;
            let c = (rng.range(0, 64) as f64 - 32.0) / 1024.0;
            for k in 0..3 {
                let x = (64.0 + 40.0 * k as f64 + rng.below(16) as f64) / 1024.0;
                pts.push(sp_xyz(x, m * x + c, rng.f64_unit() - 0.5));
            }
            pts[1].phi.value = ulps(pts[1].phi.value, *rng.pick(&[-3i64, -2, -1, 1, 2, 3]));
            if rng.bool() {
                pts[1].r.value = ulps(pts[1].r.value, *rng.pick(&[-1i64, 1]));
            }
        }
        // a ray with ulp-level wobble in phi
        _ => {
            let n = rng.range(3, 6) as usize;
            let phi = (rng.f64_unit() * 2.0 - 1.0) * PI;
            for k in 0..n {
                let r = 0.05 + 0.2 * (k as f64 + rng.f64_unit()) / n as f64;
                pts.push(sp(r, ulps(phi, rng.range(0, 6) as i64 - 3), rng.f64_unit() - 0.5));
            }
        }
    }
    pts
}

/// Out of the physical domain, on purpose: radii of subnormal-square scale (1e-200..1e-150) next to
/// the beamline. Here `norm_sqr(z2 - z1)` underflows to 0 although the collinearity test passes, so
/// `circle_through_three_points` divides by zero and the guess is NaN (comparison only, no oracle).
fn underflow_cluster(rng: &mut Rng) -> Vec<SpacePoint> {
    let tiny = *rng.pick(&[1e-200, 1e-170, 1e-163, 1e-162, 1e-160, 1e-155, 1e-150]);
    let mut pts = vec![
        sp(tiny * (1.0 + rng.f64_unit()), rng.f64_unit(), rng.f64_unit() - 0.5),
        sp(*rng.pick(&[0.0, -0.0, tiny * 0.01]), rng.f64_unit(), rng.f64_unit() - 0.5),
        sp(*rng.pick(&[0.1, 0.25, tiny * 8.0, 1.0]), 1.0 + rng.f64_unit(), rng.f64_unit() - 0.5),
    ];
    if rng.bool() {
        let (r, p, z) = physical(rng);
        pts.push(sp(r * tiny, p, z));
    }
    if rng.below(3) == 0 {
        rng.shuffle(&mut pts);
    }
    pts
}

/// Does the implementation reach `theta == 0` for this cluster? Evaluated through the hooks
/// (`three_template_points`, `circle_through_three_points`) and the documented formula of
/// `angle_between_vectors`; used only to *select* inputs and for the coverage note, never to judge.
fn theta_is_zero(points: &[SpacePoint]) -> Option<bool> {
    let pts = points.to_vec();
    let (f, m, l) = guarded(move || hook::verif_three_template_points(&pts)).ok()?.ok()?;
    let (x0, y0, _) = hook::verif_circle_through_three_points(
        (f.x().value, f.y().value),
        (m.x().value, m.y().value),
        (l.x().value, l.y().value),
    );
    let v1 = (l.x().value - x0, l.y().value - y0);
    let v2 = (f.x().value - x0, f.y().value - y0);
    let dot = v1.0 * v2.0 + v1.1 * v2.1;
    let det = v1.0 * v2.1 - v1.1 * v2.0;
    Some(det.atan2(dot) == 0.0 && f.z.value != l.z.value)
}

/// Clusters for which the pitch guess takes the `theta == 0` branch (`h = 0` although
/// `first.z != last.z`): points on one ray through the beamline whose radii are short dyadic
/// numbers, one of them moved by a few ulps. The circle through them has a radius of 1e15..1e17 m
/// and, in about one case in two thousand, `last - c` and `first - c` round to the same vector.
/// The candidates are filtered with `theta_is_zero` (bounded search; falls back to the last
/// candidate).
fn theta_zero_cluster(rng: &mut Rng) -> Vec<SpacePoint> {
    let mut pts = Vec::new();
    for _ in 0..6000 {
        let phi = (rng.f64_unit() * 2.0 - 1.0) * PI;
        let n = *rng.pick(&[3usize, 3, 3, 4, 5]);
        pts = (0..n).map(|_| sp(rng.range(4, 16) as f64 / 64.0, phi, rng.f64_unit() * 2.0 - 1.0)).collect();
        let j = rng.below(n as u64) as usize;
        pts[j].r.value = ulps(pts[j].r.value, *rng.pick(&[-3i64, -2, -1, 1, 2, 3]));
        if theta_is_zero(&pts) == Some(true) {
            break;
        }
    }
    pts
}

fn circle_case(rng: &mut Rng) -> [f64; 6] {
    let mut p = [0.0; 6];
    let scale = *rng.pick(&[1.0, 1.0, 1.0, 0.25, 1e-3, 1e3, 1e-100, 1e100, 1e-160, 1e-170, 1e160]);
    match rng.below(8) {
        // random triple
        0 | 1 => {
            for v in p.iter_mut() {
                *v = (rng.f64_unit() * 2.0 - 1.0) * 0.25;
            }
        }
        // exactly collinear (dyadic)
        2 => {
            let (dx, dy) = (rng.range(0, 8) as f64 - 4.0, rng.range(0, 8) as f64 - 4.0);
            let (ax, ay) = (rng.range(0, 16) as f64 / 16.0, rng.range(0, 16) as f64 / 16.0);
            for i in 0..3 {
                let t = rng.range(0, 8) as f64 / 8.0;
                p[2 * i] = ax + t * dx;
                p[2 * i + 1] = ay + t * dy;
            }
        }
        // nearly collinear
        3 => {
            let (dx, dy) = (rng.f64_unit() - 0.5, rng.f64_unit() - 0.5);
            let e = *rng.pick(&PERTURB);
            for i in 0..3 {
                let t = rng.f64_unit();
                p[2 * i] = 0.1 + t * dx - e * dy * sign(rng);
                p[2 * i + 1] = -0.05 + t * dy + e * dx * sign(rng);
            }
        }
        // two or three equal points
        4 => {
            let a = (rng.f64_unit() - 0.5, rng.f64_unit() - 0.5);
            let b = (rng.f64_unit() - 0.5, rng.f64_unit() - 0.5);
            let pick = [[a, a, b], [a, b, a], [b, a, a], [a, a, a]];
            let c = pick[rng.below(4) as usize];
            for i in 0..3 {
                p[2 * i] = c[i].0;
                p[2 * i + 1] = c[i].1;
            }
        }
        // small integer grid, signed zeros
        5 => {
            for v in p.iter_mut() {
                *v = rng.range(0, 4) as f64 - 2.0;
                if *v == 0.0 && rng.bool() {
                    *v = -0.0;
                }
            }
        }
        // symmetric configurations: centre on an axis / at the origin (zero entries)
        6 => {
            let (a, b) = (rng.range(1, 8) as f64 / 8.0, rng.range(1, 8) as f64 / 8.0);
            let cfg = [[a, b, a, -b, -a, b], [a, b, -a, b, a, -b], [a, 0.0, 0.0, a, -a, 0.0], [0.0, a, b, 0.0, 0.0, -a]];
            p = cfg[rng.below(4) as usize];
        }
        // NaN / infinity
        _ => {
            for v in p.iter_mut() {
                *v = rng.f64_unit() - 0.5;
            }
            let j = rng.below(6) as usize;
            p[j] = *rng.pick(&[f64::NAN, f64::INFINITY, f64::NEG_INFINITY, f64::MAX]);
        }
    }
    for v in p.iter_mut() {
        *v *= scale;
    }
    p
}

fn near_beamline_track(rng: &mut Rng, zc: f64) -> TrackSpec {
    let h = *rng.pick(&[0.0, -0.0, 1e-17, 1e-3, 0.1, 1.0, 5.0, 100.0]) * sign(rng);
    let r = *rng.pick(&[0.05, 0.25, 0.5, 1.0, 3.0]) * (1.0 + 0.1 * rng.f64_unit());
    let alpha = rng.f64_unit() * 2.0 * PI - PI;
    let dca = (rng.f64_unit() - 0.5) * 0.14;
    let (x0, y0) = ((r + dca) * alpha.cos(), (r + dca) * alpha.sin());
    let delta = (rng.f64_unit() - 0.5) * 0.4;
    let phi0 = (-y0).atan2(-x0) + delta;
    let z0 = zc + h * delta / (2.0 * PI);
    let t_in = (-delta + 0.1 / r).clamp(-PI, PI);
    let t_out = (t_in + (0.005 + 0.3 * rng.f64_unit()) / r).clamp(-PI, PI);
    [x0, y0, z0, r, phi0, h, t_in, t_out]
}

fn track_set(rng: &mut Rng, with_nan: bool) -> Vec<TrackSpec> {
    let n = rng.range(0, 8) as usize;
    let mut specs: Vec<TrackSpec> = Vec::new();
    let zc = rng.f64_unit() - 0.5;
    let zc2 = zc + *rng.pick(&[0.02, 0.05, 0.2, -0.3]);
    for i in 0..n {
        let t = if i > 0 && rng.below(4) == 0 {
            *rng.pick(&specs)
        } else {
            let z = match rng.below(4) {
                0 => zc,
                1 => zc + (rng.f64_unit() - 0.5) * 0.1,
                2 => zc2,
                _ => *rng.pick(&[0.0, 0.25, -0.5]),
            };
            near_beamline_track(rng, z)
        };
        specs.push(t);
    }
    if with_nan && n > 0 {
        let j = rng.below(n as u64) as usize;
        let k = *rng.pick(&[2usize, 2, 3, 3, 5, 0, 4]);
        specs[j][k] = *rng.pick(&[f64::NAN, f64::INFINITY]);
    }
    // tracks are sent as the hook stores them (read back), so that the request is what the code sees
    build_tracks(&specs)
        .iter()
        .map(|t| {
            let b = spec_of(t);
            let mut o = [0.0; 8];
            for (k, v) in b.iter().enumerate() {
                o[k] = f64::from_bits(*v);
            }
            o
        })
        .collect()
}

pub fn generate(s: &mut Session, thorough: bool) -> bool {
    let mut rng = Rng::new(s.seed);
    let scale = if thorough { 20 } else { 1 };
    s.agree = Some(agree);

    // ---- three_template_points
    type Gen = fn(&mut Rng) -> Vec<SpacePoint>;
    let template_gens: [(&'static str, Gen, usize); 8] = [
        ("template-random", |r| random_cluster(r, 200), 1500),
        ("template-helix", |r| helix_cluster(r, 200), 1000),
        ("template-collinear", collinear_cluster, 2500),
        ("template-ties", tie_cluster, 2500),
        ("template-nan", nan_cluster, 1200),
        ("template-zero-entry", zero_entry_cluster, 600),
        ("template-underflow", underflow_cluster, 200),
        ("template-short", |r| { let n = r.below(3) as usize; (0..n).map(|_| { let (a, b, c) = physical(r); sp(a, b, c) }).collect() }, 60),
    ];
    for (name, g, count) in template_gens {
        for _ in 0..count * scale {
            let pts = g(&mut rng);
            let (imp, why) = run_template(&pts);
            s.push_oracle(name, format!("template{}", point_bits(&pts)), imp, why);
        }
    }

    // ---- circle_through_three_points
    for _ in 0..4000 * scale {
        let p = circle_case(&mut rng);
        let (imp, why) = run_circle(p);
        let req = format!("circle {}", p.iter().map(|v| bits(*v)).collect::<Vec<_>>().join(" "));
        s.push_oracle("circle", req, imp, why);
    }
    // circles through the template points of clusters (the values the fit really passes)
    for _ in 0..1500 * scale {
        let pts = if rng.bool() { helix_cluster(&mut rng, 40) } else { collinear_cluster(&mut rng) };
        let picks: Vec<&SpacePoint> = (0..3).map(|_| rng.pick(&pts)).collect();
        let mut p = [0.0; 6];
        for (i, q) in picks.iter().enumerate() {
            p[2 * i] = q.x().value;
            p[2 * i + 1] = q.y().value;
        }
        let (imp, why) = run_circle(p);
        let req = format!("circle {}", p.iter().map(|v| bits(*v)).collect::<Vec<_>>().join(" "));
        s.push_oracle("circle-of-points", req, imp, why);
    }

    // ---- center_of_mass
    for _ in 0..1500 * scale {
        let mut pts = match rng.below(4) {
            0 => random_cluster(&mut rng, 200),
            1 => helix_cluster(&mut rng, 200),
            2 => zero_entry_cluster(&mut rng),
            _ => nan_cluster(&mut rng),
        };
        if rng.below(8) == 0 {
            for p in pts.iter_mut() {
                if rng.bool() {
                    p.z.value = -0.0;
                    p.phi.value = -0.0;
                }
            }
        }
        let (imp, why) = run_com(&pts);
        s.push_oracle("com", format!("com{}", point_bits(&pts)), imp, why);
    }

    // ---- Track::try_from → recorded simplex (runs the real minimiser: fewer, smaller cases)
    let track_gens: [(&'static str, Gen, usize); 9] = [
        ("trackinit-random", |r| random_cluster(r, 24), 500),
        ("trackinit-random-large", |r| { let n = r.range(60, 200); (0..n).map(|_| { let (a, b, c) = physical(r); sp(a, b, c) }).collect() }, 12),
        ("trackinit-helix", |r| helix_cluster(r, 40), 500),
        ("trackinit-collinear", collinear_cluster, 900),
        ("trackinit-ties", tie_cluster, 500),
        ("trackinit-zero-entry", zero_entry_cluster, 700),
        ("trackinit-nan", nan_cluster, 300),
        ("trackinit-underflow", underflow_cluster, 150),
        ("trackinit-theta-zero", theta_zero_cluster, 40),
    ];
    let mut theta_zero_rule = 0usize;
    let mut h_zero_rule = 0usize;
    let mut default_rule = 0usize;
    let mut neg_zero_entry = 0usize;
    for (name, g, count) in track_gens {
        for _ in 0..count * scale {
            let pts = g(&mut rng);
            if theta_is_zero(&pts) == Some(true) {
                theta_zero_rule += 1;
            }
            let (imp, why) = run_trackinit(&pts);
            // coverage bookkeeping from the implementation's own answer
            let toks: Vec<&str> = imp.split(' ').collect();
            if toks.len() == 43 && toks[0] == "ok" {
                let v = |i: usize| u64::from_str_radix(toks[1 + i], 16).map(f64::from_bits).unwrap_or(f64::NAN);
                if v(5) == 0.0 {
                    h_zero_rule += 1;
                }
                if (0..6).any(|i| v(i) == 0.0) {
                    default_rule += 1;
                }
                if (0..6).any(|i| v(i) == 0.0 && v(i).is_sign_negative()) {
                    neg_zero_entry += 1;
                }
            }
            s.push_oracle(name, format!("trackinit {}{}", bits(DELTA), point_bits(&pts)), imp, why);
        }
    }
    s.notes.insert("trackinit_theta_zero_rule_with_dz_nonzero".into(), serde_json::json!(theta_zero_rule));
    s.notes.insert("trackinit_guess_h_zero".into(), serde_json::json!(h_zero_rule));
    s.notes.insert("trackinit_guess_with_zero_entry".into(), serde_json::json!(default_rule));
    s.notes.insert("trackinit_guess_with_negative_zero_entry".into(), serde_json::json!(neg_zero_entry));

    // ---- beamline_clusters and the vertex simplex
    for _ in 0..1500 * scale {
        let with_nan = rng.below(6) == 0;
        let specs = track_set(&mut rng, with_nan);
        let max = *rng.pick(&[0.034, 0.034, 0.0, 0.1, 10.0]);
        let (imp, why) = run_beamline(max, &specs);
        s.push_oracle("beamline", format!("beamline {}{}", bits(max), spec_bits(&specs)), imp, why);
    }
    let mut vertex_fits = 0usize;
    for _ in 0..1500 * scale {
        let with_nan = rng.below(8) == 0;
        let mut specs = track_set(&mut rng, with_nan);
        // one track set in four: some tracks with their range given the other way round (t_inner >
        // t_outer): the arc length is |t2 - t1|-based and must not depend on the direction
        if rng.below(4) == 0 {
            for t in specs.iter_mut() {
                if rng.bool() {
                    t.swap(6, 7);
                }
            }
        }
        let (imp, why) = run_vertexinit(&specs);
        if imp.starts_with("ok ") && imp != "ok none" {
            vertex_fits += 1;
        }
        s.push_oracle("vertexinit", format!("vertexinit {}{}", bits(DELTA), spec_bits(&specs)), imp, why);
    }
    s.notes.insert("vertexinit_with_simplex".into(), serde_json::json!(vertex_fits));
    let mut sites: std::collections::BTreeMap<String, usize> = Default::default();
    for c in &s.cases {
        if let Some(site) = c.imp.strip_prefix("panic ") {
            *sites.entry(format!("{} {}", c.req.split(' ').next().unwrap_or(""), site)).or_default() += 1;
        }
    }
    s.notes.insert("impl_panic_sites".into(), serde_json::json!(sites));
    s.notes.insert(
        "comparison".into(),
        serde_json::json!("exact string equality on bit patterns (NaN printed as nan); panic sites canonicalised as documented in c14b.rs"),
    );
    true
}
