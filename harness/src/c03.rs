//! C03: PWB chunk integrity (also the chunk part of C01 and the `padwing::BoardId` / `AfterId`
//! conversions). Requests: `chunk <hex>`, `crc <hex>`, `pwbboard u32|mac|name …`,
//! `afterid u8|char …`.
//!
//! Oracle (independent of the Lean model): the decoder must not panic; an accepted slice must
//! re-encode — by `encode` below, written from the documented layout with the `crc32c` crate —
//! to exactly the input, and the accessor CRCs must equal the stored words; a slice obtained
//! from an accepted chunk by a non-zero error pattern of the classes the property names
//! (1–3 bits, burst of ≤ 32 contiguous bits) must be rejected.
use crate::{guarded, hex, Rng, Session};
use alpha_g_detector::padwing::{AfterId, BoardId, Chunk, TryChunkFromSliceError as E};

pub fn err_name(e: &E) -> &'static str {
    match e {
        E::IncompleteSlice { .. } => "IncompleteSlice",
        E::UnknownDeviceId(_) => "UnknownDeviceId",
        E::UnknownChannelId(_) => "UnknownChannelId",
        E::UnknownFlags { .. } => "UnknownFlags",
        E::BadChunkLength { .. } => "BadChunkLength",
        E::ZeroMismatch { .. } => "ZeroMismatch",
        E::HeaderCRC32CMismatch { .. } => "HeaderCRC32CMismatch",
        E::PayloadCRC32CMismatch { .. } => "PayloadCRC32CMismatch",
    }
}

#[derive(Clone, Debug)]
pub struct Fields {
    pub device_id: u32,
    pub packet_sequence: u32,
    pub channel_sequence: u16,
    pub chip: u8,
    pub flags: u8,
    pub chunk_id: u16,
    pub payload: Vec<u8>,
}

/// 16-byte little-endian header with an explicit declared length.
pub fn header(f: &Fields, declared_len: u16) -> Vec<u8> {
    let mut v = Vec::with_capacity(16);
    v.extend(f.device_id.to_le_bytes());
    v.extend(f.packet_sequence.to_le_bytes());
    v.extend(f.channel_sequence.to_le_bytes());
    v.push(f.chip);
    v.push(f.flags);
    v.extend(f.chunk_id.to_le_bytes());
    v.extend(declared_len.to_le_bytes());
    v
}

/// Independent encoder from the documented layout: 16-byte LE header, `!crc32c(header)`,
/// payload padded to a multiple of 4 with zeros, `!crc32c(padded payload)`.
pub fn encode(f: &Fields) -> Vec<u8> {
    let mut v = header(f, f.payload.len() as u16);
    let hc = !crc32c::crc32c(&v);
    v.extend(hc.to_le_bytes());
    let mut p = f.payload.clone();
    while p.len() % 4 != 0 {
        p.push(0);
    }
    let pc = !crc32c::crc32c(&p);
    v.extend(&p);
    v.extend(pc.to_le_bytes());
    v
}

/// Recompute the header CRC word in place (bytes 16..20 from bytes 0..16).
fn fix_header_crc(b: &mut [u8]) {
    let hc = !crc32c::crc32c(&b[0..16]);
    b[16..20].copy_from_slice(&hc.to_le_bytes());
}

/// Recompute the payload CRC word in place (last 4 bytes from bytes 20..len-4).
fn fix_payload_crc(b: &mut [u8]) {
    let n = b.len();
    let pc = !crc32c::crc32c(&b[20..n - 4]);
    b[n - 4..].copy_from_slice(&pc.to_le_bytes());
}

const BOARDS_SAMPLE: [u32; 6] = [2281646316, 2734303468, 1820862700, 836905196, 4238289132, 114960620];

fn known_device_ids() -> Vec<u32> {
    // Every device id the real lookup accepts among "first four MAC bytes" of the names 00..99.
    let mut v = Vec::new();
    for n in 0..100 {
        let name = format!("{n:02}");
        if let Ok(b) = BoardId::try_from(name.as_str()) {
            v.push(b.device_id());
        }
    }
    v
}

fn edge(rng: &mut Rng, max: u64) -> u64 {
    match rng.below(6) {
        0 => 0,
        1 => 1,
        2 => max,
        3 => max - 1,
        4 => max / 2,
        _ => rng.below(max + 1),
    }
}

pub fn random_fields(rng: &mut Rng, ids: &[u32], payload_len: usize) -> Fields {
    let payload = match rng.below(8) {
        0 => vec![0u8; payload_len],
        1 => vec![0xFFu8; payload_len],
        _ => rng.bytes(payload_len),
    };
    Fields {
        device_id: *rng.pick(ids),
        packet_sequence: edge(rng, u32::MAX as u64) as u32,
        channel_sequence: edge(rng, 0xFFFF) as u16,
        chip: rng.below(4) as u8,
        flags: rng.below(2) as u8,
        chunk_id: edge(rng, 0xFFFF) as u16,
        payload,
    }
}

/// Canonical answer of the implementation for `chunk <hex>`, plus the oracle verdict.
/// `corrupted`: the slice is an accepted chunk xor a non-zero pattern that the property says
/// must be detected.
pub fn run_impl(bytes: &[u8], corrupted: bool) -> (String, Option<String>) {
    let res = guarded(|| {
        Chunk::try_from(bytes).map(|c| {
            (
                c.board_id().device_id(),
                c.packet_sequence(),
                c.channel_sequence(),
                c.after_id(),
                c.is_end_of_message(),
                c.chunk_id(),
                c.payload().to_vec(),
                c.header_crc32c(),
                c.payload_crc32c(),
                format!("{c}").len(),
            )
        })
    });
    match res {
        Err(msg) => (format!("panic {msg}"), Some(format!("decoder or accessor panicked: {msg}"))),
        Ok(Err(e)) => (format!("err {}", err_name(&e)), None),
        Ok(Ok((dev, ps, cs, after, eom, cid, payload, hc, pc, _))) => {
            let chip = match after {
                AfterId::A => 0u8,
                AfterId::B => 1,
                AfterId::C => 2,
                AfterId::D => 3,
            };
            let f = Fields {
                device_id: dev,
                packet_sequence: ps,
                channel_sequence: cs,
                chip,
                flags: eom as u8,
                chunk_id: cid,
                payload,
            };
            let re = encode(&f);
            let n = bytes.len();
            let mut why = None;
            if corrupted {
                why = Some("a corrupted chunk (error pattern the property says is detected) was accepted".to_string());
            } else if re != bytes {
                why = Some("re-encoding the accessors does not reproduce the input".to_string());
            } else if n < 28 || hc.to_le_bytes() != bytes[16..20] || pc.to_le_bytes() != bytes[n - 4..] {
                why = Some("header_crc32c()/payload_crc32c() differ from the stored words".to_string());
            } else if f.payload.is_empty() || f.payload.len() > 65535 {
                why = Some("accepted payload length outside 1..=65535".to_string());
            }
            (
                format!(
                    "ok {} {} {} {} {} {} {} {} {} {}",
                    f.device_id, f.packet_sequence, f.channel_sequence, f.chip, f.flags, f.chunk_id,
                    hex(&f.payload), hc, pc, hex(&re)
                ),
                why,
            )
        }
    }
}

fn board_answer<Er>(r: Result<Result<BoardId, Er>, String>) -> (String, Option<String>) {
    match r {
        Err(msg) => (format!("panic {msg}"), Some(format!("conversion panicked: {msg}"))),
        Ok(Err(_)) => ("err Unknown".to_string(), None),
        Ok(Ok(b)) => {
            let mac = b.mac_address();
            let dev = u32::from_le_bytes([mac[0], mac[1], mac[2], mac[3]]);
            let why = if dev != b.device_id() {
                Some("device id is not the first four MAC bytes (little endian)".to_string())
            } else {
                None
            };
            (format!("ok {} {} {}", b.name(), hex(&mac), b.device_id()), why)
        }
    }
}

fn after_answer<Er>(r: Result<Result<AfterId, Er>, String>) -> (String, Option<String>) {
    match r {
        Err(msg) => (format!("panic {msg}"), Some(format!("conversion panicked: {msg}"))),
        Ok(Err(_)) => ("err Unknown".to_string(), None),
        Ok(Ok(a)) => (format!("ok {a:?}"), None),
    }
}

fn run_full(cmd: &str, args: &[&str]) -> Option<(String, Option<String>)> {
    match (cmd, args) {
        ("chunk", [h]) => crate::unhex(h).map(|b| run_impl(&b, false)),
        ("crc", [h]) => crate::unhex(h).map(|b| match guarded(|| crc32c::crc32c(&b)) {
            Ok(v) => (format!("ok {v}"), None),
            Err(m) => (format!("panic {m}"), Some("crc32c panicked".to_string())),
        }),
        ("pwbboard", ["u32", n]) => n.parse::<u32>().ok().map(|n| board_answer(guarded(|| BoardId::try_from(n)))),
        ("pwbboard", ["mac", h]) => crate::unhex(h).and_then(|m| <[u8; 6]>::try_from(&m[..]).ok())
            .map(|m| board_answer(guarded(|| BoardId::try_from(m)))),
        ("pwbboard", ["name", h]) => crate::unhex(h).and_then(|m| String::from_utf8(m).ok())
            .map(|s| board_answer(guarded(|| BoardId::try_from(s.as_str())))),
        ("afterid", ["u8", n]) => n.parse::<u8>().ok().map(|n| after_answer(guarded(|| AfterId::try_from(n)))),
        ("afterid", ["char", n]) => n.parse::<u32>().ok().and_then(char::from_u32)
            .map(|c| after_answer(guarded(|| AfterId::try_from(c)))),
        _ => None,
    }
}

/// Replay entry: answer one request line of this module (`None`: not this module's command).
pub fn run_request(cmd: &str, args: &[&str]) -> Option<String> {
    run_full(cmd, args).map(|x| x.0)
}

fn add(s: &mut Session, gen: &'static str, bytes: &[u8]) {
    let (imp, why) = run_impl(bytes, false);
    s.push_oracle(gen, format!("chunk {}", hex(bytes)), imp, why);
}

/// A chunk from the valid builder (documented layout): rejection is an oracle failure too.
fn add_valid(s: &mut Session, gen: &'static str, bytes: &[u8]) {
    let (imp, mut why) = run_impl(bytes, false);
    if why.is_none() && !imp.starts_with("ok ") {
        why = Some("a chunk built from the documented layout was rejected".to_string());
    }
    s.push_oracle(gen, format!("chunk {}", hex(bytes)), imp, why);
}

/// A corrupted version of an accepted chunk: acceptance is an oracle failure.
fn add_corrupted(s: &mut Session, gen: &'static str, bytes: &[u8]) {
    let (imp, why) = run_impl(bytes, true);
    s.push_oracle(gen, format!("chunk {}", hex(bytes)), imp, why);
}

fn add_req(s: &mut Session, gen: &'static str, req: String) {
    let mut it = req.split(' ');
    let cmd = it.next().unwrap();
    let args: Vec<&str> = it.collect();
    let (imp, why) = run_full(cmd, &args).expect("well-formed request");
    s.push_oracle(gen, req, imp, why);
}

fn flip(b: &mut [u8], bit: usize) {
    b[bit / 8] ^= 1 << (bit % 8);
}

/// Xor a burst into `b`: `pattern` bit `i` goes to bit position `off + i` (bit order of the
/// CRC: byte 0 first, least significant bit first); positions past the end are dropped.
/// Returns false when nothing was flipped.
fn burst(b: &mut [u8], off: usize, pattern: u32, len: usize) -> bool {
    let mut any = false;
    for i in 0..len {
        if (pattern >> i) & 1 == 1 && off + i < b.len() * 8 {
            flip(b, off + i);
            any = true;
        }
    }
    any
}

fn burst_pattern(rng: &mut Rng, len: usize, all_ones: bool) -> u32 {
    let mask = if len == 32 { u32::MAX } else { (1u32 << len) - 1 };
    let ends = 1u32 | (1u32 << (len - 1));
    if all_ones {
        mask
    } else {
        ((rng.next() as u32) & mask) | ends
    }
}

pub fn generate(s: &mut Session, thorough: bool) -> bool {
    let mut rng = Rng::new(s.seed);
    let scale: usize = if thorough { 30 } else { 1 };
    let ids = known_device_ids();
    s.notes.insert("known_device_ids".into(), serde_json::json!(ids.len()));

    // ---- (0) CRC-32C: model LFSR against the crate
    for len in 0..=70usize {
        add_req(s, "crc-small", format!("crc {}", hex(&vec![0u8; len])));
        add_req(s, "crc-small", format!("crc {}", hex(&vec![0xFFu8; len])));
        for _ in 0..4 * scale {
            add_req(s, "crc-small", format!("crc {}", hex(&rng.bytes(len))));
        }
        // single set bit at every position of a short message
        if len > 0 && len <= 8 {
            for bit in 0..len * 8 {
                let mut m = vec![0u8; len];
                flip(&mut m, bit);
                add_req(s, "crc-small", format!("crc {}", hex(&m)));
            }
        }
    }
    for k in 0..10 * scale {
        let len = match k % 5 {
            0 => rng.range(71, 1024),
            1 => rng.range(1024, 8192),
            2 => 65536 + rng.range(0, 8),
            3 => 70 * 1024 - rng.range(0, 3),
            _ => rng.range(8192, 70 * 1024),
        } as usize;
        add_req(s, "crc-large", format!("crc {}", hex(&rng.bytes(len))));
    }

    // ---- (1) valid chunks, payload lengths stratified over 1..=65535
    let mut lens: Vec<usize> = (1..=300).collect();
    for p in 8..=16 {
        let v = 1usize << p;
        for d in [v - 1, v, v + 1] {
            if (301..=65535).contains(&d) {
                lens.push(d);
            }
        }
    }
    lens.extend([65532, 65533, 65534, 65535]);
    for _ in 0..8 * scale {
        lens.push(rng.range(301, 65535) as usize);
    }
    let mut small_valid: Vec<Vec<u8>> = Vec::new();
    let mut large_valid: Vec<Vec<u8>> = Vec::new();
    for &l in &lens {
        let f = random_fields(&mut rng, &ids, l);
        let b = encode(&f);
        add_valid(s, "valid", &b);
        if l <= 40 {
            small_valid.push(b);
        } else if l >= 1000 {
            large_valid.push(b);
        }
    }
    // every board, chip, flag, and boundary values of the counters on a short payload
    for &id in &ids {
        let l = 1 + rng.below(9) as usize;
        let mut f = random_fields(&mut rng, &ids, l);
        f.device_id = id;
        add_valid(s, "valid-fields", &encode(&f));
    }
    for ps in [0u32, 1, 0x7FFF_FFFF, 0x8000_0000, u32::MAX - 1, u32::MAX] {
        for cs in [0u16, 1, 0x7FFF, 0x8000, 0xFFFE, 0xFFFF] {
            for chip in 0..4u8 {
                for flags in 0..2u8 {
                    let l = 1 + rng.below(9) as usize;
                    let mut f = random_fields(&mut rng, &ids, l);
                    f.packet_sequence = ps;
                    f.channel_sequence = cs;
                    f.chunk_id = cs.rotate_left(3);
                    f.chip = chip;
                    f.flags = flags;
                    add_valid(s, "valid-fields", &encode(&f));
                }
            }
        }
    }

    // ---- (2) single-field substitutions, CRCs recomputed so that the field check is reached
    for k in 0..2 * scale {
        let l = [3usize, 8, 1, 6, 17, 64][k % 6];
        let f = random_fields(&mut rng, &ids, l);
        let base = encode(&f);
        // unknown / neighbouring device ids
        let mut cand: Vec<u32> = vec![0, 1, u32::MAX, u32::MAX - 1, 0x0254_0000, 0x28EC, 0xEC28];
        for &id in BOARDS_SAMPLE.iter().chain(ids.iter().take(8)) {
            cand.extend([id, id.wrapping_add(1), id.wrapping_sub(1), id ^ 0x8000_0000, id ^ 0x100, id.swap_bytes()]);
        }
        for _ in 0..20 {
            cand.push(rng.next() as u32);
        }
        for id in cand {
            let mut b = base.clone();
            b[0..4].copy_from_slice(&id.to_le_bytes());
            add(s, "device-id", &{ let mut c = b.clone(); fix_header_crc(&mut c); c });
            add(s, "device-id", &b);
        }
        for chip in 0..=255u8 {
            let mut b = base.clone();
            b[10] = chip;
            fix_header_crc(&mut b);
            add(s, "chip", &b);
        }
        for flags in 0..=255u8 {
            let mut b = base.clone();
            b[11] = flags;
            fix_header_crc(&mut b);
            add(s, "flags", &b);
        }
        // chip and flags both bad: order of the checks
        for (chip, flags) in [(4u8, 2u8), (255, 255), (4, 0), (0, 2), (3, 1), (4, 1)] {
            let mut b = base.clone();
            b[10] = chip;
            b[11] = flags;
            b[0] ^= (k as u8) & 1; // sometimes the device id is bad too
            fix_header_crc(&mut b);
            add(s, "check-order", &b);
        }
    }
    // declared length ±1..±4 and boundary values, header CRC recomputed and not
    for l in [1usize, 2, 3, 4, 5, 6, 7, 8, 9, 12, 13, 255, 256, 257, 65532, 65533, 65534, 65535] {
        let f = random_fields(&mut rng, &ids, l);
        let base = encode(&f);
        let mut decl: Vec<i64> = (-8..=8).map(|d| l as i64 + d).collect();
        decl.extend([0, 1, 0xFFFF, 0xFFFE, 0x8000, (l as i64) ^ 0x100, (l as i64) ^ 0x8000]);
        for d in decl {
            if !(0..=0xFFFF).contains(&d) {
                continue;
            }
            let mut b = base.clone();
            b[14..16].copy_from_slice(&(d as u16).to_le_bytes());
            add(s, "declared-length", &b);
            fix_header_crc(&mut b);
            add(s, "declared-length", &b);
            // the same with the uncovered bytes zeroed and the payload CRC recomputed: accepted
            // iff the declared length lies in the window
            let n = b.len();
            let from = (20 + d as usize).min(n - 4);
            for x in &mut b[from..n - 4] {
                *x = 0;
            }
            fix_payload_crc(&mut b);
            add(s, "declared-length", &b);
        }
    }
    // padding bytes non-zero (payload CRC recomputed and not)
    for l in 1..=12usize {
        let f = random_fields(&mut rng, &ids, l);
        let base = encode(&f);
        let n = base.len();
        for pos in 20 + l..n - 4 {
            for v in [1u8, 0x80, 0xFF, rng.range(1, 255) as u8] {
                let mut b = base.clone();
                b[pos] = v;
                add(s, "padding", &b);
                fix_payload_crc(&mut b);
                add(s, "padding", &b);
            }
        }
    }
    // each stored CRC word off by one bit (all 32 bits of both), by small deltas, complemented,
    // byte-swapped, swapped with each other
    for l in [1usize, 4, 7, 33, 300, 4097] {
        let f = random_fields(&mut rng, &ids, l);
        let base = encode(&f);
        let n = base.len();
        for bit in 0..32 {
            let mut b = base.clone();
            flip(&mut b[16..20], bit);
            add_corrupted(s, "crc-word", &b);
            let mut b = base.clone();
            flip(&mut b[n - 4..], bit);
            add_corrupted(s, "crc-word", &b);
        }
        for which in 0..2 {
            let at = if which == 0 { 16 } else { n - 4 };
            let w = u32::from_le_bytes(base[at..at + 4].try_into().unwrap());
            for v in [w.wrapping_add(1), w.wrapping_sub(1), !w, w.swap_bytes(), 0, u32::MAX] {
                if v == w {
                    continue;
                }
                let mut b = base.clone();
                b[at..at + 4].copy_from_slice(&v.to_le_bytes());
                add(s, "crc-word", &b);
            }
        }
        let mut b = base.clone();
        let (h, p): ([u8; 4], [u8; 4]) = (b[16..20].try_into().unwrap(), b[n - 4..].try_into().unwrap());
        if h != p {
            b[16..20].copy_from_slice(&p);
            b[n - 4..].copy_from_slice(&h);
            add(s, "crc-word", &b);
        }
    }

    // ---- (3) lengths: every truncation / extension 0..=len+8 of small chunks, zeros
    for l in [1usize, 4, 5, 10] {
        let f = random_fields(&mut rng, &ids, l);
        let base = encode(&f);
        for n in 0..=base.len() + 8 {
            let mut b = base.clone();
            b.resize(n, 0);
            add(s, "length", &b);
            // keep the trailer: drop bytes from the middle instead
            if n >= 24 && n < base.len() {
                let mut c = base[..n - 4].to_vec();
                c.extend(&base[base.len() - 4..]);
                add(s, "length", &c);
            }
        }
    }
    for n in 0..=64usize {
        add(s, "length", &vec![0u8; n]);
    }
    // lengths that equal a valid length modulo 2^8 / 2^16: zeros appended, and zeros inserted between
    // the payload and its CRC word
    for l in [1usize, 4, 10] {
        let f = random_fields(&mut rng, &ids, l);
        let base = encode(&f);
        for extra in [256usize, 65536, 2 * 65536] {
            let mut b = base.clone();
            b.resize(base.len() + extra, 0);
            add(s, "length-wrap", &b);
            let mut c = base[..base.len() - 4].to_vec();
            c.extend(std::iter::repeat(0u8).take(extra));
            c.extend(&base[base.len() - 4..]);
            add(s, "length-wrap", &c);
        }
    }
    // every slice length 20..=48 with a plausible header, a declared length in (and next to)
    // the window len-27..=len-24, zero padding and both CRC words recomputed: only lengths
    // that are multiples of 4 and >= 28 may be accepted
    for n in 20..=48usize {
        for d in (n as i64 - 29)..=(n as i64 - 23) {
            if d < 0 {
                continue;
            }
            let f = random_fields(&mut rng, &ids, 1);
            let mut b = header(&f, d as u16);
            b.extend([0u8; 4]);
            fix_header_crc(&mut b);
            if n >= 24 {
                let mut body = rng.bytes(n - 24);
                for x in body.iter_mut().skip(d as usize) {
                    *x = 0;
                }
                b.extend(&body);
                b.extend([0u8; 4]);
                fix_payload_crc(&mut b);
            } else {
                b.truncate(n);
            }
            add(s, "misaligned", &b);
        }
    }

    // ---- (4) every single-bit flip of small chunks (exhaustive), no CRC repair
    let n_small = (6 * scale).min(small_valid.len());
    for k in 0..n_small {
        // spread over the payload lengths 1..=40 (all residues mod 4)
        let base = small_valid[(k * 7) % small_valid.len()].clone();
        for bit in 0..base.len() * 8 {
            let mut b = base.clone();
            flip(&mut b, bit);
            add_corrupted(s, "flip-1", &b);
        }
    }
    // single-bit flips of large chunks: every bit of the header + header CRC, sampled elsewhere
    for k in 0..(2 * scale).min(large_valid.len()) {
        let base = large_valid[large_valid.len() - 1 - k].clone();
        let nbits = base.len() * 8;
        let mut bits: Vec<usize> = (112..160).collect(); // chunk id, declared length, header CRC
        bits.extend([160, 161, nbits - 33, nbits - 32, nbits - 1]);
        for _ in 0..20 {
            bits.push(rng.below(nbits as u64) as usize);
        }
        for bit in bits {
            let mut b = base.clone();
            flip(&mut b, bit);
            add_corrupted(s, "flip-1-large", &b);
        }
    }
    // ---- (5) sampled pairs and triples (small: many; large: few)
    for k in 0..n_small {
        let base = small_valid[(k * 11 + 3) % small_valid.len()].clone();
        let nbits = base.len() * 8;
        for _ in 0..400 {
            let i = rng.below(nbits as u64) as usize;
            let mut j = rng.below(nbits as u64) as usize;
            if j == i {
                j = (i + 1) % nbits;
            }
            let mut b = base.clone();
            flip(&mut b, i);
            flip(&mut b, j);
            add_corrupted(s, "flip-2", &b);
            let mut l = rng.below(nbits as u64) as usize;
            while l == i || l == j {
                l = (l + 1) % nbits;
            }
            flip(&mut b, l);
            add_corrupted(s, "flip-3", &b);
        }
    }
    // all pairs inside the 160-bit header region of one chunk (exhaustive: 12 720 pairs) only
    // in the thorough tier; quick: all pairs that involve the declared-length field
    {
        let base = small_valid[2 % small_valid.len()].clone();
        for i in 0..160 {
            for j in i + 1..160 {
                let touches_len = (112..128).contains(&i) || (112..128).contains(&j);
                if !(thorough || (touches_len && (i + j) % 3 == 0)) {
                    continue;
                }
                let mut b = base.clone();
                flip(&mut b, i);
                flip(&mut b, j);
                add_corrupted(s, "flip-2-header", &b);
            }
        }
    }
    for k in 0..(3 * scale).min(large_valid.len()) {
        let base = large_valid[k].clone();
        let nbits = base.len() * 8;
        for _ in 0..6 {
            let i = rng.below(nbits as u64) as usize;
            let j = (i + 1 + rng.below(nbits as u64 - 1) as usize) % nbits;
            let mut b = base.clone();
            flip(&mut b, i);
            flip(&mut b, j);
            add_corrupted(s, "flip-2-large", &b);
            let mut l = rng.below(nbits as u64) as usize;
            while l == i || l == j {
                l = (l + 1) % nbits;
            }
            flip(&mut b, l);
            add_corrupted(s, "flip-3-large", &b);
        }
    }

    // ---- (6) bursts of ≤ 32 contiguous bits: every offset × every length of small chunks
    for k in 0..(2 * scale).min(small_valid.len()) {
        // payload 1 (28 bytes, 3 padding bytes) and payload 6 (32 bytes, 2 padding bytes) first
        let idx = if k < 6 { [0usize, 5, 3, 11, 8, 14][k] } else { k };
        let base = small_valid[idx % small_valid.len()].clone();
        let nbits = base.len() * 8;
        for off in 0..nbits {
            for len in 1..=32usize {
                for ones in [true, false] {
                    if !ones && len <= 2 {
                        continue;
                    }
                    let mut b = base.clone();
                    let pat = burst_pattern(&mut rng, len, ones);
                    if burst(&mut b, off, pat, len) {
                        add_corrupted(s, "burst-small", &b);
                    }
                }
            }
        }
    }
    // bursts on large chunks: sampled offsets, all region boundaries
    for k in 0..(3 * scale).min(large_valid.len()) {
        let base = large_valid[(k * 5) % large_valid.len()].clone();
        let nbits = base.len() * 8;
        let mut offs: Vec<usize> = Vec::new();
        for centre in [112usize, 128, 160, nbits - 32] {
            for d in [0usize, 1, 7, 16, 31] {
                offs.push(centre.saturating_sub(d));
            }
        }
        for _ in 0..10 {
            offs.push(rng.below(nbits as u64) as usize);
        }
        for off in offs {
            for len in [1usize, 2, 8, 17, 31, 32] {
                let mut b = base.clone();
                let ones = rng.bool();
                let pat = burst_pattern(&mut rng, len, ones);
                if burst(&mut b, off, pat, len) {
                    add_corrupted(s, "burst-large", &b);
                }
            }
        }
    }

    // ---- (7) malformed stream: random bytes, random bytes behind a plausible header
    for _ in 0..300 * scale {
        let n = match rng.below(4) {
            0 => rng.range(0, 64) as usize,
            1 => 4 * rng.range(7, 20) as usize,
            _ => rng.range(24, 200) as usize,
        };
        let mut b = rng.bytes(n);
        if n >= 20 && rng.bool() {
            b[0..4].copy_from_slice(&rng.pick(&ids).to_le_bytes());
            b[10] &= 3;
            b[11] &= 1;
            if rng.bool() {
                let d = (n as i64 - 24 - rng.range(0, 4) as i64).max(0) as u16;
                b[14..16].copy_from_slice(&d.to_le_bytes());
            }
            if rng.bool() {
                fix_header_crc(&mut b);
            }
            if n >= 28 && rng.bool() {
                fix_payload_crc(&mut b);
            }
        }
        add(s, "random", &b);
    }

    // ---- (8) BoardId / AfterId conversions
    for &id in &ids {
        for d in [0u32, 1, u32::MAX, 0x100, 0x8000_0000] {
            add_req(s, "board-id", format!("pwbboard u32 {}", id.wrapping_add(d)));
        }
        let mac4 = id.to_le_bytes();
        for tail in [[84u8, 2], [84, 3], [85, 2], [0, 0]] {
            let mac = [mac4[0], mac4[1], mac4[2], mac4[3], tail[0], tail[1]];
            add_req(s, "board-id", format!("pwbboard mac {}", hex(&mac)));
        }
    }
    for v in [0u32, 1, u32::MAX, 0x0254_28EC] {
        add_req(s, "board-id", format!("pwbboard u32 {v}"));
    }
    for n in 0..100 {
        add_req(s, "board-id", format!("pwbboard name {}", hex(format!("{n:02}").as_bytes())));
    }
    for name in ["", "0", "000", "00 ", " 00", "é0", "0é", "日本", "\u{0}\u{0}", "A0", "0a", "١٢"] {
        add_req(s, "board-id", format!("pwbboard name {}", hex(name.as_bytes())));
    }
    for _ in 0..20 * scale {
        add_req(s, "board-id", format!("pwbboard mac {}", hex(&rng.bytes(6))));
        add_req(s, "board-id", format!("pwbboard u32 {}", rng.next() as u32));
    }
    for n in 0..=255u32 {
        add_req(s, "after-id", format!("afterid u8 {n}"));
    }
    for c in (0..300u32).chain([0x391, 0x410, 0xFF21, 0xD7FF, 0xE000, 0x10FFFF, 0x1D400]) {
        add_req(s, "after-id", format!("afterid char {c}"));
    }
    true
}
