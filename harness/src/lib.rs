//! Correspondence harness: runs the real ALPHA-g crates (linked from /repo's working tree)
//! and the Lean model driver on the same request lines and diffs the canonical answers.
//!
//! One module per property family; each pushes `Case`s into a `Session`. A case carries the
//! request line (sent verbatim to the Lean driver), the implementation's canonical answer, the
//! name of the generator that produced it and, optionally, an oracle verdict computed by the
//! harness independently of the model (e.g. "re-encoding the accessors gives the input").

use std::collections::BTreeMap;
use std::io::Write;
use std::panic::{catch_unwind, AssertUnwindSafe};
use std::process::{Command, Stdio};

pub mod midasw;
#[cfg(feature = "sim")]
pub mod sim;
#[cfg(feature = "c02")]
pub mod c02;
#[cfg(feature = "c03")]
pub mod c03;
#[cfg(feature = "c04")]
pub mod c04;
#[cfg(feature = "c05")]
pub mod c05;
#[cfg(feature = "c06")]
pub mod c06;
#[cfg(feature = "c07")]
pub mod c07;
#[cfg(feature = "c08")]
pub mod c08;
#[cfg(feature = "c09")]
pub mod c09;
#[cfg(feature = "c09b")]
pub mod c09b;
#[cfg(feature = "c10")]
pub mod c10;
#[cfg(feature = "c11")]
pub mod c11;
#[cfg(feature = "c13")]
pub mod c13;
#[cfg(feature = "c13b")]
pub mod c13b;
#[cfg(feature = "c14")]
pub mod c14;
#[cfg(feature = "c14b")]
pub mod c14b;
#[cfg(feature = "c14c")]
pub mod c14c;
#[cfg(feature = "c15")]
pub mod c15;
#[cfg(feature = "c15b")]
pub mod c15b;
#[cfg(feature = "c16")]
pub mod c16;
#[cfg(feature = "c17")]
pub mod c17;
#[cfg(feature = "c18")]
pub mod c18;
#[cfg(feature = "c19")]
pub mod c19;
#[cfg(feature = "c20")]
pub mod c20;

/// Deterministic PRNG (splitmix64); every random choice of a run derives from `VERIF_SEED`.
#[derive(Clone)]
pub struct Rng(pub u64);
impl Rng {
    pub fn new(seed: u64) -> Self {
        Rng(seed ^ 0x9E37_79B9_7F4A_7C15)
    }
    pub fn next(&mut self) -> u64 {
        self.0 = self.0.wrapping_add(0x9E37_79B9_7F4A_7C15);
        let mut z = self.0;
        z = (z ^ (z >> 30)).wrapping_mul(0xBF58_476D_1CE4_E5B9);
        z = (z ^ (z >> 27)).wrapping_mul(0x94D0_49BB_1331_11EB);
        z ^ (z >> 31)
    }
    pub fn below(&mut self, n: u64) -> u64 {
        if n == 0 {
            0
        } else {
            self.next() % n
        }
    }
    pub fn range(&mut self, lo: u64, hi_incl: u64) -> u64 {
        lo + self.below(hi_incl - lo + 1)
    }
    pub fn bool(&mut self) -> bool {
        self.next() & 1 == 1
    }
    pub fn pick<'a, T>(&mut self, xs: &'a [T]) -> &'a T {
        &xs[self.below(xs.len() as u64) as usize]
    }
    pub fn bytes(&mut self, n: usize) -> Vec<u8> {
        (0..n).map(|_| self.next() as u8).collect()
    }
    pub fn f64_unit(&mut self) -> f64 {
        (self.next() >> 11) as f64 / (1u64 << 53) as f64
    }
    pub fn shuffle<T>(&mut self, xs: &mut [T]) {
        for i in (1..xs.len()).rev() {
            let j = self.below(i as u64 + 1) as usize;
            xs.swap(i, j);
        }
    }
}

pub fn hex(b: &[u8]) -> String {
    if b.is_empty() {
        return "-".to_string();
    }
    let mut s = String::with_capacity(b.len() * 2);
    for x in b {
        s.push_str(&format!("{x:02x}"));
    }
    s
}

/// Run `f` under `catch_unwind`; `Err(msg)` carries the panic message.
pub fn guarded<T>(f: impl FnOnce() -> T) -> Result<T, String> {
    match catch_unwind(AssertUnwindSafe(f)) {
        Ok(v) => Ok(v),
        Err(e) => {
            let msg = if let Some(s) = e.downcast_ref::<&str>() {
                s.to_string()
            } else if let Some(s) = e.downcast_ref::<String>() {
                s.clone()
            } else {
                "non-string panic".to_string()
            };
            Err(msg.replace('\n', " "))
        }
    }
}

pub struct Case {
    pub req: String,
    pub imp: String,
    pub gen: &'static str,
    /// `Some(msg)`: the implementation's answer violates the property by itself (independent
    /// of the model), e.g. a panic or a failed round trip.
    pub oracle_fail: Option<String>,
}

#[derive(Default)]
pub struct Session {
    pub property: String,
    pub tier: String,
    pub seed: u64,
    pub profile: String,
    pub cases: Vec<Case>,
    pub notes: BTreeMap<String, serde_json::Value>,
    /// Optional canonicaliser applied when the two answer lines differ textually: returns true
    /// when they agree up to the tolerance the property states (never used for exact data).
    pub agree: Option<fn(&str, &str) -> bool>,
}

pub struct Disagreement {
    pub req: String,
    pub imp: String,
    pub model: String,
    pub gen: &'static str,
}

/// First token of an answer (`ok`, `err`, `panic`).
fn class(ans: &str) -> &str {
    ans.split(' ').next().unwrap_or("")
}

impl Session {
    pub fn new(property: &str, tier: &str, seed: u64) -> Self {
        Session {
            property: property.to_string(),
            tier: tier.to_string(),
            seed,
            profile: if cfg!(debug_assertions) { "dev".into() } else { "release".into() },
            ..Default::default()
        }
    }
    pub fn push(&mut self, gen: &'static str, req: String, imp: String) {
        self.cases.push(Case { req, imp, gen, oracle_fail: None });
    }
    pub fn push_oracle(&mut self, gen: &'static str, req: String, imp: String, fail: Option<String>) {
        self.cases.push(Case { req, imp, gen, oracle_fail: fail });
    }

    /// Send every request to the Lean driver (batch), return its answers.
    pub fn run_driver(&self, driver: &str) -> Vec<String> {
        let mut child = Command::new(driver)
            .stdin(Stdio::piped())
            .stdout(Stdio::piped())
            .spawn()
            .expect("cannot start the Lean driver");
        let mut stdin = child.stdin.take().unwrap();
        let reqs: Vec<String> = self.cases.iter().map(|c| c.req.clone()).collect();
        let writer = std::thread::spawn(move || {
            for r in reqs {
                let _ = stdin.write_all(r.as_bytes());
                let _ = stdin.write_all(b"\n");
            }
        });
        let out = child.wait_with_output().expect("driver failed");
        writer.join().unwrap();
        let text = String::from_utf8_lossy(&out.stdout);
        text.lines().map(|l| l.to_string()).collect()
    }

    /// Compare and write the JSON report. `strict_err`: compare error kinds too.
    /// Returns (disagreements, oracle failures).
    pub fn finish(&self, driver: &str, out_path: &str, strict_err: bool) -> (usize, usize) {
        let answers = self.run_driver(driver);
        let mut disagreements: Vec<Disagreement> = Vec::new();
        let mut err_kind_same = 0usize;
        let mut err_kind_diff = 0usize;
        let mut err_kind_diff_samples: Vec<serde_json::Value> = Vec::new();
        if answers.len() != self.cases.len() {
            disagreements.push(Disagreement {
                req: format!("<driver returned {} lines for {} requests>", answers.len(), self.cases.len()),
                imp: String::new(),
                model: String::new(),
                gen: "driver",
            });
        }
        let mut classes: BTreeMap<String, usize> = BTreeMap::new();
        let mut gens: BTreeMap<&str, usize> = BTreeMap::new();
        let mut distinct = std::collections::BTreeSet::new();
        let mut oracle_fails: Vec<&Case> = Vec::new();
        for (i, c) in self.cases.iter().enumerate() {
            *gens.entry(c.gen).or_default() += 1;
            let cls = if class(&c.imp) == "err" {
                c.imp.split(' ').take(2).collect::<Vec<_>>().join(" ")
            } else {
                class(&c.imp).to_string()
            };
            *classes.entry(cls).or_default() += 1;
            distinct.insert(c.req.as_str());
            if c.oracle_fail.is_some() {
                oracle_fails.push(c);
            }
            let Some(m) = answers.get(i) else { continue };
            if m == &c.imp || self.agree.map(|f| f(&c.imp, m)).unwrap_or(false) {
                if class(m) == "err" {
                    err_kind_same += 1;
                }
                continue;
            }
            if !strict_err && class(m) == "err" && class(&c.imp) == "err" {
                err_kind_diff += 1;
                if err_kind_diff_samples.len() < 5 {
                    err_kind_diff_samples.push(serde_json::json!({"req": c.req, "impl": c.imp, "model": m}));
                }
                continue;
            }
            disagreements.push(Disagreement { req: c.req.clone(), imp: c.imp.clone(), model: m.clone(), gen: c.gen });
        }
        let trunc = |s: &str| -> String {
            if s.len() > 400 {
                format!("{}…({} chars)", &s[..400], s.len())
            } else {
                s.to_string()
            }
        };
        let mut samples = Vec::new();
        let step = (self.cases.len() / 6).max(1);
        for (i, c) in self.cases.iter().enumerate().step_by(step).take(6) {
            samples.push(serde_json::json!({
                "gen": c.gen, "req": trunc(&c.req), "impl": trunc(&c.imp),
                "model": answers.get(i).map(|s| trunc(s)).unwrap_or_default()
            }));
        }
        let report = serde_json::json!({
            "property": self.property,
            "tier": self.tier,
            "seed": self.seed,
            "profile": self.profile,
            "cases": self.cases.len(),
            "distinct": distinct.len(),
            "generators": gens,
            "impl_outcome_classes": classes,
            "error_kind_agreement": {"same": err_kind_same, "different": err_kind_diff, "samples": err_kind_diff_samples},
            "disagreements": disagreements.iter().take(2000).map(|d| serde_json::json!({
                "gen": d.gen, "req": d.req, "impl": d.imp, "model": d.model})).collect::<Vec<_>>(),
            "n_disagreements": disagreements.len(),
            "oracle_failures": oracle_fails.iter().take(5000).map(|c| serde_json::json!({
                "gen": c.gen, "req": c.req, "impl": c.imp, "why": c.oracle_fail})).collect::<Vec<_>>(),
            "n_oracle_failures": oracle_fails.len(),
            "samples": samples,
            "notes": self.notes,
        });
        std::fs::write(out_path, serde_json::to_string_pretty(&report).unwrap()).expect("write report");
        (disagreements.len(), oracle_fails.len())
    }
}

/// Parse a hex string of the line protocol (`-` is the empty string).
pub fn unhex(s: &str) -> Option<Vec<u8>> {
    if s == "-" {
        return Some(Vec::new());
    }
    if s.len() % 2 != 0 {
        return None;
    }
    (0..s.len() / 2).map(|i| u8::from_str_radix(&s[2 * i..2 * i + 2], 16).ok()).collect()
}

/// Run one request line on the implementation (used by `corr replay`).
pub fn run_request(req: &str) -> String {
    let mut it = req.split(' ');
    let cmd = it.next().unwrap_or("");
    let args: Vec<&str> = it.collect();
    let _ = (&cmd, &args);
    let mut ans: Option<String> = None;
    #[cfg(feature = "c02")]
    {
        ans = ans.or_else(|| c02::run_request(cmd, &args));
    }
    #[cfg(feature = "c03")]
    {
        ans = ans.or_else(|| c03::run_request(cmd, &args));
    }
    #[cfg(feature = "c04")]
    {
        ans = ans.or_else(|| c04::run_request(cmd, &args));
    }
    #[cfg(feature = "c05")]
    {
        ans = ans.or_else(|| c05::run_request(cmd, &args));
    }
    #[cfg(feature = "c06")]
    {
        ans = ans.or_else(|| c06::run_request(cmd, &args));
    }
    #[cfg(feature = "c07")]
    {
        ans = ans.or_else(|| c07::run_request(cmd, &args));
    }
    #[cfg(feature = "c08")]
    {
        ans = ans.or_else(|| c08::run_request(cmd, &args));
    }
    #[cfg(feature = "c09")]
    {
        ans = ans.or_else(|| c09::run_request(cmd, &args));
    }
    #[cfg(feature = "c09b")]
    {
        ans = ans.or_else(|| c09b::run_request(cmd, &args));
    }
    #[cfg(feature = "c10")]
    {
        ans = ans.or_else(|| c10::run_request(cmd, &args));
    }
    #[cfg(feature = "c11")]
    {
        ans = ans.or_else(|| c11::run_request(cmd, &args));
    }
    #[cfg(feature = "c13")]
    {
        ans = ans.or_else(|| c13::run_request(cmd, &args));
    }
    #[cfg(feature = "c13b")]
    {
        ans = ans.or_else(|| c13b::run_request(cmd, &args));
    }
    #[cfg(feature = "c14")]
    {
        ans = ans.or_else(|| c14::run_request(cmd, &args));
    }
    #[cfg(feature = "c14b")]
    {
        ans = ans.or_else(|| c14b::run_request(cmd, &args));
    }
    #[cfg(feature = "c14c")]
    {
        ans = ans.or_else(|| c14c::run_request(cmd, &args));
    }
    #[cfg(feature = "c15")]
    {
        ans = ans.or_else(|| c15::run_request(cmd, &args));
    }
    #[cfg(feature = "c15b")]
    {
        ans = ans.or_else(|| c15b::run_request(cmd, &args));
    }
    #[cfg(feature = "c16")]
    {
        ans = ans.or_else(|| c16::run_request(cmd, &args));
    }
    #[cfg(feature = "c17")]
    {
        ans = ans.or_else(|| c17::run_request(cmd, &args));
    }
    #[cfg(feature = "c18")]
    {
        ans = ans.or_else(|| c18::run_request(cmd, &args));
    }
    #[cfg(feature = "c19")]
    {
        ans = ans.or_else(|| c19::run_request(cmd, &args));
    }
    #[cfg(feature = "c20")]
    {
        ans = ans.or_else(|| c20::run_request(cmd, &args));
    }
    ans.unwrap_or_else(|| "unsupported-request".to_string())
}

/// Install a silent panic hook (panics are expected and caught per case).
pub fn quiet_panics() {
    std::panic::set_hook(Box::new(|_| {}));
}
