//! Minimal MIDAS file writer (format read from midasio 0.5.3: little-endian, 32-bit banks) and
//! a runner for the real analysis binaries built from /repo.
use std::io::Write;
use std::path::{Path, PathBuf};
use std::process::Command;

#[derive(Clone, Debug)]
pub struct Bank {
    pub name: String,
    pub data: Vec<u8>,
}

#[derive(Clone, Debug)]
pub struct Event {
    pub id: u16,
    pub serial: u32,
    pub ts: u32,
    pub banks: Vec<Bank>,
}

pub fn event_bytes(e: &Event) -> Vec<u8> {
    let mut banks = Vec::new();
    for b in &e.banks {
        assert!(b.name.len() == 4 && b.name.bytes().all(|c| c.is_ascii_alphanumeric()));
        banks.extend(b.name.as_bytes());
        banks.extend(1u32.to_le_bytes()); // data type 1 = u8
        banks.extend((b.data.len() as u32).to_le_bytes());
        banks.extend(&b.data);
        let pad = (8 - b.data.len() % 8) % 8;
        banks.extend(std::iter::repeat(0u8).take(pad));
    }
    let mut v = Vec::new();
    v.extend(e.id.to_le_bytes());
    v.extend(0u16.to_le_bytes()); // trigger mask
    v.extend(e.serial.to_le_bytes());
    v.extend(e.ts.to_le_bytes());
    v.extend((banks.len() as u32 + 8).to_le_bytes());
    v.extend((banks.len() as u32).to_le_bytes());
    v.extend(17u32.to_le_bytes()); // flags: 32-bit banks
    v.extend(banks);
    v
}

pub fn file_bytes(run: u32, t0: u32, t1: u32, events: &[Event]) -> Vec<u8> {
    let mut v = Vec::new();
    v.extend(0x8000u16.to_le_bytes());
    v.extend(0x494Du16.to_le_bytes());
    v.extend(run.to_le_bytes());
    v.extend(t0.to_le_bytes());
    let odb = b"{}";
    v.extend((odb.len() as u32).to_le_bytes());
    v.extend(odb);
    for e in events {
        v.extend(event_bytes(e));
    }
    v.extend(0x8001u16.to_le_bytes());
    v.extend(0x494Du16.to_le_bytes());
    v.extend(run.to_le_bytes());
    v.extend(t1.to_le_bytes());
    v.extend((odb.len() as u32).to_le_bytes());
    v.extend(odb);
    v
}

/// Write `bytes` to `path`; a name ending in `.lz4` is compressed with the lz4 frame format.
pub fn write_midas(path: &Path, bytes: &[u8]) {
    if path.extension().map(|e| e == "lz4").unwrap_or(false) {
        let f = std::fs::File::create(path).expect("create");
        let mut enc = lz4::EncoderBuilder::new().build(f).expect("lz4 encoder");
        enc.write_all(bytes).expect("lz4 write");
        let (_f, res) = enc.finish();
        res.expect("lz4 finish");
    } else {
        std::fs::write(path, bytes).expect("write");
    }
}

/// Directory with the analysis binaries built from /repo (`VERIF_REPO_BIN`, set by ./check).
pub fn bin_dir() -> PathBuf {
    PathBuf::from(std::env::var("VERIF_REPO_BIN").unwrap_or_else(|_| "/verif/.cache/target_repo/release".into()))
}

pub struct RunResult {
    pub status_ok: bool,
    pub stderr: String,
    /// CSV content (None when the program did not create the file).
    pub csv: Option<String>,
}

/// Run an analysis binary on `files` with `--output out`, `threads` = RAYON_NUM_THREADS.
pub fn run_binary(name: &str, files: &[PathBuf], out: &Path, threads: usize) -> RunResult {
    let _ = std::fs::remove_file(out.with_extension("csv"));
    let mut cmd = Command::new(bin_dir().join(name));
    cmd.arg("--output").arg(out);
    for f in files {
        cmd.arg(f);
    }
    cmd.env("RAYON_NUM_THREADS", threads.to_string());
    let o = cmd.output().unwrap_or_else(|e| panic!("cannot run {name}: {e}"));
    let csv_path = out.with_extension("csv");
    RunResult {
        status_ok: o.status.success(),
        stderr: String::from_utf8_lossy(&o.stderr).replace('\n', " | "),
        csv: std::fs::read_to_string(csv_path).ok(),
    }
}

/// Data rows of a CSV written by the binaries: skip `#` comment lines and the header line.
pub fn csv_rows(csv: &str) -> Vec<Vec<String>> {
    csv.lines()
        .filter(|l| !l.starts_with('#'))
        .skip(1)
        .map(|l| l.split(',').map(|s| s.to_string()).collect())
        .collect()
}

pub fn scratch_dir(tag: &str) -> PathBuf {
    let d = PathBuf::from(format!("/verif/.cache/tmp/{tag}-{}", std::process::id()));
    let _ = std::fs::remove_dir_all(&d);
    std::fs::create_dir_all(&d).expect("scratch dir");
    d
}
