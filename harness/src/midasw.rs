//! Minimal MIDAS file writer (format read from midasio 0.5.3: either byte order, 32-bit banks) and
//! a runner for the real analysis binaries built from /repo.
use std::io::Write;
use std::path::{Path, PathBuf};
use std::process::Command;

#[derive(Clone, Debug)]
pub struct Bank {
    pub name: String,
    pub data: Vec<u8>,
}

#[derive(Clone, Debug)]
pub struct Event {
    pub id: u16,
    pub serial: u32,
    pub ts: u32,
    pub banks: Vec<Bank>,
}

fn w16(v: &mut Vec<u8>, x: u16, big: bool) {
    v.extend(if big { x.to_be_bytes() } else { x.to_le_bytes() });
}
fn w32(v: &mut Vec<u8>, x: u32, big: bool) {
    v.extend(if big { x.to_be_bytes() } else { x.to_le_bytes() });
}

pub fn event_bytes(e: &Event) -> Vec<u8> {
    event_bytes_endian(e, false)
}

/// One event; `big` selects the byte order of every header field (bank payloads are bytes).
pub fn event_bytes_endian(e: &Event, big: bool) -> Vec<u8> {
    let mut banks = Vec::new();
    for b in &e.banks {
        assert!(b.name.len() == 4 && b.name.bytes().all(|c| c.is_ascii_alphanumeric()));
        banks.extend(b.name.as_bytes());
        w32(&mut banks, 1, big); // data type 1 = u8
        w32(&mut banks, b.data.len() as u32, big);
        banks.extend(&b.data);
        let pad = (8 - b.data.len() % 8) % 8;
        banks.extend(std::iter::repeat(0u8).take(pad));
    }
    let mut v = Vec::new();
    w16(&mut v, e.id, big);
    w16(&mut v, 0, big); // trigger mask
    w32(&mut v, e.serial, big);
    w32(&mut v, e.ts, big);
    w32(&mut v, banks.len() as u32 + 8, big);
    w32(&mut v, banks.len() as u32, big);
    w32(&mut v, 17, big); // flags: 32-bit banks
    v.extend(banks);
    v
}

pub fn file_bytes(run: u32, t0: u32, t1: u32, events: &[Event]) -> Vec<u8> {
    file_bytes_endian(run, t0, t1, events, false)
}

/// A whole file; `big` = big-endian file (midasio reads the byte order from the begin-of-run marker).
pub fn file_bytes_endian(run: u32, t0: u32, t1: u32, events: &[Event], big: bool) -> Vec<u8> {
    let mut v = Vec::new();
    w16(&mut v, 0x8000, big);
    w16(&mut v, 0x494D, big);
    w32(&mut v, run, big);
    w32(&mut v, t0, big);
    let odb = b"{}";
    w32(&mut v, odb.len() as u32, big);
    v.extend(odb);
    for e in events {
        v.extend(event_bytes_endian(e, big));
    }
    w16(&mut v, 0x8001, big);
    w16(&mut v, 0x494D, big);
    w32(&mut v, run, big);
    w32(&mut v, t1, big);
    w32(&mut v, odb.len() as u32, big);
    v.extend(odb);
    v
}

/// Write `bytes` to `path`; a name ending in `.lz4` is compressed with the lz4 frame format.
pub fn write_midas(path: &Path, bytes: &[u8]) {
    if path.extension().map(|e| e == "lz4").unwrap_or(false) {
        let f = std::fs::File::create(path).expect("create");
        let mut enc = lz4::EncoderBuilder::new().build(f).expect("lz4 encoder");
        enc.write_all(bytes).expect("lz4 write");
        let (_f, res) = enc.finish();
        res.expect("lz4 finish");
    } else {
        std::fs::write(path, bytes).expect("write");
    }
}

/// Directory with the analysis binaries built from /repo (`VERIF_REPO_BIN`, set by ./check).
pub fn bin_dir() -> PathBuf {
    PathBuf::from(std::env::var("VERIF_REPO_BIN").unwrap_or_else(|_| "/verif/.cache/target_repo/release".into()))
}

pub struct RunResult {
    pub status_ok: bool,
    pub stderr: String,
    /// CSV content (None when the program did not create the file).
    pub csv: Option<String>,
}

/// Run an analysis binary on `files` with `--output out`, `threads` = RAYON_NUM_THREADS.
pub fn run_binary(name: &str, files: &[PathBuf], out: &Path, threads: usize) -> RunResult {
    let _ = std::fs::remove_file(out.with_extension("csv"));
    let mut cmd = Command::new(bin_dir().join(name));
    cmd.arg("--output").arg(out);
    for f in files {
        cmd.arg(f);
    }
    cmd.env("RAYON_NUM_THREADS", threads.to_string());
    let o = cmd.output().unwrap_or_else(|e| panic!("cannot run {name}: {e}"));
    let csv_path = out.with_extension("csv");
    RunResult {
        status_ok: o.status.success(),
        stderr: String::from_utf8_lossy(&o.stderr).replace('\n', " | "),
        csv: std::fs::read_to_string(csv_path).ok(),
    }
}

/// Data rows of a CSV written by the binaries: skip `#` comment lines and the header line.
pub fn csv_rows(csv: &str) -> Vec<Vec<String>> {
    csv.lines()
        .filter(|l| !l.starts_with('#'))
        .skip(1)
        .map(|l| l.split(',').map(|s| s.to_string()).collect())
        .collect()
}

pub fn scratch_dir(tag: &str) -> PathBuf {
    let d = PathBuf::from(format!("/verif/.cache/tmp/{tag}-{}", std::process::id()));
    let _ = std::fs::remove_dir_all(&d);
    std::fs::create_dir_all(&d).expect("scratch dir");
    d
}
