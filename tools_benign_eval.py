#!/usr/bin/env python3
"""False-alarm test: run checks against a behaviour-preserving refactoring of /repo (delivered by an
agent that saw nothing of /verif) in seed-evaluation mode and store the result under
/verif/benign/<name>/.  A VIOLATION here is a false alarm of the machinery.
Usage: tools_benign_eval.py <dir with benign<i>.diff/json> <i> <check ids...>"""
import json, os, shutil, subprocess, sys
src, i, checks = sys.argv[1], sys.argv[2], sys.argv[3:]
tag = os.path.basename(src.rstrip("/")).replace("-out", "")
dst = f"/verif/benign/{tag}-{i}"
os.makedirs(dst, exist_ok=True)
shutil.copy(f"{src}/benign{i}.diff", f"{dst}/patch.diff")
meta = json.load(open(f"{src}/benign{i}.json"))
if os.path.exists(f"{dst}/meta.json"):
    prev = json.load(open(f"{dst}/meta.json"))
    if prev.get("checks_run") and any(r["violation"] for r in prev["checks_run"].values()):
        meta["first_evaluation"] = prev.get("first_evaluation") or prev["checks_run"]
res = {}
for c in checks:
    p = subprocess.run(f"/verif/tools_seed_eval.sh {dst}/patch.diff {c}", shell=True, stdout=subprocess.PIPE,
                       stderr=subprocess.STDOUT, text=True)
    lines = p.stdout.splitlines()
    v = [l for l in lines if l.startswith("VIOLATION")]
    res[c] = {"violation": bool(v), "lines": [l[:300] for l in lines if "problem [" in l or "VIOLATION" in l][:6],
              "summary": [l for l in lines if l.startswith("[check] C")][-1:]}
    print(tag, i, c, "FALSE ALARM" if v else "quiet", flush=True)
meta["checks_run"] = res
meta["false_alarms"] = [c for c, r in res.items() if r["violation"]]
json.dump(meta, open(f"{dst}/meta.json", "w"), indent=1)
