#!/bin/bash
# Confirm a seeded change whose demonstration is a script driving the analysis binaries.
#   ./tools_seed_confirm_bin.sh <patch.diff> '<demo command using $BIN_DIR and $SRC>'
set -u
patch="$1"; demo="$2"
wt=/tmp/confirm-wt-$$
export CARGO_TARGET_DIR=/tmp/confirm-target
export CARGO_NET_OFFLINE=true
git -C /repo worktree add -q --detach "$wt" HEAD || exit 2
export SRC="$wt" BIN_DIR="$CARGO_TARGET_DIR/release" CHRONOBOX_BIN="$CARGO_TARGET_DIR/release/alpha-g-chronobox-timestamps"
( cd "$wt" && cargo build --release --offline -p alpha-g-analysis >/tmp/confirm-b1.log 2>&1 ) || echo "BUILD FAILED (HEAD)"
( cd "$wt" && eval "$demo" >/tmp/confirm-1.log 2>&1 ); echo "demo on HEAD: rc=$? (expect 0)"
( cd "$wt" && git apply "$patch" ) || echo "PATCH DOES NOT APPLY"
( cd "$wt" && cargo build --release --offline -p alpha-g-analysis >/tmp/confirm-b2.log 2>&1 ) || echo "BUILD FAILED (change)"
( cd "$wt" && eval "$demo" >/tmp/confirm-2.log 2>&1 ); echo "demo with change: rc=$? (expect non-zero)"
( cd "$wt" && cargo test --workspace --offline >/tmp/confirm-3.log 2>&1 ); echo "existing tests with change: rc=$? (expect 0)"; grep -E "^test result" /tmp/confirm-3.log | awk '{p+=$4; f+=$6} END {print "passed="p" failed="f}'
git -C /repo worktree remove --force "$wt"
