import AlphaG.Model.Maps
/-
Documented run-number history of the detector configuration — written BY HAND from the
documentation of /repo (never regenerated), as the independent specification of every
`match run_number { … }` dispatch the generated model follows:

* anode-wire preamp map: "Run 2941+ (including 2941)"                (detector/src/alpha16/aw_map.rs)
* anode-wire channel map: "Revision 1.1 was implemented in run 2724" (detector/src/alpha16/aw_map.rs)
* PadWing board layout: first layout from run 4418 (table `PADWING_BOARDS_4418`); "Updated PWB
  mapping to include boards swapped from run 10418 onwards"          (detector/CHANGELOG.md)
* wire baseline: data file `7026_complete.json`, valid from run 7026
* wire gain: `9277_complete.json` from run 9277; `11186_complete.json`: "This calibration was
  done at 11186. But the detector was in this condition since 11084 when it was turned on."
* pad baseline: `9277_complete_handwritten_cherry_picked_see_commit.ron` from 9277;
  `11192_complete.ron` "since it was turned on in run 11084"
* pad gain: `9277_complete.ron` from 9277; `11186_complete.ron` "since run 11084"
* delays: 129 (wires) / 115 (pads) samples from run 7000; simulation 100
* the simulation (run number `u32::MAX`) uses the `simulation_complete.*` files, the 2941 preamp
  map, the 2724 channel map and the first PadWing layout.

History is immutable: the statements `Props/RunHistory.lean` proves are for run numbers up to
`horizon` (the last run number this documentation speaks about) and for the simulation; later
runs are left free, so that a calibration added for future runs does not contradict the record.
Core Lean only.
-/
namespace AlphaG.Spec
open AlphaG.Generated AlphaG.Maps

/-- What a dispatch selects, in documentation terms. -/
inductive Sel where
  | err
  /-- calibration data file (file name under physics/data/calibration/…) -/
  | file (name : String)
  /-- a literal (delay in samples) -/
  | value (n : Nat)
  /-- the k-th distinct table of a map family, numbered in order of first validity -/
  | layout (k : Nat)
deriving Repr, DecidableEq

/-- A record: what the simulation uses, and `(first run, selection)` steps in ascending order;
before the first step the lookup is an error. -/
structure History where
  sim : Sel
  steps : List (Nat × Sel)

def simulationRun : Nat := 4294967295

/-- Selection the record prescribes for a run number. -/
def History.at (h : History) (run : Nat) : Sel :=
  if run = simulationRun then h.sim
  else h.steps.foldl (fun acc s => if s.1 ≤ run then s.2 else acc) .err

/-- Last run number the documentation above speaks about. -/
def horizon : Nat := 11192

def wirePreamp : History := ⟨.layout 0, [(2941, .layout 0)]⟩
def wireChannel : History := ⟨.layout 0, [(2724, .layout 0)]⟩
def pwbLayout : History := ⟨.layout 0, [(4418, .layout 0), (10418, .layout 1)]⟩
def wireBaseline : History := ⟨.file "simulation_complete.json", [(7026, .file "7026_complete.json")]⟩
def wireGain : History :=
  ⟨.file "simulation_complete.json", [(9277, .file "9277_complete.json"), (11084, .file "11186_complete.json")]⟩
def wireDelay : History := ⟨.value 100, [(7000, .value 129)]⟩
def padBaseline : History :=
  ⟨.file "simulation_complete.ron",
   [(9277, .file "9277_complete_handwritten_cherry_picked_see_commit.ron"), (11084, .file "11192_complete.ron")]⟩
def padGain : History :=
  ⟨.file "simulation_complete.ron", [(9277, .file "9277_complete.ron"), (11084, .file "11186_complete.ron")]⟩
def padDelay : History := ⟨.value 100, [(7000, .value 115)]⟩

/-! ### What the generated dispatch selects, in the same terms -/

/-- Calibration dispatch: `.table i` is the data file of the i-th lazy static. -/
def resolveCal (maps : List (String × String)) : Option ArmRhs → Sel
  | some (.table i) => match maps[i]? with
    | some m => .file m.2
    | none => .err
  | some (.value n) => .value n
  | _ => .err

/-- Map dispatch: tables are identified by CONTENT, numbered by their first occurrence in
`contents` (so renaming or reordering consts is immaterial). -/
def resolveMap {τ : Type} [BEq τ] (tables : List (String × τ)) (contents : List τ) : Option ArmRhs → Sel
  | some (.table i) => match tables[i]? with
    | some t => match contents.findIdx? (· == t.2) with
      | some k => .layout k
      | none => .err
    | none => .err
  | _ => .err

/-- Distinct table contents of a family in order of first validity along the record's steps. -/
def contentsAlong {τ : Type} [BEq τ] (tables : List (String × τ)) (arms : Arms) (h : History) : List τ :=
  (h.steps.filterMap (fun s => match dispatch arms s.1 with
    | some (.table i) => tables[i]?.map (·.2)
    | _ => none)).eraseDups

def genCal (arms : Arms) (maps : List (String × String)) (run : Nat) : Sel :=
  resolveCal maps (dispatch arms run)

def genMap {τ : Type} [BEq τ] (tables : List (String × τ)) (arms : Arms) (h : History) (run : Nat) : Sel :=
  resolveMap tables (contentsAlong tables arms h) (dispatch arms run)

/-! ### The documented board swap of run 10418 (detector/CHANGELOG.md, release 0.5.1)

"Updated PWB mapping to include boards swapped from run 10418 onwards": (column, row, old board,
new board). -/
def pwbSwaps10418 : List (Nat × Nat × String × String) := [
  (2, 0, "46", "90"), (2, 3, "77", "85"), (4, 0, "44", "89"), (4, 3, "78", "87"),
  (4, 6, "45", "84"), (4, 7, "15", "91"), (5, 7, "05", "81"), (6, 2, "06", "44")]

/-- The layout table (`table[column][row]` = board name) a run number selects. -/
def layoutAt (run : Nat) : Option (List (List String)) :=
  match dispatch pwbArms run with
  | some (.table i) => pwbTables[i]?.map (·.2)
  | _ => none

/-- `old` with the documented replacements applied; `none` if a position does not hold the
documented old board. -/
def applySwaps (old : List (List String)) (swaps : List (Nat × Nat × String × String)) :
    Option (List (List String)) :=
  swaps.foldl (fun acc sw => match acc with
    | none => none
    | some t => match t[sw.1]? with
      | none => none
      | some col => if col[sw.2.1]? = some sw.2.2.1 then some (t.set sw.1 (col.set sw.2.1 sw.2.2.2)) else none)
    (some old)

end AlphaG.Spec
