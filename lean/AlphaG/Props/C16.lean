import AlphaG.Model.Helix
import Mathlib.Analysis.SpecialFunctions.Complex.Arg
import Mathlib.Analysis.SpecialFunctions.Trigonometric.Deriv
/-
C16 — reported track parameters are true closest-approach parameters.

What is proved here (model of `Helix::closest_t`, see Model/Helix.lean):
* `closest_t_range`: for *any* carrier with a linear order and an `atan2` with range [−π, π], the
  returned `t` lies in [−π, π] — whatever the Newton loop does (any pitch, any iteration count).
* over ℝ (`realOps`, exact arithmetic): `circle_case_optimal` — for pitch `h = 0` the returned `t`
  minimises the distance over *all* `t` (in particular over the revolution [−π, π]).
What is NOT proved (stated in DESIGN.md, C16 (c)): that for `h ≠ 0` the root reached by ≤ 20
Newton steps in `f64` is the global minimiser when it lies strictly inside (−π, π). That half is
decided on the implementation by the harness oracle (dense grid + refinement), i.e. by search.
-/
namespace AlphaG.Helix

/-! ### Range of the result, for any carrier -/

section Range
variable {α : Type} [LinearOrder α] (o : HOps α)

theorem clamp_range (hlt : ∀ a b, o.lt a b = decide (a < b)) (x lo hi : α) (h : lo ≤ hi) :
    lo ≤ clamp o x lo hi ∧ clamp o x lo hi ≤ hi := by
  unfold clamp
  simp only [hlt, decide_eq_true_eq]
  split
  · exact ⟨le_refl _, h⟩
  · split
    · exact ⟨h, le_refl _⟩
    · rename_i h1 h2
      exact ⟨not_lt.1 h1, not_lt.1 h2⟩

/-- **Range.** `closest_t` always returns a value in [−π, π]: zero, subnormal, tiny or huge pitch,
any number of Newton iterations, any tolerance. (For `f64` this is the statement for non-NaN
results; a NaN would pass through `clamp`. NaN-freedom is sampled by the harness.) -/
theorem closest_t_range (hlt : ∀ a b, o.lt a b = decide (a < b)) (hpi : o.neg o.pi ≤ o.pi)
    (hatan : ∀ y x, o.neg o.pi ≤ o.atan2 y x ∧ o.atan2 y x ≤ o.pi)
    (q : Params α) (p : Point α) (tol : α) (n : Nat) :
    o.neg o.pi ≤ closestT o q p tol n ∧ closestT o q p tol n ≤ o.pi := by
  unfold closestT
  split
  · exact hatan _ _
  · exact clamp_range o hlt _ _ _ hpi

end Range

/-! ### Exact arithmetic over ℝ -/

/-- The real-number interpretation of the operations (`atan2 y x = arg (x + iy)`). -/
noncomputable def realOps : HOps ℝ where
  add := (· + ·)
  sub := (· - ·)
  mul := (· * ·)
  div := (· / ·)
  neg := fun x => -x
  abs := fun x => |x|
  lt := fun a b => decide (a < b)
  sin := Real.sin
  cos := Real.cos
  atan2 := fun y x => Complex.arg ⟨x, y⟩
  hypot := fun x y => Real.sqrt (x ^ 2 + y ^ 2)
  floor := fun x => (⌊x⌋ : ℝ)
  zero := 0
  one := 1
  two := 2
  four := 4
  pi := Real.pi
  eps := 2 ^ (-52 : ℤ)

/-- Squared distance between the helix point at parameter `t` and the point `p`. -/
noncomputable def distSq (q : Params ℝ) (p : Point ℝ) (t : ℝ) : ℝ :=
  ((helixAt realOps q t).1 - px realOps p) ^ 2 + ((helixAt realOps q t).2.1 - py realOps p) ^ 2
    + ((helixAt realOps q t).2.2 - p.z) ^ 2

/-- The real instance satisfies the hypotheses of `closest_t_range`. -/
theorem closest_t_range_real (q : Params ℝ) (p : Point ℝ) (tol : ℝ) (n : Nat) :
    -Real.pi ≤ closestT realOps q p tol n ∧ closestT realOps q p tol n ≤ Real.pi := by
  have := closest_t_range realOps (fun _ _ => rfl)
    (show -Real.pi ≤ Real.pi by linarith [Real.pi_pos])
    (fun y x => ⟨le_of_lt (Complex.neg_pi_lt_arg _), Complex.arg_le_pi _⟩) q p tol n
  exact this

theorem lincomb_le_abs (c d t : ℝ) :
    c * Real.cos t + d * Real.sin t ≤ Real.sqrt (c ^ 2 + d ^ 2) := by
  have h1 : (c * Real.cos t + d * Real.sin t) ^ 2 ≤ c ^ 2 + d ^ 2 := by
    have := Real.sin_sq_add_cos_sq t
    nlinarith [sq_nonneg (c * Real.sin t - d * Real.cos t)]
  calc c * Real.cos t + d * Real.sin t ≤ |c * Real.cos t + d * Real.sin t| := le_abs_self _
    _ = Real.sqrt ((c * Real.cos t + d * Real.sin t) ^ 2) := (Real.sqrt_sq_eq_abs _).symm
    _ ≤ Real.sqrt (c ^ 2 + d ^ 2) := Real.sqrt_le_sqrt h1

theorem lincomb_at_arg (c d : ℝ) :
    c * Real.cos (Complex.arg ⟨c, d⟩) + d * Real.sin (Complex.arg ⟨c, d⟩)
      = Real.sqrt (c ^ 2 + d ^ 2) := by
  by_cases hw : (⟨c, d⟩ : ℂ) = 0
  · have hc : c = 0 := by simpa using congrArg Complex.re hw
    have hd : d = 0 := by simpa using congrArg Complex.im hw
    subst hc hd; simp
  · have hn : ‖(⟨c, d⟩ : ℂ)‖ = Real.sqrt (c ^ 2 + d ^ 2) := by
      rw [Complex.norm_def, Complex.normSq_mk]; congr 1; ring
    have hpos : 0 < Real.sqrt (c ^ 2 + d ^ 2) := by
      rw [← hn]; exact norm_pos_iff.2 hw
    rw [Complex.cos_arg hw, Complex.sin_arg, hn]
    simp only
    field_simp
    rw [Real.sq_sqrt (by positivity)]

/-- **Circle case.** For pitch exactly 0 the value returned by `closest_t` minimises the
distance to the point over every parameter `t` (for any radius, centre, phase and point). -/
theorem circle_case_optimal (q : Params ℝ) (p : Point ℝ) (tol : ℝ) (n : Nat) (h0 : q.h = 0)
    (t : ℝ) : distSq q p (closestT realOps q p tol n) ≤ distSq q p t := by
  have hbranch : realOps.lt (realOps.abs q.h) realOps.eps = true := by
    simp only [realOps, h0, abs_zero, decide_eq_true_eq]; positivity
  -- the value returned
  set a := px realOps p - q.x0 with ha
  set b := py realOps p - q.y0 with hb
  set c := q.r * Real.cos q.phi0 * a + q.r * Real.sin q.phi0 * b with hc
  set d := q.r * Real.cos q.phi0 * b - q.r * Real.sin q.phi0 * a with hd
  have hval : closestT realOps q p tol n = Complex.arg ⟨c, d⟩ := by
    unfold closestT
    rw [if_pos hbranch]
    simp only [angleBetween, helixAt, realOps, zero_add, add_sub_cancel_right, hc, hd, ha, hb, px, py]
  -- the distance as a function of t
  have hdist : ∀ s, distSq q p s
      = q.r ^ 2 + a ^ 2 + b ^ 2 + (q.z0 - p.z) ^ 2 - 2 * (c * Real.cos s + d * Real.sin s) := by
    intro s
    simp only [distSq, helixAt, realOps, h0, zero_div, zero_mul, zero_add, hc, hd, ha, hb, px, py]
    rw [Real.cos_add, Real.sin_add]
    have hs := Real.sin_sq_add_cos_sq s
    have hp := Real.sin_sq_add_cos_sq q.phi0
    nlinarith [hs, hp, mul_self_nonneg (Real.sin s), mul_self_nonneg (Real.cos s),
      congrArg (fun x => q.r ^ 2 * x) (show (Real.sin s ^ 2 + Real.cos s ^ 2)
        * (Real.sin q.phi0 ^ 2 + Real.cos q.phi0 ^ 2) = 1 by rw [hs, hp]; ring)]
  rw [hval, hdist, hdist, lincomb_at_arg]
  have := lincomb_le_abs c d t
  linarith

end AlphaG.Helix

namespace AlphaG.Helix

/-! ### Kepler's equation is the stationarity condition (pitch ≠ 0) -/

/-- The derivative of `distSq` in closed form. -/
noncomputable def dDistSq (q : Params ℝ) (p : Point ℝ) (t : ℝ) : ℝ :=
  2 * (q.r * Real.cos (t + q.phi0) + q.x0 - px realOps p) * (-(q.r * Real.sin (t + q.phi0)))
    + 2 * (q.r * Real.sin (t + q.phi0) + q.y0 - py realOps p) * (q.r * Real.cos (t + q.phi0))
    + 2 * (q.h / (2 * Real.pi) * t + q.z0 - p.z) * (q.h / (2 * Real.pi))

theorem hasDerivAt_distSq (q : Params ℝ) (p : Point ℝ) (t : ℝ) :
    HasDerivAt (distSq q p) (dDistSq q p t) t := by
  unfold dDistSq
  have hc : HasDerivAt (fun s => q.r * Real.cos (s + q.phi0) + q.x0 - px realOps p)
      (-(q.r * Real.sin (t + q.phi0))) t := by
    have h1 : HasDerivAt (fun s : ℝ => s + q.phi0) 1 t := (hasDerivAt_id t).add_const _
    have := ((Real.hasDerivAt_cos (t + q.phi0)).comp t h1).const_mul q.r
    simpa using (this.add_const q.x0).sub_const (px realOps p)
  have hs : HasDerivAt (fun s => q.r * Real.sin (s + q.phi0) + q.y0 - py realOps p)
      (q.r * Real.cos (t + q.phi0)) t := by
    have h1 : HasDerivAt (fun s : ℝ => s + q.phi0) 1 t := (hasDerivAt_id t).add_const _
    have := ((Real.hasDerivAt_sin (t + q.phi0)).comp t h1).const_mul q.r
    simpa using (this.add_const q.y0).sub_const (py realOps p)
  have hz : HasDerivAt (fun s => q.h / (2 * Real.pi) * s + q.z0 - p.z) (q.h / (2 * Real.pi)) t := by
    have := ((hasDerivAt_id t).const_mul (q.h / (2 * Real.pi)))
    simpa using (this.add_const q.z0).sub_const p.z
  have := ((hc.pow 2).add (hs.pow 2)).add (hz.pow 2)
  have hf : distSq q p = (fun s => q.r * Real.cos (s + q.phi0) + q.x0 - px realOps p) ^ 2
      + (fun s => q.r * Real.sin (s + q.phi0) + q.y0 - py realOps p) ^ 2
      + (fun s => q.h / (2 * Real.pi) * s + q.z0 - p.z) ^ 2 := by
    funext s
    simp only [distSq, helixAt, realOps, Pi.add_apply, Pi.pow_apply]
  rw [hf]
  exact this.congr_deriv (by norm_num)

/-- **Kepler ⇔ stationary.** For pitch `h ≠ 0`, with the code's substitution
`E = π − (t + φ₀ − δ) + 2πn`, `e = 4π²ρr/h²`, `M = π + 2πn − (φ₀ + 2π(p_z − z₀)/h − δ)` (where
`ρ`, `δ` are the polar coordinates of the point about the helix axis and `n` is any integer — the
code takes the floor of `temp / 2π`), the derivative of the squared distance vanishes at `t`
exactly when Kepler's equation `M = E − e sin E` holds. So the value the Newton loop converges to
is a stationary point of the distance; that it is the *global* minimum is decided by the
harness oracle, not by a theorem. -/
theorem kepler_iff_stationary (q : Params ℝ) (p : Point ℝ) (hh : q.h ≠ 0) (t : ℝ) (n : ℤ) :
    deriv (distSq q p) t = 0 ↔
      Real.pi + 2 * Real.pi * n
          - (q.phi0 + 2 * Real.pi * (p.z - q.z0) / q.h
              - Complex.arg ⟨px realOps p - q.x0, py realOps p - q.y0⟩)
        = (Real.pi - (t + q.phi0 - Complex.arg ⟨px realOps p - q.x0, py realOps p - q.y0⟩)
              + 2 * Real.pi * n)
          - 4 * Real.pi ^ 2 * Real.sqrt ((px realOps p - q.x0) ^ 2 + (py realOps p - q.y0) ^ 2)
              * q.r / q.h ^ 2
            * Real.sin (Real.pi - (t + q.phi0
                - Complex.arg ⟨px realOps p - q.x0, py realOps p - q.y0⟩) + 2 * Real.pi * n) := by
  rw [(hasDerivAt_distSq q p t).deriv]
  set a := px realOps p - q.x0 with ha
  set b := py realOps p - q.y0 with hb
  set δ := Complex.arg ⟨a, b⟩ with hδ
  set ρ := Real.sqrt (a ^ 2 + b ^ 2) with hρ
  have hn : ‖(⟨a, b⟩ : ℂ)‖ = ρ := by
    rw [Complex.norm_def, Complex.normSq_mk]; congr 1; ring
  have hca : ρ * Real.cos δ = a := by rw [← hn]; exact Complex.norm_mul_cos_arg _
  have hsb : ρ * Real.sin δ = b := by rw [← hn]; exact Complex.norm_mul_sin_arg _
  have hsinE : Real.sin (Real.pi - (t + q.phi0 - δ) + 2 * Real.pi * n)
      = Real.sin (t + q.phi0) * Real.cos δ - Real.cos (t + q.phi0) * Real.sin δ := by
    rw [show Real.pi - (t + q.phi0 - δ) + 2 * Real.pi * n
        = Real.pi - (t + q.phi0 - δ) + n * (2 * Real.pi) by ring,
      Real.sin_add_int_mul_two_pi, Real.sin_pi_sub, Real.sin_sub]
  rw [hsinE]
  have hpi : Real.pi ≠ 0 := Real.pi_ne_zero
  have key : dDistSq q p t
      = -(q.h ^ 2 / (2 * Real.pi ^ 2)) *
        ((Real.pi - (t + q.phi0 - δ) + 2 * Real.pi * n)
          - 4 * Real.pi ^ 2 * ρ * q.r / q.h ^ 2
              * (Real.sin (t + q.phi0) * Real.cos δ - Real.cos (t + q.phi0) * Real.sin δ)
          - (Real.pi + 2 * Real.pi * n - (q.phi0 + 2 * Real.pi * (p.z - q.z0) / q.h - δ))) := by
    unfold dDistSq
    rw [show px realOps p = a + q.x0 by rw [ha]; ring, show py realOps p = b + q.y0 by rw [hb]; ring,
      ← hca, ← hsb]
    field_simp
    ring
  rw [key]
  have hc : -(q.h ^ 2 / (2 * Real.pi ^ 2)) ≠ 0 := by
    apply neg_ne_zero.2; positivity
  rw [mul_eq_zero, or_iff_right hc, sub_eq_zero, eq_comm]

end AlphaG.Helix
