import AlphaG.Lemmas.EventIff
import AlphaG.Props.C10
import AlphaG.Model.Matching
/-
C11 — event results do not depend on bank order and are bit-for-bit reproducible.

* `build_perm_invariant` (full strength, tree with the repairs of findings F6 and F10): for
  permuted bank lists and for *any* two iteration orders of the chunk map (`GroupOrder`, the model
  of `HashMap` iteration), the builds both succeed with the same event, or both fail.
  Ingredients: `ok_iff_accepts` (success is characterised by an order-free predicate; the
  slot-occupancy duplicate tests can never fire, by the injectivity of the wire and pad maps, C08),
  `accepts_perm` (uses C04 `reassemble_perm_eq` on the decoded chunks), and C10 `assembly_spec`
  (the event is a function of the multiset of banks).
  Before the repair of F10 the statement was false: the explicit `GroupOrder` parameter exposed an
  input on which the two orders of two groups gave `ok` and `DuplicatePadSignal` (replayed on the
  implementation by harness/src/c11.rs, generator `same-pad-short-long`).
* `results_function_of_event`: `timestamp`, `avalanches` and `vertex` are applications of fixed
  functions to the event value, hence equal for equal events — for any carrier, no float law used.

Not provable here (sampled by harness/src/c11.rs on the implementation: 4 threads, 3 fresh
processes): absence of hidden state in `argmin`, `faer`, `indexmap`, `lazy_static` initialisation
order — schedules and processes are runtime notions.
-/
namespace AlphaG.C11
open AlphaG AlphaG.Event AlphaG.Generated AlphaG.Maps

variable {α : Type} (ops : Ops α)

/-- Both builds succeed with equal events, or both do not succeed. -/
def BuildEquiv (x y : Outcome Err (Event α)) : Prop :=
  (∃ ev, x = .ok ev ∧ y = .ok ev) ∨ ((¬ ∃ ev, x = .ok ev) ∧ ¬ ∃ ev, y = .ok ev)

/-- The value determined by a list with exactly one element. -/
def pick1 {β γ : Type} (f : β → γ) : List β → Option γ
  | [a] => some (f a)
  | _ => none

/-- It does not depend on the order of the list. -/
theorem pick1_perm {β γ : Type} (f : β → γ) {l₁ l₂ : List β} (hp : l₁.Perm l₂) :
    pick1 f l₁ = pick1 f l₂ := by
  cases l₂ with
  | nil => rw [List.perm_nil.1 hp]
  | cons a t =>
    cases t with
    | nil => rw [List.perm_singleton.1 hp]
    | cons b t =>
      have hl := hp.length_eq
      cases l₁ with
      | nil => simp at hl
      | cons x t1 =>
        cases t1 with
        | nil => simp at hl
        | cons y t2 => rfl

theorem expectedWire_perm (run : Nat) {banks₁ banks₂ : List Bank} (h : banks₁.Perm banks₂) (w : Nat) :
    expectedWire ops run banks₁ w = expectedWire ops run banks₂ w := by
  have e : ∀ banks, expectedWire ops run banks w
      = pick1 (fun wf => calibrate ops (okD 0 (wireBaseline run w))
          (ops.ofBits (okD 0 (wireGainBits run w))) (okD 0 (wireDelay run)) wf)
          (wireHits run w banks) := by
    intro banks
    unfold expectedWire
    cases wireHits run w banks with
    | nil => rfl
    | cons a t => cases t <;> rfl
  rw [e, e]
  exact pick1_perm _ ((h.filterMap _).filter _)

theorem expectedTs_perm {banks₁ banks₂ : List Bank} (h : banks₁.Perm banks₂) :
    expectedTs banks₁ = expectedTs banks₂ := by
  have e : ∀ banks, expectedTs banks = pick1 id (banks.filterMap trgOf) := by
    intro banks
    unfold expectedTs
    cases banks.filterMap trgOf with
    | nil => rfl
    | cons a t => cases t <;> rfl
  rw [e, e]
  exact pick1_perm _ (h.filterMap _)

theorem flatMap_congr_mem {β γ : Type} {l : List β} {f g : β → List γ} (h : ∀ a ∈ l, f a = g a) :
    l.flatMap f = l.flatMap g := by
  induction l with
  | nil => rfl
  | cons a t ih =>
    simp only [List.flatMap_cons]
    rw [h a List.mem_cons_self, ih (fun x hx => h x (List.mem_cons_of_mem _ hx))]

/-- The pad hits of a bank list, group by group over the keys. -/
theorem padHits_by_keys (run c r : Nat) (banks : List Bank) :
    padHits run c r (groupsOf banks)
      = ((groupsOf banks).map (·.1)).flatMap
          (fun k => groupHits run c r (k, chunksFor k (banks.filterMap chunkOf))) := by
  unfold padHits
  rw [List.flatMap_map]
  apply flatMap_congr_mem
  intro g hg
  have := (groupsOf_ok banks).chunks_eq hg
  conv => lhs; rw [show g = (g.1, g.2) from rfl, this]

theorem padHits_perm (run c r : Nat) {banks₁ banks₂ : List Bank} (h : banks₁.Perm banks₂) :
    (padHits run c r (groupsOf banks₁)).Perm (padHits run c r (groupsOf banks₂)) := by
  rw [padHits_by_keys, padHits_by_keys]
  have ok1 := groupsOf_ok banks₁
  have ok2 := groupsOf_ok banks₂
  have hk := h.filterMap chunkOf
  have hkeys : ((groupsOf banks₁).map (·.1)).Perm ((groupsOf banks₂).map (·.1)) := by
    refine (List.perm_ext_iff_of_nodup ok1.nodup ok2.nodup).2 (fun k => ?_)
    rw [ok1.keys k, ok2.keys k]
    exact (hk.map _).mem_iff
  have hfun : ∀ k, groupHits run c r (k, chunksFor k (banks₁.filterMap chunkOf))
      = groupHits run c r (k, chunksFor k (banks₂.filterMap chunkOf)) := by
    intro k
    unfold groupHits
    simp only
    rw [Pwb.reassemble_perm_eq _ _ (chunksFor_valid banks₁ k) (chunksFor_perm k hk)]
  rw [show (fun k => groupHits run c r (k, chunksFor k (banks₁.filterMap chunkOf)))
      = (fun k => groupHits run c r (k, chunksFor k (banks₂.filterMap chunkOf))) from funext hfun]
  exact List.Perm.flatMap_right _ hkeys

theorem expectedPad_perm (run : Nat) {banks₁ banks₂ : List Bank} (h : banks₁.Perm banks₂)
    (c r : Nat) : expectedPad ops run banks₁ c r = expectedPad ops run banks₂ c r := by
  unfold expectedPad
  exact expectedOf_perm ops run c r (padHits_perm run c r h)

/-- **C11 build_perm_invariant.** Building an event from any permutation of the same banks, under
any iteration order of the `HashMap` that groups the PWB chunks, succeeds or fails alike, and on
success yields the same event (all 256 + 18432 signal slots and the timestamp). -/
theorem build_perm_invariant (run : Nat) {banks₁ banks₂ : List Bank} (h : banks₁.Perm banks₂)
    (order₁ order₂ : GroupOrder) :
    BuildEquiv (buildEventWith ops order₁ run banks₁) (buildEventWith ops order₂ run banks₂) := by
  by_cases ha : Accepts run banks₁
  · left
    obtain ⟨ev₁, h1⟩ := ok_of_accepts ops ha order₁
    obtain ⟨ev₂, h2⟩ := ok_of_accepts ops (accepts_perm h ha) order₂
    have s1 := C10.assembly_spec ops order₁ run banks₁ ev₁ h1
    have s2 := C10.assembly_spec ops order₂ run banks₂ ev₂ h2
    obtain ⟨⟨w1s, w1⟩, ⟨p1s, p1⟩, t1⟩ := s1
    obtain ⟨⟨w2s, w2⟩, ⟨p2s, p2⟩, t2⟩ := s2
    have hw : ev₁.wire = ev₂.wire := by
      apply Array.ext_getElem?
      intro i
      by_cases hi : i < 256
      · rw [(w1 i hi).1, (w2 i hi).1, expectedWire_perm ops run h i]
      · rw [Array.getElem?_eq_none (by omega), Array.getElem?_eq_none (by omega)]
    have hp : ev₁.pad = ev₂.pad := by
      apply Array.ext_getElem?
      intro i
      by_cases hi : i < 32 * 576
      · have e : i = (i / 576) * 576 + i % 576 := by omega
        have hc : i / 576 < 32 := by omega
        have hr : i % 576 < 576 := by omega
        rw [e, (p1 _ _ hc hr).1, (p2 _ _ hc hr).1, expectedPad_perm ops run h]
      · rw [Array.getElem?_eq_none (by omega), Array.getElem?_eq_none (by omega)]
    have ht : ev₁.ts = ev₂.ts := by
      rw [expectedTs_perm h] at t1
      rw [← t2] at t1
      exact Option.some.inj t1
    refine ⟨ev₁, h1, ?_⟩
    rw [h2]
    cases ev₁; cases ev₂
    simp only at hw hp ht
    subst hw hp ht
    rfl
  · right
    refine ⟨fun hx => ha ((ok_iff_accepts ops order₁ run banks₁).1 hx), fun hx => ha ?_⟩
    exact accepts_perm h.symm ((ok_iff_accepts ops order₂ run banks₂).1 hx)

/-- Special case: one bank list, two iteration orders of the chunk map (two processes, two
threads, two calls: different `RandomState` seeds). -/
theorem build_order_invariant (run : Nat) (banks : List Bank) (order₁ order₂ : GroupOrder) :
    BuildEquiv (buildEventWith ops order₁ run banks) (buildEventWith ops order₂ run banks) :=
  build_perm_invariant ops run (List.Perm.refl banks) order₁ order₂

/-! ### Results are functions of the event -/

/-- The event as the reconstruction model (`Model/Matching.lean`, C13) reads it. -/
def toMatching (ev : Event α) : Matching.Event α :=
  { wires := fun w => (ev.wire[w]?).join, pads := fun c r => (ev.pad[c * 576 + r]?).join }

/-- **C11 results_function_of_event.** `timestamp()` reads the event's field; `avalanches()` is
the fixed function `Matching.avalanches` of the event's signal arrays (for any deconvolution and
sorting components, which the code passes no other state to); `vertex()` is a fixed function
`vertexOf` of the avalanche list. Equal events therefore give equal timestamps, avalanche lists
and vertices — bit for bit, for any carrier. -/
theorem results_function_of_event {β : Type} (avalanchesOf : Matching.Event α → β)
    (vertexOf : β → Option (α × α × α)) (ev₁ ev₂ : Event α) (h : ev₁ = ev₂) :
    timestamp ev₁ = timestamp ev₂
    ∧ avalanchesOf (toMatching ev₁) = avalanchesOf (toMatching ev₂)
    ∧ vertexOf (avalanchesOf (toMatching ev₁)) = vertexOf (avalanchesOf (toMatching ev₂)) := by
  subst h; exact ⟨rfl, rfl, rfl⟩

/-- Together: permuted banks and any two chunk-map orders give the same timestamp, avalanches and
vertex whenever the builds succeed. -/
theorem results_perm_invariant {β : Type} (avalanchesOf : Matching.Event α → β)
    (vertexOf : β → Option (α × α × α)) (run : Nat) {banks₁ banks₂ : List Bank}
    (h : banks₁.Perm banks₂) (order₁ order₂ : GroupOrder) (ev₁ ev₂ : Event α)
    (h1 : buildEventWith ops order₁ run banks₁ = .ok ev₁)
    (h2 : buildEventWith ops order₂ run banks₂ = .ok ev₂) :
    timestamp ev₁ = timestamp ev₂
    ∧ avalanchesOf (toMatching ev₁) = avalanchesOf (toMatching ev₂)
    ∧ vertexOf (avalanchesOf (toMatching ev₁)) = vertexOf (avalanchesOf (toMatching ev₂)) := by
  rcases build_perm_invariant ops run h order₁ order₂ with ⟨ev, e1, e2⟩ | ⟨n1, _⟩
  · rw [h1] at e1; rw [h2] at e2
    have a1 : ev₁ = ev := Outcome.ok.inj e1
    have a2 : ev₂ = ev := Outcome.ok.inj e2
    exact results_function_of_event avalanchesOf vertexOf ev₁ ev₂ (a1.trans a2.symm)
  · exact absurd ⟨ev₁, h1⟩ n1

end AlphaG.C11
