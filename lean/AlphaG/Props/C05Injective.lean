import AlphaG.Props.C05
/-
C05 — injectivity: two accepted slices that decode to the same PWB packet are the same slice.
Corollary of `pwb_roundtrip`.
-/
namespace AlphaG.Pwb

theorem pwb_decode_injective (b b' : List UInt8) (p : PwbPacket)
    (h : decodePwb b = .ok p) (h' : decodePwb b' = .ok p) : b = b' := by
  rw [← pwb_roundtrip b p h, ← pwb_roundtrip b' p h']

theorem pwb_encode_accepted (b : List UInt8) (p : PwbPacket) (h : decodePwb b = .ok p) :
    decodePwb (encodePwb p) = .ok p := by
  rw [pwb_roundtrip b p h]; exact h

end AlphaG.Pwb
